#!/bin/bash
# Idempotent, offline.  Creates /verif/.ovenv (ignored by git) from the pyenv 3.12 interpreter behind /venv,
# unzips the z3-solver wheel of the offline wheelhouse into it and adds a .pth to /venv's site-packages.
set -eu
HERE="$(cd "$(dirname "${BASH_SOURCE[0]}")" && pwd)"
cd "$HERE"
OV="$HERE/.ovenv"
mkdir -p evidence replay out
exec 9>"$HERE/.lock"
flock 9
if [ ! -x "$OV/bin/python" ] || ! "$OV/bin/python" -c "import z3, numpy, pandas, gemdat" 2>/dev/null; then
  rm -rf "$OV"
  BASE=$(/venv/bin/python -c "import sys; print(sys.base_prefix)")
  "$BASE/bin/python3.12" -m venv --without-pip "$OV"
  SP="$OV/lib/python3.12/site-packages"
  unzip -q -o /opt/veriftools/wheels/z3_solver-5.1.0.0-py3-none-manylinux_2_27_x86_64.whl -d "$SP"
  echo "import site; site.addsitedir('/venv/lib/python3.12/site-packages')" > "$SP/zz_venv.pth"
  "$OV/bin/python" -c "import z3, numpy, pandas, gemdat; print('overlay ok', z3.get_version_string())"
fi
echo "setup ok"

"""CLI of every registered check:  python -m verif.check <property> [--tier quick|thorough]  |  --replay <file>

exit 0  all obligations discharged, all bounded stand-ins passed (listed known findings are printed, not failed)
exit 1  VIOLATION property=<id> replay=<path> [no-failing-input-found]
exit 2  undecided (solver unknown / timeout / code left the supported subset) and no violation found
exit 3  checker error (vacuity guard tripped, internal exception)
"""
from __future__ import annotations

import argparse
import importlib
import json
import multiprocessing as mp
import os
import sys
import time
import traceback

ROOT = os.path.dirname(os.path.dirname(os.path.abspath(__file__)))
REPO = os.environ.get('VERIF_REPO', '/repo')
if os.path.join(REPO, 'src') not in sys.path:
    sys.path.insert(0, os.path.join(REPO, 'src'))


JOB_BUDGET_S = {'quick': int(os.environ.get('VERIF_JOB_BUDGET', '240')), 'thorough': int(os.environ.get('VERIF_JOB_BUDGET', '3000'))}


def _run_job(job):
    """Worker: run one proof unit or one bounded stand-in; return a JSON-able record."""
    kind, modname, fname, tier, seed = job
    t0 = time.time()
    import signal

    def _alarm(signum, frame):
        raise TimeoutError(f'job exceeded its wall-time budget ({JOB_BUDGET_S[tier]} s)')
    signal.signal(signal.SIGALRM, _alarm)
    from verif.engine.core import load_scale
    signal.alarm(int(JOB_BUDGET_S[tier] * load_scale()))
    try:
        mod = importlib.import_module(modname)
        fn = getattr(mod, fname)
        if kind == 'unit':
            from verif.engine.run import run_unit
            rec = run_unit(fn, tier, seed)
        else:
            rec = fn(tier, seed)
            rec.setdefault('kind', 'bounded')
        rec['job'] = f'{modname}.{fname}'
        rec['wall_s'] = time.time() - t0
        signal.alarm(0)
        return rec
    except TimeoutError as e:
        return {'kind': 'timeout', 'job': f'{modname}.{fname}', 'error': str(e), 'wall_s': time.time() - t0}
    except Exception as e:  # checker error
        return {'kind': 'error', 'job': f'{modname}.{fname}', 'error': f'{type(e).__name__}: {e}',
                'traceback': traceback.format_exc(), 'wall_s': time.time() - t0}


def main(argv=None):
    ap = argparse.ArgumentParser()
    ap.add_argument('property', nargs='?')
    ap.add_argument('--tier', default=os.environ.get('VERIF_TIER', 'quick'))
    ap.add_argument('--replay')
    ap.add_argument('--jobs', type=int, default=int(os.environ.get('VERIF_JOBS', '8')))
    ap.add_argument('--only', default=None, help='substring filter on unit / stand-in names (debugging)')
    ap.add_argument('-v', '--verbose', action='store_true')
    a = ap.parse_args(argv)
    os.chdir(ROOT)
    if a.replay:
        from verif.engine.replay import run_replay_file
        return run_replay_file(a.replay)
    pid = a.property
    seed = int(os.environ.get('VERIF_SEED', '0'))
    tier = a.tier if a.tier in ('quick', 'thorough') else 'quick'
    t0 = time.time()
    from verif.report import Report
    rep = Report(pid, tier, seed)
    try:
        mod = importlib.import_module(f'verif.props.{pid.lower()}')
    except ImportError as e:
        print(f'no check for {pid}: {e}', file=sys.stderr)
        return 3
    jobs = []
    for fname in getattr(mod, 'UNITS', []):
        jobs.append(('unit', mod.__name__, fname, tier, seed))
    for fname in getattr(mod, 'BOUNDED', []):
        jobs.append(('bounded', mod.__name__, fname, tier, seed))
    if a.only:
        jobs = [j for j in jobs if a.only in j[2]]
    ctxm = mp.get_context('fork')
    if a.jobs > 1 and len(jobs) > 1:
        with ctxm.Pool(min(a.jobs, len(jobs))) as pool:
            recs = pool.map(_run_job, jobs, chunksize=1)
    else:
        recs = [_run_job(j) for j in jobs]
    for r in recs:
        rep.add(r)
    rep.module = mod
    code = rep.finish(time.time() - t0, verbose=a.verbose, partial=bool(a.only))
    return code


if __name__ == '__main__':
    sys.exit(main())

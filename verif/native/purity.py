"""Generic bounded stand-in used by every property: the analysis functions are functions of their inputs.

For every registered API call of a property:  (1) the objects handed in (trajectories, site structures, state arrays, event tables, radius
tables, volumes, graphs) are unchanged, at the level a user observes them, after the call;  (2) a second identical call on the same objects
returns the same result;  (3) a fresh call on independently rebuilt equal inputs returns the same result (no state carried over from the
earlier calls).  This is what catches in-place updates through aliases, memoisation keyed too coarsely and state leaking between calls -
kinds of change a single call on fresh inputs cannot see.  Bounded, never counted as proved."""
from __future__ import annotations

import numpy as np


def snap(x, depth=0):
    """A comparable snapshot of the user-visible content of a value."""
    import pandas as pd
    if depth > 6:
        return ('deep', type(x).__name__)
    if x is None or isinstance(x, (bool, int, str)):
        return ('v', x)
    if isinstance(x, (float, np.floating)):
        return ('f', float(x))
    if isinstance(x, np.integer):
        return ('v', int(x))
    if isinstance(x, np.ndarray):
        return ('nd', np.array(x, copy=True))
    if isinstance(x, pd.DataFrame):
        return ('df', list(x.columns), x.to_numpy().copy())
    if isinstance(x, pd.Series):
        return ('nd', x.to_numpy().copy())
    if isinstance(x, dict):
        return ('d', {repr(k): snap(v, depth + 1) for k, v in x.items()})
    if isinstance(x, (list, tuple)):
        return ('l', [snap(v, depth + 1) for v in x])
    name = type(x).__name__
    if name == 'Trajectory':
        return ('traj', np.array(x.positions, copy=True), [str(s) for s in x.species], np.array(x.get_lattice().matrix), float(x.time_step or 0), snap(dict(x.metadata or {}), depth + 1))
    if name == 'Structure':
        return ('struct', np.array(x.frac_coords, copy=True), list(x.labels), np.array(x.lattice.matrix), [s.species_string for s in x])
    if name == 'Lattice':
        return ('nd', np.array(x.matrix))
    if name == 'Transitions':
        return ('trans', np.array(x.states, copy=True), snap(x.events, depth + 1), np.array(getattr(x, 'inner_states', np.zeros(0)), copy=True))
    if name == 'Jumps':
        return ('jumps', snap(x.data, depth + 1))
    if name in ('Volume', 'FreeEnergyVolume'):
        return ('vol', np.array(x.data, copy=True), np.array(x.lattice.matrix))
    if name == 'Pathway':
        return ('path', list(x.sites or []), [float(e) for e in (x.energy or [])])
    if name in ('RDFData',):
        return ('rdf', np.array(x.x), np.array(x.y), x.label, x.state)
    if name in ('Graph', 'DiGraph'):
        return ('graph', sorted(map(repr, x.nodes(data=True))), sorted(map(repr, x.edges(data=True))))
    if name in ('Orientations',):
        return ('orient', np.array(x.vectors, copy=True))
    if name in ('ShapeData',):
        return ('shape', np.array(x.coords, copy=True), float(x.radius))
    if name in ('TrajectoryMetrics', 'TrajectoryMetricsStd'):
        return ('o', name)
    if name in ('Collective',):
        return ('coll', int(x.n_solo_jumps), int(x.n_coll_jumps), len(x.collective))
    if name in ('Counter', 'defaultdict'):
        return ('d', {repr(k): snap(v, depth + 1) for k, v in dict(x).items()})
    if hasattr(x, 'n') and hasattr(x, 's'):  # ufloat
        return ('l', [('f', float(x.n)), ('f', float(x.s))])
    if hasattr(x, '__float__'):
        try:
            return ('f', float(x))
        except Exception:
            pass
    return ('o', name)


def same(a, b, tol=1e-10):
    if a[0] != b[0]:
        return False
    if a[0] in ('v', 'o', 'deep'):
        return a[1] == b[1]
    if a[0] == 'f':
        return (np.isnan(a[1]) and np.isnan(b[1])) or abs(a[1] - b[1]) <= tol * max(1.0, abs(a[1]))
    if a[0] == 'nd':
        x, y = a[1], b[1]
        if x.shape != y.shape:
            return False
        if x.dtype.kind in 'fc' or y.dtype.kind in 'fc':
            return bool(np.allclose(x.astype(float), y.astype(float), rtol=tol, atol=tol, equal_nan=True))
        return bool(np.array_equal(x, y))
    if a[0] == 'd':
        return a[1].keys() == b[1].keys() and all(same(a[1][k], b[1][k], tol) for k in a[1])
    if a[0] == 'l':
        return len(a[1]) == len(b[1]) and all(same(x, y, tol) for x, y in zip(a[1], b[1]))
    # tagged tuples of heterogeneous parts
    if len(a) != len(b):
        return False
    for x, y in zip(a[1:], b[1:]):
        if isinstance(x, np.ndarray) or isinstance(y, np.ndarray):
            if not same(('nd', np.asarray(x)), ('nd', np.asarray(y)), tol):
                return False
        elif isinstance(x, tuple) and x and isinstance(x[0], str) and x[0] in ('v', 'f', 'nd', 'd', 'l', 'df', 'o'):
            if not same(x, y, tol):
                return False
        elif isinstance(x, float):
            if not same(('f', x), ('f', float(y)), tol):
                return False
        elif x != y:
            return False
    return True


def run_case(build, seed):
    """build(seed) -> (call, args): `call(**args)` is the API call, `args` the objects the caller owns.
    Returns a list of complaints (empty = pure on this case)."""
    bad = []
    call, args = build(seed)
    before = {k: snap(v) for k, v in args.items()}
    r1 = snap(call(**args))
    for k, v in args.items():
        if not same(before[k], snap(v)):
            bad.append(f'the argument `{k}` is not what it was before the call')
    r2 = snap(call(**args))
    if not same(r1, r2):
        bad.append('a second identical call on the same objects returns something else')
    call3, args3 = build(seed)
    r3 = snap(call3(**args3))
    if not same(r1, r3):
        bad.append('a call on freshly rebuilt equal inputs returns something else than the first call did (state carried over between calls)')
    return bad


def make_bounded(prop, registry, n_quick=3, n_thorough=40):
    """Factory of the `bounded_purity` stand-in of one property. registry: list of (api name, build)."""
    def bounded_purity(tier, seed):
        from verif.bounded import Stand
        n = n_quick if tier == 'quick' else n_thorough
        st = Stand(f'{prop}.purity', f'{len(registry)} API calls x {n} synthetic systems: arguments unchanged, second call equal, fresh call equal',
                   'seeded random systems; every case non-trivial; distinct by (api, seed)')
        rng = np.random.default_rng(seed + 4242)
        for name, build in registry:
            for c in range(n):
                sd = int(rng.integers(1, 10 ** 6))
                inp = {'property': prop, 'api': name, 'seed': sd}
                r = st.guard(replay_purity, inp)
                if r is None:
                    continue
                st.case(inp, nontrivial=True, sample=inp)
                if r['reproduced']:
                    st.violation('purity', r['detail'], 'verif.native.purity:replay_purity', inp)
        return st.result()
    return bounded_purity


def replay_purity(inputs):
    import importlib
    import warnings
    warnings.filterwarnings('ignore')
    mod = importlib.import_module('verif.props.' + inputs['property'].lower())
    reg = dict(mod.PURITY)
    bad = run_case(reg[inputs['api']], inputs['seed'])
    return {'reproduced': bool(bad), 'detail': f"{inputs['api']} (seed {inputs['seed']}): " + '; '.join(bad)}


# ---------------------------------------------------------------------------------------------------------------
# shared builders
# ---------------------------------------------------------------------------------------------------------------

def system(seed, **kw):
    from verif.native.synth import hopping_system
    kw.setdefault('n_frames', 30)
    kw.setdefault('n_diff', 3)
    kw.setdefault('n_sites', 4)
    kw.setdefault('n_frame_atoms', 2)
    kw.setdefault('frame_symbols', ('O', 'O'))
    kw.setdefault('hop_prob', 0.35)
    kw.setdefault('labels', ['A', 'B', 'A', 'C'])
    return hopping_system(seed, **kw)


def transitions(seed, inner=1.0, radius=1.0):
    traj, sites, info = system(seed)
    tr = traj.transitions_between_sites(sites, 'Li', site_radius=radius, site_inner_fraction=inner)
    return traj, sites, tr


def history(seed, T=30, N=3, S=3):
    rng = np.random.default_rng(seed)
    st = np.empty((T, N), dtype=int)
    cur = [-1] * N
    for t in range(T):
        for a in range(N):
            if t == 0 or rng.random() < 0.3:
                new = int(rng.integers(-1, S))
                if new == -1 or all(cur[b] != new for b in range(N) if b != a):  # one atom per site and frame (pymatgen rejects occupancies above one)
                    cur[a] = new
        st[t] = cur
    if not (st[:-1] != st[1:]).any():
        st[1, 0] = (st[0, 0] + 2) % S
    inner = np.where(rng.random((T, N)) < 0.6, st, -1)
    return st, inner

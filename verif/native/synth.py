"""Synthetic systems for native replays and bounded stand-ins (DESIGN §7.4).  Deterministic in the seed."""
from __future__ import annotations

import numpy as np


def random_rotation(rng):
    q = rng.normal(size=4)
    q /= np.linalg.norm(q)
    a, b, c, d = q
    return np.array([
        [a * a + b * b - c * c - d * d, 2 * (b * c - a * d), 2 * (b * d + a * c)],
        [2 * (b * c + a * d), a * a - b * b + c * c - d * d, 2 * (c * d - a * b)],
        [2 * (b * d - a * c), 2 * (c * d + a * b), a * a - b * b - c * c + d * d]])


def random_lattice(rng, family=None, rotate=None, scale=1.0, skew=60.0):
    from pymatgen.core import Lattice
    family = family or rng.choice(['cubic', 'orthorhombic', 'hexagonal', 'monoclinic', 'triclinic', 'rhombohedral60'])
    if family == 'cubic':
        a = rng.uniform(4, 9)
        lat = Lattice.cubic(a)
    elif family == 'orthorhombic':
        lat = Lattice.orthorhombic(*rng.uniform(4, 10, size=3))
    elif family == 'hexagonal':
        lat = Lattice.hexagonal(rng.uniform(4, 8), rng.uniform(5, 10))
    elif family == 'rhombohedral60':
        # strongly skewed: the nearest periodic image of a pair is often not the component-wise nearest one
        a = rng.uniform(6, 10)
        lat = Lattice.from_parameters(a, a, a, skew, skew, skew)
    elif family == 'monoclinic':
        lat = Lattice.monoclinic(*rng.uniform(4, 9, size=3), rng.uniform(95, 120))
    else:
        lat = Lattice.from_parameters(*rng.uniform(5, 9, size=3), rng.uniform(65, 85), rng.uniform(70, 100), rng.uniform(75, 110))
    m = lat.matrix * scale
    if rotate is None:
        rotate = rng.random() < 0.5
    if rotate:
        m = m @ random_rotation(rng).T
    return Lattice(m)


def hopping_system(seed, n_frames=60, n_diff=3, n_sites=5, n_frame_atoms=2, family=None, rotate=None, labels=None,
                   diff_symbol='Li', frame_symbols=('O', 'P'), vib=0.12, hop_prob=0.15, int_shift=True,
                   site_positions=None, time_step=1e-15, species_cls='Element', temperature=600.0, interleave=False, edge_transit=None):
    """Diffusing atoms hop between labelled sites with Gaussian vibration; framework atoms vibrate in place.

    Returns (trajectory, sites_structure, info)."""
    from pymatgen.core import Element, Species, Structure

    from gemdat.trajectory import Trajectory
    rng = np.random.default_rng(seed)
    # systems that go through the periodic state search use 72 degrees for the strongly skewed family: still a cell in which the nearest image of
    # a pair is often not the component-wise nearest one, but away from the 60 / 120 degree boundary of the reduced form, where the periodic KD-tree
    # of MDAnalysis loses pairs (known finding C02-kdtree-degenerate-cell, checked by its own witness)
    lat = random_lattice(rng, family=family, rotate=rotate, skew=72.0)
    if site_positions is None:
        # well separated sites: rejection sampling on min-image distance
        pts = []
        tries = 0
        while len(pts) < n_sites and tries < 5000:
            tries += 1
            p = rng.random(3)
            if tries % 7 == 0:
                p[rng.integers(3)] = rng.choice([0.0, 0.999999, 0.5])
            if all(lat.get_all_distances(p, q)[0, 0] > 1.8 for q in pts):
                pts.append(p)
        site_positions = np.array(pts)
    n_sites = len(site_positions)
    if labels is None:
        labels = [f'S{k % 2}' for k in range(n_sites)]
    sites = Structure(lat, [diff_symbol] * n_sites, site_positions, labels=list(labels))
    occ = rng.integers(0, n_sites, size=n_diff)
    coords = np.zeros((n_frames, n_diff + n_frame_atoms, 3))
    frame_home = rng.random((n_frame_atoms, 3))
    inv = np.linalg.inv(lat.matrix)
    transit = np.zeros(n_diff, dtype=int)
    for t in range(n_frames):
        for a in range(n_diff):
            if transit[a] > 0:
                transit[a] -= 1
                coords[t, a] = coords[t - 1, a] + (rng.normal(scale=0.02, size=3) @ inv)
                continue
            if rng.random() < hop_prob:
                occ[a] = rng.integers(0, n_sites)
                if rng.random() < 0.4:
                    transit[a] = rng.integers(1, 4)
                    # somewhere far from sites: midpoint + offset
                    coords[t, a] = site_positions[occ[a]] + (rng.normal(scale=1.2, size=3) @ inv)
                    continue
            coords[t, a] = site_positions[occ[a]] + (rng.normal(scale=vib, size=3) @ inv)
        for b in range(n_frame_atoms):
            coords[t, n_diff + b] = frame_home[b] + (rng.normal(scale=vib * 0.5, size=3) @ inv)
    if edge_transit:
        # the first diffusing atom starts the run between sites, the last one ends it between sites (k frames each, far from every site)
        k0, k1 = edge_transit
        rng_e = np.random.default_rng(seed + 99991)
        far = None
        for _ in range(4000):
            p = rng_e.random(3)
            if all(lat.get_all_distances(p, q)[0, 0] > 1.6 for q in site_positions):
                far = p
                break
        if far is not None:
            if k0:
                coords[:k0, 0] = far + (rng_e.normal(scale=0.02, size=(k0, 3)) @ inv)
            if k1:
                coords[n_frames - k1:, n_diff - 1] = far + (rng_e.normal(scale=0.02, size=(k1, 3)) @ inv)
    if int_shift:
        coords = coords + rng.integers(-2, 3, size=coords.shape)
    if species_cls == 'SpeciesOx':
        # Species carrying an oxidation state: str(sp) is 'Li+' while sp.symbol is 'Li'
        ox = {'Li': 1, 'Na': 1, 'O': -2, 'P': 5, 'N': -3, 'S': -2}
        mk = lambda sym: Species(sym, ox.get(sym, 1))  # noqa: E731
    else:
        mk = Element if species_cls == 'Element' else Species
    species = [mk(diff_symbol)] * n_diff + [mk(frame_symbols[b % len(frame_symbols)]) for b in range(n_frame_atoms)]
    if interleave:
        # atoms of the different species alternate in the atom list (Li, O, Li, P, ...), as in files that are not grouped by element
        order = []
        a_, b_ = list(range(n_diff)), list(range(n_diff, n_diff + n_frame_atoms))
        while a_ or b_:
            if a_:
                order.append(a_.pop(0))
            if b_:
                order.append(b_.pop(0))
        species = [species[k] for k in order]
        coords = coords[:, order]
    traj = Trajectory(species=species, coords=coords, lattice=lat.matrix, time_step=time_step,
                      metadata={'temperature': temperature})
    return traj, sites, {'lattice': lat, 'labels': list(labels), 'site_positions': site_positions}


def mindist(lat, a, b):
    """Brute-force minimum-image distance oracle (27 images are enough only for reduced cells, so use pymatgen's)."""
    return lat.get_all_distances(np.atleast_2d(a), np.atleast_2d(b))


def brute_mindist(matrix, fa, fb, rng=2):
    """Independent oracle: explicit search over (2*rng+1)^3 images in Cartesian space."""
    fa = np.atleast_2d(fa)
    fb = np.atleast_2d(fb)
    imgs = np.array([[i, j, k] for i in range(-rng, rng + 1) for j in range(-rng, rng + 1) for k in range(-rng, rng + 1)])
    d = fb[None, :, None, :] - fa[:, None, None, :] + imgs[None, None, :, :]
    c = d @ matrix
    return np.sqrt((c ** 2).sum(-1)).min(-1)


def make_transitions(states, inner_states=None, n_sites=None, labels=None, seed=0, sheared=False, site_lattice_scale=None):
    """Wrap state histories into a real gemdat.Transitions via its public constructor (real event builder)."""
    from pymatgen.core import Element, Lattice, Structure

    from gemdat.trajectory import Trajectory
    from gemdat.transitions import Transitions, _calculate_transition_events
    states = np.asarray(states, dtype=int)
    inner_states = states.copy() if inner_states is None else np.asarray(inner_states, dtype=int)
    T, N = states.shape
    n_sites = n_sites or int(max(states.max(), 0) + 1)
    labels = labels or [f'S{k % 2}' for k in range(n_sites)]
    if sheared:
        # strongly sheared cell: the minimum image of a site pair is not the component-wise nearest one
        lat = Lattice([[4.0, 0.0, 0.0], [3.6, 1.9, 0.0], [0.4, 3.1, 2.2]])
        prng = np.random.default_rng(seed + 5)
        pos = prng.random((n_sites, 3))
    else:
        lat = Lattice.cubic(3.0 * n_sites)
        pos = np.array([[(k + 0.5) / n_sites, 0.5, 0.5] for k in range(n_sites)])
    # the site structure may come from a reference cell slightly different from the simulation cell (e.g. a thermally expanded MD cell):
    # distances are those of the simulation cell (the trajectory's lattice)
    site_lat = lat if site_lattice_scale is None else Lattice(lat.matrix * site_lattice_scale)
    sites = Structure(site_lat, ['Li'] * n_sites, pos, labels=labels)
    coords = np.zeros((T, N, 3))
    rng = np.random.default_rng(seed + 17)
    for t in range(T):
        for a in range(N):
            s = states[t, a]
            coords[t, a] = pos[s] if s >= 0 else [0.0, 0.0, 0.0]
    # thermal jitter so that speeds / attempt frequency are non-degenerate (the states are given, not recomputed)
    coords = coords + rng.normal(scale=0.004, size=coords.shape)
    traj = Trajectory(species=[Element('Li')] * N, coords=coords, lattice=lat.matrix, time_step=1e-15,
                      metadata={'temperature': 600.0})
    events = _calculate_transition_events(atom_sites=states, atom_inner_sites=inner_states)
    return Transitions(trajectory=traj, diff_trajectory=traj, sites=sites, events=events, states=states,
                       inner_states=inner_states)

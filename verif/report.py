"""Aggregation of unit / stand-in records into verdict, VIOLATION lines and the evidence file."""
from __future__ import annotations

import json
import os
import sys

from verif.engine.replay import call_replay, write_replay_file

ROOT = os.path.dirname(os.path.dirname(os.path.abspath(__file__)))

GLOBAL_ASSUMPTIONS = [
    'A-INT: Python int / numpy int64 treated as mathematical integers (no overflow)',
    'A-REAL: float64 treated as real numbers except in obligations marked FP',
    'A-PURE: library spec functions are deterministic functions of their arguments',
    'A-TERM: partial correctness only (termination not proved unless a decreases clause is stated)',
    'pyvc itself (AST interpreter, tensor domain, VC generation) is trusted; it is cross-checked by the kill suite, '
    'canaries, cover queries and native replays but not verified',
    'z3 5.1 / cvc5 1.0.3 / z3 4.8.12 verdicts are trusted',
]


def load_known():
    p = os.path.join(ROOT, 'known_findings.json')
    if not os.path.exists(p):
        return []
    with open(p) as f:
        return json.load(f).get('findings', [])


class Report:
    def __init__(self, pid, tier, seed):
        self.pid = pid
        self.tier = tier
        self.seed = seed
        self.records = []
        self.module = None

    def add(self, rec):
        self.records.append(rec)

    def finish(self, wall, verbose=False, partial=False):
        pid = self.pid
        out = []
        violations = []
        errors = []
        undecided = []
        obligations = []
        bounded = []
        functions = {}
        trusted = set()
        samples = []
        solver_time = {}
        known_seen = []
        for r in self.records:
            if r['kind'] == 'timeout':
                undecided.append(f"{r['job']}: {r['error']}")
                continue
            if r['kind'] == 'error':
                errors.append(f"{r['job']}: {r['error']}")
                if verbose:
                    print(r.get('traceback'), file=sys.stderr)
                continue
            if r['kind'] == 'unit':
                for e in r['errors']:
                    errors.append(f"{r['unit']}: {e}")
                for u in r['unsupported']:
                    undecided.append(f"{u['label']}: UNSUPPORTED {u['reason']}")
                for f in r['functions']:
                    functions[f['function']] = f
                trusted.update(r['trusted'])
                samples.extend(r['samples'][:1])
                for ob in r['obligations']:
                    ob = dict(ob)
                    ob['unit'] = r['unit']
                    obligations.append(ob)
                    solver_time[ob['backend']] = solver_time.get(ob['backend'], 0.0) + ob.get('seconds', 0.0)
                    st = ob['status']
                    if ob['kind'] == 'cover' and st != 'discharged':
                        (errors if st == 'vacuous' else undecided).append(f"{ob['name']}: precondition cover is {st}")
                    elif ob['kind'] == 'canary' and st == 'inconsistent':
                        errors.append(f"{ob['name']}: `False` is provable - inconsistent axioms/contract")
                    elif st == 'undecided':
                        undecided.append(f"{ob['name']}: {ob.get('reason')}")
                    elif st == 'failed':
                        # a refuted obligation is reported as a violation whether it is a clause of the contract or an auxiliary obligation (loop
                        # invariant) of the proof: an obligation that was discharged on the unchanged tree and is now refuted, with the solver's
                        # model attached (`no-failing-input-found` when the replay does not reproduce).  The price - a behaviour-preserving edit
                        # inside a loop can refute an invariant - is discussed in DESIGN 10.5.
                        violations.append(self._violation_from_obligation(ob))
            elif r['kind'] == 'bounded':
                b = {k: r.get(k) for k in ('name', 'bound', 'evaluations', 'distinct_nontrivial', 'rule', 'exhaustive', 'wall_s')}
                b['violations'] = len(r.get('violations', []))
                bounded.append(b)
                if r.get('sample') is not None:
                    samples.append({'bounded_case': r['sample'], 'stand_in': r.get('name')})
                for v in r.get('violations', [])[:3]:
                    violations.append(self._violation_from_bounded(r, v))
                for e in r.get('errors', []):
                    errors.append(f"{r.get('name')}: {e}")
        # known findings: replay the recorded witnesses
        for kf in load_known():
            if kf.get('property') != pid or kf.get('status', 'open') != 'open':
                continue
            res = call_replay(kf['witness_fn'], kf['witness_inputs'])
            if res['reproduced']:
                print(f"KNOWN-FINDING: property={pid} {kf['what']}")
                known_seen.append({'id': kf['id'], 'reproduces': True})
            else:
                known_seen.append({'id': kf['id'], 'reproduces': False, 'note': 'finding no longer reproduces'})
        vcs = [o for o in obligations if o['kind'] not in ('cover', 'canary')]
        n_obl = len(obligations)
        n_dis = sum(1 for o in obligations if o['status'] == 'discharged')
        seen_lines = set()
        for v in violations:
            if v['line'] not in seen_lines:
                print(v['line'])
                seen_lines.add(v['line'])
        for e in errors:
            print(f'CHECKER-ERROR {e}', file=sys.stderr)
        for u in undecided:
            print(f'UNDECIDED {u}', file=sys.stderr)
        if not vcs and not partial:
            errors.append('zero proof obligations generated')
        code = 1 if violations else 3 if errors else 2 if undecided else 0
        meta = getattr(self.module, 'META', {}) if self.module else {}
        evidence = {
            'property_id': pid, 'tier': self.tier, 'seed': self.seed, 'level': 'proof',
            'coverage': {
                'obligations': n_obl, 'discharged': n_dis,
                'checker_cmd': f'./check {pid} --tier {self.tier}  (pyvc: AST of /repo working tree -> VCs -> z3 5.1 API; cvc5 1.0.3 / z3 4.8.12 CLI on unknown'
                               + ('; cvc5 second opinion on every VC' if self.tier == 'thorough' else '') + ')',
                'trusted_base': sorted(trusted) + meta.get('trusted_extra', []),
                'functions_under_contract': sorted(functions.values(), key=lambda f: f['function']),
                'obligation_list': [{k: o.get(k) for k in ('name', 'kind', 'status', 'backend', 'seconds', 'unit') if o.get(k) is not None} for o in obligations],
                'by_kind': _count_by(obligations, 'kind'),
                'solver_time_s': {k: round(v, 3) for k, v in solver_time.items()},
                'bounded': bounded,
                'evaluations': sum(b.get('evaluations') or 0 for b in bounded),
                'distinct_nontrivial': sum(b.get('distinct_nontrivial') or 0 for b in bounded),
                'rule': 'bounded stand-ins only (never counted as proved): see coverage.bounded[].rule',
                'samples': samples[:4] or [{'note': 'no sample available'}],
                'not_decided': meta.get('not_decided', []),
                'clauses': meta.get('clauses', {}),
                'known_findings_seen': known_seen,
                'undecided': undecided, 'checker_errors': errors,
                'extraction_drops': 'docstrings, type annotations, decorators (@property/@classmethod/@staticmethod as calling '
                                    'convention; @weak_lru_cache handled by C20), print/warnings.warn, rich.progress.track(it)->it, '
                                    'f-string message text',
            },
            'assumptions': GLOBAL_ASSUMPTIONS + meta.get('assumptions', []),
            'wall_s': round(wall, 3), 'violations': len(violations), 'exit_code': code,
        }
        if not partial:
            # runs against scratch copies / seeded changes (kill suite, seed evaluation) must not overwrite the committed evidence
            edir = os.path.join(ROOT, os.environ.get('VERIF_EVIDENCE_DIR', 'evidence'))
            os.makedirs(edir, exist_ok=True)
            with open(os.path.join(edir, f'{pid}.json'), 'w') as f:
                json.dump(evidence, f, indent=1, default=str)
        print(f'{pid} tier={self.tier}: obligations={n_obl} discharged={n_dis} failed={len([o for o in obligations if o["status"] == "failed"])} '
              f'undecided={len(undecided)} bounded_evals={evidence["coverage"]["evaluations"]} violations={len(violations)} '
              f'errors={len(errors)} wall={wall:.1f}s exit={code}')
        if verbose:
            for o in obligations:
                print(f"  [{o['status']:>11}] {o['name']}  ({o['backend']}, {o.get('seconds', 0)}s) {o.get('reason', '') or ''}")
        return code

    def _violation_from_obligation(self, ob):
        pid = self.pid
        rp = ob.get('replay')
        solver_out = f"obligation {ob['name']} (kind {ob['kind']}, line {ob.get('line')}, path {ob.get('path')}): {ob['backend']} answered sat\nmodel: {ob.get('model_excerpt')}"
        if rp:
            res = rp.get('result') or call_replay(rp['fn'], rp['inputs'])
            path = write_replay_file(pid, ob['name'], rp['fn'], rp['inputs'], solver_out, res)
            if res['reproduced']:
                return {'line': f'VIOLATION property={pid} replay={path}', 'obligation': ob['name'], 'reproduced': True}
            note = 'counter-model did not reproduce natively'
        else:
            note = ob.get('concretise_error') or 'no concretiser for this obligation'
            path = write_replay_file(pid, ob['name'], None, None, solver_out, None, note=note)
        return {'line': f'VIOLATION property={pid} replay={path} obligation={ob["name"]} no-failing-input-found',
                'obligation': ob['name'], 'reproduced': False}

    def _violation_from_bounded(self, r, v):
        pid = self.pid
        name = f"bounded.{r.get('name')}.{v.get('tag', 'case')}"
        path = write_replay_file(pid, name, v.get('replay_fn'), v.get('inputs'),
                                 'found by the bounded stand-in (concrete contract evaluation on the real function)',
                                 {'reproduced': True, 'detail': v.get('detail')})
        return {'line': f'VIOLATION property={pid} replay={path}', 'obligation': name, 'reproduced': True}


def _count_by(items, key):
    out = {}
    for i in items:
        out.setdefault(i[key], {'total': 0, 'discharged': 0})
        out[i[key]]['total'] += 1
        if i['status'] == 'discharged':
            out[i[key]]['discharged'] += 1
    return out

"""Finite-scope counter-model search for obligations the solver leaves `unknown`.

All universally quantified integer variables of the hypotheses (and existential ones of the goal) are instantiated
over a small integer domain, size variables are bounded by that domain, and the quantifier-free query is solved.
A model of the grounded query need not be a model of the original one, so it is only ever used as a *candidate*
input: it counts as a counterexample iff the native replay reproduces the contract breach on the real code.
"""
from __future__ import annotations

import itertools

import z3


def _ground(e, pos, dom, depth=0):
    if z3.is_quantifier(e):
        expand = (e.is_forall() and pos) or (e.is_exists() and not pos)
        n = e.num_vars()
        sorts = [e.var_sort(i) for i in range(n)]
        if expand and all(s.kind() == z3.Z3_INT_SORT for s in sorts) and len(dom) ** n <= 4096:
            body = e.body()
            insts = []
            for vals in itertools.product(dom, repeat=n):
                # de Bruijn: var 0 is the LAST bound variable
                subs = [z3.IntVal(v) for v in reversed(vals)]
                inst = z3.substitute_vars(body, *subs)
                insts.append(_ground(inst, pos, dom, depth + 1))
            return z3.And(*insts) if e.is_forall() else z3.Or(*insts)
        return e
    if z3.is_app(e):
        k = e.decl().kind()
        ch = e.children()
        if k == z3.Z3_OP_AND:
            return z3.And(*[_ground(c, pos, dom, depth) for c in ch])
        if k == z3.Z3_OP_OR:
            return z3.Or(*[_ground(c, pos, dom, depth) for c in ch])
        if k == z3.Z3_OP_NOT:
            return z3.Not(_ground(ch[0], not pos, dom, depth))
        if k == z3.Z3_OP_IMPLIES:
            return z3.Implies(_ground(ch[0], not pos, dom, depth), _ground(ch[1], pos, dom, depth))
    return e


def finite_scope_model(ob, size_vars, bounds=(2, 3), timeout_ms=8000, value_lo=-2, extra=()):
    for b in bounds:
        dom = list(range(value_lo, b + 2))
        s = z3.Solver()
        s.set('timeout', timeout_ms)
        try:
            for h in ob.hyps:
                s.add(_ground(h, True, dom))
            s.add(_ground(z3.Not(ob.goal), True, dom))
        except z3.Z3Exception:
            return None, None
        for v in size_vars:
            s.add(v <= b)
        for c in extra:
            s.add(c)
        if s.check() == z3.sat:
            return s.model(), b
    return None, None

"""Symbolic value domain of pyvc.

Scalars are z3 terms or plain Python values.  Arrays are *functional* tensors: a static rank, a tuple of
(possibly symbolic) dimensions and a Python closure from index terms to element terms.
"""
from __future__ import annotations

import math
from fractions import Fraction

import numpy as np
import z3

from .core import Unsupported


# ---------------------------------------------------------------------------------------------
# scalars
# ---------------------------------------------------------------------------------------------

def is_sym(x):
    return isinstance(x, z3.ExprRef)


def is_int_like(x):
    if isinstance(x, bool):
        return False
    if isinstance(x, (int, np.integer)):
        return True
    return is_sym(x) and z3.is_int(x)


def is_real_like(x):
    if isinstance(x, (float, np.floating, Fraction)):
        return True
    return is_sym(x) and z3.is_real(x)


def is_bool_like(x):
    return isinstance(x, (bool, np.bool_)) or (is_sym(x) and z3.is_bool(x))


def pyval(x):
    """numpy scalar -> python scalar."""
    if isinstance(x, np.generic):
        return x.item()
    return x


def exact(x):
    """A-REAL: the real number denoted by a float's shortest decimal representation (0.1 -> 1/10, 1e-10 -> 10^-10)."""
    if isinstance(x, float):
        if math.isinf(x) or math.isnan(x):
            raise Unsupported(f'non-finite float constant {x}')
        return Fraction(repr(x))
    return Fraction(x)


def realval(x):
    if isinstance(x, float):
        return z3.RealVal(str(exact(x)))
    if isinstance(x, Fraction):
        return z3.RealVal(str(x))
    return z3.RealVal(x)


def to_z3(x):
    x = pyval(x)
    if is_sym(x):
        return x
    if isinstance(x, bool):
        return z3.BoolVal(x)
    if isinstance(x, int):
        return z3.IntVal(x)
    if isinstance(x, (float, Fraction)):
        return realval(x)
    raise Unsupported(f'cannot lift {type(x).__name__} to a term')


def to_real(x):
    x = pyval(x)
    if is_sym(x):
        if z3.is_int(x):
            return z3.ToReal(x)
        if z3.is_bool(x):
            return z3.If(x, z3.RealVal(1), z3.RealVal(0))
        return x
    if isinstance(x, bool):
        return z3.RealVal(1 if x else 0)
    return realval(x) if isinstance(x, (float, Fraction)) else z3.RealVal(x)


def to_int(x):
    x = pyval(x)
    if is_sym(x):
        if z3.is_bool(x):
            return z3.If(x, z3.IntVal(1), z3.IntVal(0))
        return x
    if isinstance(x, bool):
        return z3.IntVal(1 if x else 0)
    return z3.IntVal(x)


def to_bool(x):
    x = pyval(x)
    if is_sym(x):
        if z3.is_bool(x):
            return x
        if z3.is_int(x):
            return x != 0
        if z3.is_real(x):
            return x != 0
    if isinstance(x, (bool, int, float)):
        return z3.BoolVal(bool(x))
    raise Unsupported(f'truthiness of {type(x).__name__}')


def any_sym(*xs):
    return any(is_sym(x) for x in xs)


def z_and(*xs):
    xs = [x for x in xs if x is not True]
    if any(x is False for x in xs):
        return z3.BoolVal(False)
    if not xs:
        return z3.BoolVal(True)
    xs = [to_z3(x) for x in xs]
    return z3.And(*xs) if len(xs) > 1 else xs[0]


def z_or(*xs):
    xs = [x for x in xs if x is not False]
    if any(x is True for x in xs):
        return z3.BoolVal(True)
    if not xs:
        return z3.BoolVal(False)
    xs = [to_z3(x) for x in xs]
    return z3.Or(*xs) if len(xs) > 1 else xs[0]


def z_not(x):
    if isinstance(x, (bool, np.bool_)):
        return not x
    return z3.Not(x)


def z_ite(c, a, b):
    if isinstance(c, (bool, np.bool_)):
        return a if c else b
    a, b = pyval(a), pyval(b)
    if not is_sym(a) and not is_sym(b) and type(a) is type(b) and a == b:
        return a
    if is_real_like(a) or is_real_like(b):
        if not (is_bool_like(a) and is_bool_like(b)):
            return z3.If(c, to_real(a), to_real(b))
    if is_bool_like(a) and is_bool_like(b):
        return z3.If(c, to_z3(a), to_z3(b))
    return z3.If(c, to_z3(a), to_z3(b))


def binop(op, a, b):
    """Python/numpy scalar arithmetic on terms.  Integers are mathematical (A-INT), floats are reals (A-REAL)."""
    a, b = pyval(a), pyval(b)
    if not is_sym(a) and not is_sym(b):
        if op == '+':
            return a + b
        if op == '-':
            return a - b
        if op == '*':
            return a * b
        if op == '/':
            return Fraction(a) / Fraction(b) if isinstance(a, int) and isinstance(b, int) and b != 0 and not isinstance(a, bool) else a / b
        if op == '//':
            return a // b
        if op == '%':
            return a % b
        if op == '**':
            return a ** b
        raise Unsupported(f'binop {op}')
    if is_bool_like(a):
        a = to_int(a)
    if is_bool_like(b):
        b = to_int(b)
    real = is_real_like(a) or is_real_like(b)
    # trivial identities keep index terms syntactically simple (they end up inside quantifier triggers)
    if not real or (is_real_like(a) and is_real_like(b)) or isinstance(a, int) or isinstance(b, int):
        if op == '+' and not is_sym(a) and a == 0 and not (real and is_int_like(b)):
            return b
        if op in '+-' and not is_sym(b) and b == 0 and not (real and is_int_like(a)):
            return a
        if op == '*' and not is_sym(a) and a == 1 and not (real and is_int_like(b)):
            return b
        if op == '*' and not is_sym(b) and b == 1 and not (real and is_int_like(a)):
            return a
    if op in '+-*':
        if real:
            a, b = to_real(a), to_real(b)
        else:
            a, b = to_int(a), to_int(b)
        return a + b if op == '+' else a - b if op == '-' else a * b
    if op == '/':
        return to_real(a) / to_real(b)
    if op == '//':
        if real:
            return z3.ToReal(z3.ToInt(to_real(a) / to_real(b)))
        # integer floor division; z3 div is floor for positive divisor, ceil for negative
        a, b = to_int(a), to_int(b)
        if not is_sym(b) or z3.is_int_value(b):
            bv = b.as_long() if is_sym(b) else b
            if bv > 0:
                return a / b
        # z3 integer division: floor for b>0, ceiling for b<0; python: floor always
        return z3.If(b > 0, a / b, (a / b) - z3.If(a % b != 0, 1, 0))
    if op == '%':
        if real:
            a, b = to_real(a), to_real(b)
            return a - b * z3.ToReal(z3.ToInt(a / b))  # python/numpy: sign of divisor (b>0 => [0,b))
        a, b = to_int(a), to_int(b)
        if (not is_sym(b)) or z3.is_int_value(b):
            bv = b.as_long() if is_sym(b) else b
            if bv > 0:
                return a % b
        # python: result has the sign of the divisor; z3: result non-negative
        m = a % b
        return z3.If(z3.And(b < 0, m != 0), m + b, m)
    if op == '**':
        if not is_sym(b) or z3.is_int_value(b) or z3.is_rational_value(b):
            bv = pyval(b) if not is_sym(b) else (b.as_long() if z3.is_int_value(b) else None)
            if isinstance(bv, int) and 0 <= bv <= 4:
                r = to_z3(1) if not real else z3.RealVal(1)
                base = to_real(a) if real else to_int(a)
                if bv == 0:
                    return 1
                r = base
                for _ in range(bv - 1):
                    r = r * base
                return r
        raise Unsupported('symbolic exponent')
    raise Unsupported(f'binop {op}')


def cmpop(op, a, b):
    a, b = pyval(a), pyval(b)
    if a is None or b is None:
        if op in ('==', 'is'):
            return a is b
        if op in ('!=', 'is not'):
            return a is not b
    for x, y, flip in ((a, b, False), (b, a, True)):
        if isinstance(y, float) and math.isinf(y) and is_sym(x):
            # A-REAL: every term is a finite real, so it is strictly below +inf / above -inf
            pos = y > 0
            o = {'<': '>', '<=': '>=', '>': '<', '>=': '<='}.get(op, op) if flip else op
            return {'<': pos, '<=': pos, '>': not pos, '>=': not pos, '==': False, '!=': True}[o]
    if isinstance(a, str) or isinstance(b, str):
        if is_sym(a) or is_sym(b):
            raise Unsupported('string vs term comparison')
        return {'==': a == b, '!=': a != b}[op]
    if not is_sym(a) and not is_sym(b):
        return {'==': lambda: a == b, '!=': lambda: a != b, '<': lambda: a < b, '<=': lambda: a <= b,
                '>': lambda: a > b, '>=': lambda: a >= b}[op]()
    if is_bool_like(a) and is_bool_like(b):
        a, b = to_z3(a), to_z3(b)
        if op == '==':
            return a == b
        if op == '!=':
            return a != b
    if is_bool_like(a):
        a = to_int(a)
    if is_bool_like(b):
        b = to_int(b)
    if is_real_like(a) or is_real_like(b):
        a, b = to_real(a), to_real(b)
    else:
        a, b = to_int(a), to_int(b)
    return {'==': lambda: a == b, '!=': lambda: a != b, '<': lambda: a < b, '<=': lambda: a <= b,
            '>': lambda: a > b, '>=': lambda: a >= b}[op]()


def z_min(a, b):
    if not any_sym(a, b):
        return min(a, b)
    return z_ite(cmpop('<=', a, b), a, b)


def z_max(a, b):
    if not any_sym(a, b):
        return max(a, b)
    return z_ite(cmpop('>=', a, b), a, b)


def z_abs(a):
    if not is_sym(a):
        return abs(a)
    return z3.If(a >= 0, a, -a)


# ---------------------------------------------------------------------------------------------
# tensors
# ---------------------------------------------------------------------------------------------

class STensor:
    """Functional array.  `fn(*idx)` gives the element at a (non-negative, in-range) index."""

    def __init__(self, shape, fn, dtype='int', name=None, view_of=None):
        self.shape = tuple(pyval(s) for s in shape)
        self.fn = fn
        self.dtype = dtype
        self.name = name
        self.view_of = view_of  # base tensor when this is a numpy view (late-bound reads; stores unsupported)

    @property
    def ndim(self):
        return len(self.shape)

    def at(self, *idx):
        return self.fn(*idx)

    def __repr__(self):
        return f'STensor{self.shape}:{self.dtype}' + (f'<{self.name}>' if self.name else '')

    def map(self, f, dtype=None):
        fn = self.fn
        return STensor(self.shape, lambda *i: f(fn(*i)), dtype or self.dtype)

    @staticmethod
    def from_numpy(a):
        a = np.asarray(a)
        if a.dtype.kind in 'iu':
            dt = 'int'
        elif a.dtype.kind == 'f':
            dt = 'real'
        elif a.dtype.kind == 'b':
            dt = 'bool'
        else:
            raise Unsupported(f'ndarray of dtype {a.dtype}')
        flat_shape = a.shape

        def fn(*idx):
            if all(not is_sym(i) for i in idx):
                return pyval(a[tuple(int(i) for i in idx)])
            # symbolic lookup in a concrete table: nested If
            return _table_lookup(a, idx, dt)
        return STensor(flat_shape, fn, dt)


def _table_lookup(a, idx, dt):
    a = np.asarray(a)
    if a.size > 4096:
        raise Unsupported('symbolic index into a large concrete table')

    def rec(arr, k):
        if k == len(idx):
            return pyval(arr[()]) if arr.ndim == 0 else pyval(arr)
        i = idx[k]
        if not is_sym(i):
            return rec(arr[int(i)], k + 1)
        vals = [rec(arr[j], k + 1) for j in range(arr.shape[0])]
        out = vals[-1]
        for j in range(arr.shape[0] - 2, -1, -1):
            out = z_ite(i == j, vals[j], out)
        return out
    return rec(a, 0)


def dtype_join(*dts):
    if 'real' in dts:
        return 'real'
    if 'int' in dts:
        return 'int'
    if 'obj' in dts:
        return 'obj'
    return 'bool'


def scalar_dtype(x):
    x = pyval(x)
    if is_bool_like(x):
        return 'bool'
    if is_int_like(x):
        return 'int'
    if is_real_like(x):
        return 'real'
    return 'obj'


def dim_eq(a, b):
    """Static equality of two dims when decidable, else None."""
    if not is_sym(a) and not is_sym(b):
        return a == b
    d = z3.simplify(to_z3(a) - to_z3(b))
    if z3.is_int_value(d):
        return d.as_long() == 0
    if z3.eq(to_z3(a), to_z3(b)):
        return True
    return None


def broadcast_shapes(ctx, shapes, line=None):
    """numpy broadcasting.  A symbolic dim is assumed != 1 unless it is the literal 1; equality of two symbolic dims
    becomes an obligation."""
    rank = max(len(s) for s in shapes)
    out = []
    for k in range(rank):
        dims = []
        for s in shapes:
            j = k - (rank - len(s))
            if j >= 0:
                dims.append(s[j])
        pick = None
        for d in dims:
            if not is_sym(d) and d == 1:
                continue
            if pick is None:
                pick = d
            else:
                e = dim_eq(pick, d)
                if e is False:
                    if ctx is not None:
                        ctx.oblige('broadcast', False, kind='shape', line=line)
                elif e is None and ctx is not None:
                    ctx.oblige('broadcast', to_z3(pick) == to_z3(d), kind='shape', line=line)
        out.append(pick if pick is not None else 1)
    return tuple(out)


def broadcast_index(shape, out_rank, idx):
    """Index into an operand of `shape` given the index tuple of the broadcast result."""
    off = out_rank - len(shape)
    res = []
    for j, d in enumerate(shape):
        if not is_sym(d) and d == 1:
            res.append(0)
        else:
            res.append(idx[j + off])
    return tuple(res)


def as_tensor(x):
    if isinstance(x, STensor):
        return x
    if isinstance(x, np.ndarray):
        return STensor.from_numpy(x)
    if isinstance(x, (list, tuple)):
        return tensor_from_nested(x)
    x = pyval(x)
    return STensor((), lambda: x, scalar_dtype(x))


def tensor_from_nested(x):
    """np.array of a (nested) list whose leaves are scalars or tensors of equal static rank."""
    if not isinstance(x, (list, tuple)):
        return as_tensor(x)
    if len(x) == 0:
        return STensor((0,), lambda i: 0, 'real')
    subs = [tensor_from_nested(e) for e in x]
    r = subs[0].ndim
    if any(s.ndim != r for s in subs):
        raise Unsupported('ragged nested list to array')
    shape = (len(subs),) + subs[0].shape
    dt = dtype_join(*[s.dtype for s in subs])

    def fn(i, *rest):
        if not is_sym(i):
            return subs[int(i)].at(*rest)
        out = subs[-1].at(*rest)
        for j in range(len(subs) - 2, -1, -1):
            out = z_ite(i == j, subs[j].at(*rest), out)
        return out
    return STensor(shape, fn, dt)


def elementwise(ctx, f, *operands, dtype=None, line=None):
    ts = [as_tensor(o) for o in operands]
    if all(t.ndim == 0 for t in ts):
        return f(*[t.at() for t in ts])
    shape = broadcast_shapes(ctx, [t.shape for t in ts], line=line)
    rank = len(shape)
    dt = dtype or dtype_join(*[t.dtype for t in ts])

    fns = [t.fn for t in ts]  # snapshot: the result is a fresh array, later stores into operands do not reach it
    shapes = [t.shape for t in ts]

    def fn(*idx):
        return f(*[g(*broadcast_index(sh, rank, idx)) for g, sh in zip(fns, shapes)])
    return STensor(shape, fn, dt)


class SIdx(STensor):
    """Strictly increasing integer vector = the members of a predicate over [0, n), in order.

    facts (assumed when created, as the contract of np.nonzero / 1-D np.unique):
      pos(k) in [0,n) and member(pos(k)) for 0<=k<L; pos strictly increasing; every member x has a rank with
      pos(rank(x)) = x; 0 <= L <= n.
    """

    def __init__(self, ctx, n, member, base='idx', lo=0):
        self.n = n
        self.lo = lo
        self.member = member
        self.L = ctx.fresh_int(base + '_len')
        self.pos = ctx.fresh_fun(base + '_pos', z3.IntSort(), z3.IntSort())
        self.rank = ctx.fresh_fun(base + '_rank', z3.IntSort(), z3.IntSort())
        L, pos, rank = self.L, self.pos, self.rank
        k = z3.Int(ctx.name('k'))
        j = z3.Int(ctx.name('j'))
        x = z3.Int(ctx.name('x'))
        nn = to_z3(n)
        lo_ = to_z3(lo)
        ctx.assume(z3.And(L >= 0, L <= nn - lo_ if True else True))
        ctx.assume(z3.ForAll([k], z3.Implies(z3.And(0 <= k, k < L),
                                             z3.And(pos(k) >= lo_, pos(k) < nn, to_z3(member(pos(k))), rank(pos(k)) == k)),
                             patterns=[pos(k)]))
        ctx.assume(z3.ForAll([j, k], z3.Implies(z3.And(0 <= j, j < k, k < L), pos(j) < pos(k)),
                             patterns=[z3.MultiPattern(pos(j), pos(k))]))
        # trigger: rank(x) only.  Triggers on the member predicate's own atoms loop when the predicate mentions x+1 (np.roll);
        # instead the fact is registered for goal-directed instantiation at the Skolem terms of each obligation.
        def f3(xx):
            return z3.Implies(z3.And(lo_ <= xx, xx < nn, to_z3(member(xx))),
                              z3.And(0 <= rank(xx), rank(xx) < L, pos(rank(xx)) == xx, pos(0) <= xx, xx <= pos(L - 1)))
        ctx.assume(z3.ForAll([x], f3(x), patterns=[rank(x)]))
        ctx.inst_axioms.append((1, f3))
        ctx.inst_terms.append(lambda c: pos(c))
        # existence of a member => L >= 1 (instantiated through rank)
        super().__init__((L,), lambda k_: pos(k_), 'int', name=base)

    def is_member(self, x):
        return z_and(cmpop('>=', x, self.lo), cmpop('<', x, self.n), self.member(x))


def _pure_term(e, var):
    if z3.eq(e, var):
        return True, True
    if z3.is_int_value(e) or z3.is_rational_value(e):
        return True, False
    if z3.is_app(e) and e.decl().kind() == z3.Z3_OP_UNINTERPRETED:
        has = False
        for c in e.children():
            ok, h = _pure_term(c, var)
            if not ok:
                return False, False
            has = has or h
        return True, has
    return False, False


def member_triggers(expr, var, limit=4):
    """Maximal sub-terms of `expr` built from uninterpreted symbols / numerals only that mention `var` (usable triggers)."""
    out = []

    def walk(e):
        if len(out) >= limit:
            return
        if z3.is_app(e) and e.decl().kind() == z3.Z3_OP_UNINTERPRETED and e.num_args() > 0:
            ok, has = _pure_term(e, var)
            if ok and has:
                if not any(z3.eq(e, o) for o in out):
                    out.append(e)
                return
        if z3.is_app(e):
            for c in e.children():
                walk(c)
    walk(expr)
    return out


def sidx_drop_last(ctx, s):
    """s[:-1] of a non-empty strictly increasing index vector: the same set without its maximum."""
    last = s.pos(s.L - 1)
    m = s.member
    return SIdx(ctx, s.n, lambda x: z_and(m(x), cmpop('!=', x, last)), base=(s.name or 'idx') + '_init', lo=s.lo)


def sidx_union(ctx, parts):
    n = parts[0].n
    lo = parts[0].lo
    for p in parts[1:]:
        n = z_max(n, p.n)
        lo = z_min(lo, p.lo)
    ms = [(p.member, p.lo, p.n) for p in parts]
    return SIdx(ctx, n, lambda x: z_or(*[z_and(cmpop('>=', x, l), cmpop('<', x, h), m(x)) for m, l, h in ms]), base='union', lo=lo)


def merge_tensor(c, a, b):
    """If(c, a, b) for two tensors of equal rank."""
    if a.ndim != b.ndim:
        raise Unsupported('merge of tensors of different rank')
    shape = tuple(z_ite(c, x, y) for x, y in zip(a.shape, b.shape))
    af, bf = a.fn, b.fn
    return STensor(shape, lambda *i: z_ite(c, af(*i), bf(*i)), dtype_join(a.dtype, b.dtype))


class SFrame:
    """Ordered table: named rank-1 columns of equal length."""

    def __init__(self, columns, nrows, index_token=None):
        self.columns = dict(columns)
        self.nrows = nrows
        # identity of the row index (pandas aligns Series / frames on index LABELS, not on positions): frames that share the token have the same
        # index; 'range' = RangeIndex(0..n-1) as produced by reset_index(drop=True) / ignore_index=True; a fresh object = some index of its own
        self.index_token = index_token if index_token is not None else object()

    def copy(self):
        return SFrame(self.columns, self.nrows, self.index_token)

    def __repr__(self):
        return f'SFrame[{self.nrows}]({list(self.columns)})'


class SRow:
    """A row *copy* (pandas Series yielded by iterrows, CoW semantics: writes do not reach the frame)."""

    def __init__(self, fields, label=None):
        self.fields = dict(fields)
        self.label = label

    def copy(self):
        return SRow(self.fields, self.label)

    def __repr__(self):
        return f'SRow({self.fields})'


class SObj:
    """Attribute bag with class name; records attribute writes (frame conditions)."""

    def __init__(self, cls, **fields):
        object.__setattr__(self, '_cls', cls)
        object.__setattr__(self, '_fields', dict(fields))
        object.__setattr__(self, '_writes', [])

    def get(self, name):
        return self._fields[name]

    def has(self, name):
        return name in self._fields

    def set(self, name, value):
        self._fields[name] = value
        self._writes.append(name)

    def __repr__(self):
        return f'SObj<{self._cls}>({list(self._fields)})'


class SOpt:
    """Optional value: symbolic is_none flag + payload (used for loop-carried Optional rows)."""

    def __init__(self, is_none, payload):
        self.is_none = is_none
        self.payload = payload


class SSeq:
    """Ghost sequence with symbolic length (a Python list grown inside a symbolic loop)."""

    def __init__(self, length, fn, name=None):
        self.length = length
        self.fn = fn
        self.name = name

    def append(self, item):
        L, old = self.length, self.fn
        if isinstance(item, SOpt):
            item = item.payload  # appended on a path where the optional was tested to be present
        if isinstance(item, STensor):
            def fn(j):
                if not is_sym(j) and not is_sym(L):
                    return item if j == L else old(j)
                o = old(j)
                return merge_tensor(cmpop('==', j, L), item, o) if isinstance(o, STensor) else item
        else:
            def fn(j):
                if not is_sym(j) and not is_sym(L):
                    return item if j == L else old(j)
                c = z3.simplify(to_z3(cmpop('==', j, L)))
                if z3.is_true(c):
                    return item
                if z3.is_false(c):
                    return old(j)
                o = old(j)
                if isinstance(item, SRow) and isinstance(o, SRow) and set(item.fields) == set(o.fields):
                    return SRow({f: z_ite(cmpop('==', j, L), item.fields[f], o.fields[f]) for f in item.fields})
                if isinstance(item, (SObj, SFrame, SRow)):
                    raise Unsupported('symbolic choice between two objects of a list')
                if isinstance(item, tuple):
                    return tuple(z_ite(cmpop('==', j, L), x, y) for x, y in zip(item, o))
                return z_ite(cmpop('==', j, L), item, o)
        self.fn = fn
        self.length = binop('+', L, 1)

    def extend(self, other):
        """list.extend with another (possibly symbolic-length) sequence: elements of `other` follow, in order."""
        L, old = self.length, self.fn
        if isinstance(other, (list, tuple)):
            for x in other:
                self.append(x)
            return
        of, m = other.fn, other.length

        def fn(j):
            a, b = old(j), of(binop('-', j, L))
            if isinstance(a, (SObj, SFrame, SRow, STensor)) or isinstance(b, (SObj, SFrame, SRow, STensor)):
                raise Unsupported('symbolic choice between two objects of a list')
            return z_ite(cmpop('<', j, L), a, b)
        self.fn = fn
        self.length = binop('+', L, m)

    def __repr__(self):
        return f'SSeq[{self.length}]'

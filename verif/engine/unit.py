"""Proof units: one real function (or lemma group) + sidecar contract -> obligations -> verdicts."""
from __future__ import annotations

import importlib
import time
import traceback

import numpy as np
import z3

from . import values as V
from .core import Ctx, Infeasible, Obligation, Unsupported, check_sat, discharge, explore
from .interp import (ALIASES, BoundLib, ClassRef, Closure, FuncRef, Interp, LibRef, LoopSpec, PathDone, SymIter, _Raise,
                     is_concrete)
from .npmodel import NP, _BuiltinLike
from .pdmodel import PD
from .source import ModuleRef, SourceTree
from .values import (SFrame, SIdx, SObj, SOpt, SRow, SSeq, STensor, any_sym, as_tensor, binop, cmpop, is_sym, pyval,
                     to_z3, z_and, z_ite, z_not, z_or)

EXC_PARENTS = {
    'ValueError': ['Exception'], 'IndexError': ['LookupError', 'Exception'], 'KeyError': ['LookupError', 'Exception'],
    'AttributeError': ['Exception'], 'TypeError': ['Exception'], 'ZeroDivisionError': ['ArithmeticError', 'Exception'],
    'AssertionError': ['Exception'], 'NotImplementedError': ['RuntimeError', 'Exception'], 'IOError': ['OSError', 'Exception'],
    'OSError': ['Exception'], 'nx.NetworkXNoPath': ['Exception'], 'NetworkXNoPath': ['Exception'],
    'UnpicklingError': ['Exception'], 'EOFError': ['Exception'], 'Exception': [],
}


class Unit:
    def __init__(self, name, sources=None):
        self.name = name
        self.sources = sources or SourceTree()
        self.contracts = {}
        self.loops = {}
        self.lib = {}  # dotted -> callable(interp, line, *args, **kwargs)
        self.bound = {}  # 'tensor.foo' style overrides
        self.np = NP(self)
        self.pd = PD(self)
        self.constructors = {}
        self.obj_attrs = {}
        self.results = []
        self.functions_used = {}
        self.notes = []

    # ------------------------------------------------------------------------------------------
    # default hooks (override per unit by assigning attributes)
    # ------------------------------------------------------------------------------------------
    def exception_matches(self, exc_type, names):
        if exc_type is None:
            return False
        short = exc_type.split('.')[-1]
        for n in names:
            ns = n.split('.')[-1]
            if ns == short or ns in [p.split('.')[-1] for p in EXC_PARENTS.get(short, ['Exception'])]:
                return True
        return False

    def store_hook(self, interp, base, idx, val, line):
        return NotImplemented

    def call_hook(self, interp, f, args, kwargs, line):
        return NotImplemented

    def binary_hook(self, interp, op, a, b, line):
        return NotImplemented

    def compare_hook(self, interp, op, a, b, line):
        return NotImplemented

    def contains_hook(self, interp, container, item, line):
        return NotImplemented

    def truth_hook(self, interp, v):
        return NotImplemented

    def generic_attr(self, interp, base, attr, line):
        if isinstance(base, ModuleRef):
            fi = self.sources.function(base.module, attr)
            if fi is not None:
                return FuncRef(base.module, attr)
        if isinstance(base, _BuiltinLike):
            return NotImplemented
        return NotImplemented

    def obj_attr(self, interp, obj, attr, line):
        """Attribute of an SObj that is not a stored field: property / method of the real class (inlined)."""
        if obj._cls == 'SuperProxy':
            target = obj.get('obj')
            module, cls = obj.get('after')
            chain = self.class_chain(target._cls)
            names = [(m, c) for m, c in chain]
            # skip up to and including the class whose method is executing
            start = 0
            for k, (m, c) in enumerate(names):
                if m == module and c == cls:
                    start = k + 1
                    break
            for m, c in names[start:]:
                fi = self.sources.function(m, f'{c}.{attr}')
                if fi is not None:
                    return FuncRef(m, f'{c}.{attr}', bound_self=target)
            raise Unsupported(f'super().{attr} not found', line)
        h = self.obj_attrs.get((obj._cls, attr))
        if h is not None:
            return h(interp, obj, line)
        if obj._cls == 'SymDict' and attr == 'get':
            from .interp import PyFn
            return PyFn(lambda ii, ll, key, default=None: self.sym_dict_get(ii, obj, key, default, ll))
        cls = obj._cls
        for module, cname in self.class_chain(cls):
            fi = self.sources.function(module, f'{cname}.{attr}')
            if fi is not None:
                if fi.is_property:
                    return interp.call_qual(module, f'{cname}.{attr}', [], {}, bound_self=obj)
                return FuncRef(module, f'{cname}.{attr}', bound_self=None if fi.is_staticmethod else obj)
        raise Unsupported(f'attribute {attr} of {cls}', line)

    def sym_dict(self, interp, it, line):
        """dict(<symbolic-length iterable of (key, value) pairs>) with integer keys and numeric values: lookup functions G (value) and J (index
        of the pair that supplies it, -1 = key absent), defined for every integer key x by
            J(x) = -1  and no pair has key x,   or   0 <= J(x) < L, key(J(x)) = x and no later pair has key x (G(x) = value(J(x)))."""
        ctx = interp.ctx
        L = to_z3(it.length)
        probe = it.item(z3.Int('symdict!probe'))
        if not (isinstance(probe, tuple) and len(probe) == 2):
            raise Unsupported('dict of an iterable that does not yield pairs', line)
        real = z3.is_real(to_z3(probe[1]))
        J = ctx.fresh_fun('dict_idx', z3.IntSort(), z3.IntSort())
        x, k = z3.Int(ctx.name('x')), z3.Int(ctx.name('k'))
        keyf = lambda q: to_z3(it.item(q)[0])  # noqa: E731
        ctx.assume(z3.ForAll([x], z3.And(J(x) >= -1, J(x) < L, z3.Implies(J(x) >= 0, keyf(J(x)) == x)), patterns=[J(x)]))
        body = z3.Implies(z3.And(k > J(x), k < L, k >= 0), keyf(k) != x)
        if '(ite ' in keyf(k).sexpr():
            later = z3.ForAll([x, k], body)  # the key expression is not a legal trigger (contains an if-then-else): let the solver choose
        else:
            later = z3.ForAll([x, k], body, patterns=[z3.MultiPattern(J(x), keyf(k))])
        ctx.assume(later)
        ctx.use('python dict built from (key, value) pairs: lookup returns the value of the last pair with that key; absent iff no pair has the key')
        obj = SObj('SymDict', _J=J, _it=it, _real=real)
        return obj

    def sym_dict_get(self, interp, d, key, default, line, must_exist=False):
        ctx = interp.ctx
        J, it = d.get('_J'), d.get('_it')
        kz = to_z3(key)
        if not z3.is_int(kz):
            raise Unsupported('non-integer key into a symbolic dict', line)
        if must_exist:
            ctx.oblige(f'{interp.cur_func}.key-present@{line}', J(kz) >= 0, kind='pre', line=line)
            return it.item(J(kz))[1]
        from .values import z_ite
        return z_ite(J(kz) >= 0, it.item(J(kz))[1], default)

    def obj_has_attr(self, interp, obj, attr):
        for module, cname in self.class_chain(obj._cls):
            if self.sources.function(module, f'{cname}.{attr}') is not None:
                return True
        return False

    CLASS_HOME = {
        'Trajectory': 'gemdat.trajectory', 'Transitions': 'gemdat.transitions', 'Jumps': 'gemdat.jumps',
        'Volume': 'gemdat.volume', 'FreeEnergyVolume': 'gemdat.volume', 'Pathway': 'gemdat.path',
        'Collective': 'gemdat.collective', 'TrajectoryMetrics': 'gemdat.metrics', 'TrajectoryMetricsStd': 'gemdat.metrics',
        'ShapeAnalyzer': 'gemdat.shape', 'ShapeData': 'gemdat.shape', 'Orientations': 'gemdat.orientations',
        'PymatgenTrajectory': 'pymatgen.core.trajectory',
    }

    def class_chain(self, cls):
        out = []
        seen = set()
        todo = [cls]
        while todo:
            c = todo.pop(0)
            if c in seen:
                continue
            seen.add(c)
            module = self.CLASS_HOME.get(c)
            if module is None:
                continue
            cname = 'Trajectory' if c == 'PymatgenTrajectory' else c
            out.append((module, cname))
            for b in self.sources.class_bases(module, cname):
                todo.append(b)
        return out

    def subscript_hook(self, interp, base, idx, line):
        if isinstance(base, SObj):
            for module, cname in self.class_chain(base._cls):
                if self.sources.function(module, f'{cname}.__getitem__') is not None:
                    return interp.call_qual(module, f'{cname}.__getitem__', [idx], {}, bound_self=base)
        return NotImplemented

    def list_index_hook(self, interp, base, j, line):
        return NotImplemented

    def dict_index_hook(self, interp, base, idx, line, default=NotImplemented):
        return NotImplemented

    def seq_index(self, interp, seq, idx, line):
        idx = pyval(idx)
        if isinstance(idx, slice):
            raise Unsupported('slice of symbolic list')
        n = seq.length
        ok = z_and(cmpop('>=', idx, binop('-', 0, n)), cmpop('<', idx, n))
        interp.ctx.oblige(f'{interp.cur_func}.index@{line}', to_z3(ok), kind='index', line=line)
        interp.ctx.assume(to_z3(ok))
        j = z_ite(cmpop('<', idx, 0), binop('+', idx, n), idx)
        return seq.fn(j)

    def iterate_hook(self, interp, v, line):
        return NotImplemented

    def len_hook(self, interp, v, line):
        if isinstance(v, SObj) and v.has('_n'):
            return v.get('_n')
        if isinstance(v, SObj) and v.has('coords') and isinstance(v.get('coords'), STensor):
            return v.get('coords').shape[0]  # pymatgen Trajectory.__len__ = number of frames
        return NotImplemented

    def set_hook(self, interp, v, line):
        return NotImplemented

    def filter_comprehension(self, interp, node, g, it, env):
        return NotImplemented

    def vstack_seq(self, interp, seq, line):
        """np.vstack of a list of 2-D blocks with a symbolic number of blocks: an order-preserving bijection between
        table rows and (block, row-in-block) pairs (assumed numpy contract); an empty list raises ValueError."""
        ctx = interp.ctx
        Lb = to_z3(seq.length)
        ok = Lb >= 1
        ctx.oblige(f'{interp.cur_func}.vstack-nonempty@{line}', ok, kind='raises', line=line)
        ctx.assume(ok)
        probe = seq.fn(z3.Int(ctx.name('probe')))
        if not isinstance(probe, STensor) or probe.ndim != 2 or is_sym(probe.shape[1]):
            raise Unsupported('vstack of a symbolic list of non-2-D blocks')
        ncols = probe.shape[1]
        R = ctx.fresh_int('vs_rows')
        blk = ctx.fresh_fun('vs_blk', z3.IntSort(), z3.IntSort())
        row = ctx.fresh_fun('vs_row', z3.IntSort(), z3.IntSort())
        flat = ctx.fresh_fun('vs_flat', z3.IntSort(), z3.IntSort(), z3.IntSort())
        r, r2, j, q = z3.Int(ctx.name('r')), z3.Int(ctx.name('r')), z3.Int(ctx.name('j')), z3.Int(ctx.name('q'))
        nrows = lambda jj: to_z3(seq.fn(jj).shape[0])  # noqa: E731
        ctx.assume(R >= 0)
        ctx.assume(z3.ForAll([r], z3.Implies(z3.And(r >= 0, r < R),
                                             z3.And(blk(r) >= 0, blk(r) < Lb, row(r) >= 0, row(r) < nrows(blk(r)), flat(blk(r), row(r)) == r)),
                             patterns=[blk(r), row(r)]))
        cell_pats = []
        for c in range(ncols):
            e = to_z3(seq.fn(j).at(q, c))
            if z3.is_app(e) and e.decl().kind() == z3.Z3_OP_UNINTERPRETED and _pure(e, j) == (True, True) and _pure(e, q) == (True, True):
                cell_pats.append(e)
        ctx.assume(z3.ForAll([j, q], z3.Implies(z3.And(j >= 0, j < Lb, q >= 0, q < nrows(j)),
                                                z3.And(flat(j, q) >= 0, flat(j, q) < R, blk(flat(j, q)) == j, row(flat(j, q)) == q)),
                             patterns=[flat(j, q)] + cell_pats[:2]))
        ctx.assume(z3.ForAll([r, r2], z3.Implies(z3.And(r >= 0, r < r2, r2 < R),
                                                 z3.Or(blk(r) < blk(r2), z3.And(blk(r) == blk(r2), row(r) < row(r2)))),
                             patterns=[z3.MultiPattern(blk(r), blk(r2))]))
        ctx.use('numpy.vstack(list of blocks): rows of the result are the block rows, in block order then row order')
        out = STensor((R, ncols), lambda a, b: seq.fn(blk(to_z3(a))).at(row(to_z3(a)), b), probe.dtype)
        out.vstack = {'blk': blk, 'row': row, 'flat': flat, 'R': R}
        return out

    def arange_hook(self, interp, args, line):
        """np.arange(start, stop, step) with real arguments: n = ceil((stop-start)/step) values start + k*step (A-REAL)."""
        start, stop, step = [V.to_real(x) for x in args]
        ctx = interp.ctx
        ok = step > 0
        ctx.oblige(f'{interp.cur_func}.arange-step-positive@{line}', ok, kind='pre-call', line=line)
        ctx.assume(ok)
        n = ctx.fresh_int('arange_n')
        q = (stop - start) / step
        ctx.assume(z3.And(n >= 0, z3.Implies(q > 0, z3.And(z3.ToReal(n) >= q, z3.ToReal(n) < q + 1)), z3.Implies(q <= 0, n == 0)),
                   tag='numpy.arange(a,b,s): ceil((b-a)/s) values a + k s (real arithmetic)')
        return STensor((n,), lambda k: start + V.to_real(k) * step, 'real')

    def super_hook(self, interp, line):
        """super() inside a method of a gemdat class: proxy that resolves attributes in the base classes."""
        cur = interp.cur_func or ''
        parts = cur.split('.')
        if len(parts) < 3:
            raise Unsupported('super() outside a method')
        cls = parts[-2]
        module = '.'.join(parts[:-2])
        self_obj = interp.cur_self
        if self_obj is None:
            raise Unsupported('super() without self')
        return SObj('SuperProxy', obj=self_obj, after=(module, cls))

    def isinstance(self, interp, v, cls, line):
        names = cls if isinstance(cls, tuple) else (cls,)
        for c in names:
            cn = c.name if isinstance(c, (ClassRef,)) else (c.dotted.split('.')[-1] if isinstance(c, LibRef) else getattr(c, 'name', None))
            if cn == 'str' and isinstance(v, str):
                return True
            if cn == 'slice' and isinstance(v, slice):
                return True
            if cn == 'ndarray' and isinstance(v, (STensor, np.ndarray)):
                return True
            if cn == 'int' and isinstance(v, bool):
                return False
            if cn == 'float' and (isinstance(v, float) or (is_sym(v) and z3.is_real(v))):
                return True
            if cn == 'int' and V.is_int_like(v):
                return True
            if cn in ('dict',) and isinstance(v, dict):
                return True
            if cn in ('list',) and isinstance(v, list):
                return True
            if cn in ('tuple',) and isinstance(v, tuple):
                return True
            if isinstance(v, SObj):
                chain = [c2 for _, c2 in self.class_chain(v._cls)] + [v._cls]
                tags = getattr(v, '_fields', {}).get('__isa__', ())
                if cn in chain or cn in tags:
                    return True
        return False

    def construct(self, interp, cref, args, kwargs, line):
        h = self.constructors.get(cref.name)
        if h is not None:
            return h(interp, args, kwargs, line)
        obj = SObj(cref.name)
        fi = None
        for module, cname in self.class_chain(cref.name):
            fi = self.sources.function(module, f'{cname}.__init__')
            if fi is not None:
                interp.call_qual(module, f'{cname}.__init__', args, kwargs, bound_self=obj)
                break
        else:
            # dataclass-like: positional/keyword fields in declaration order, class-level defaults
            import ast as _ast
            fields = []
            for module, cname in self.class_chain(cref.name):
                info = self.sources.load(module)
                cnode = info['classes'].get(cname) if info else None
                if cnode is not None:
                    for m in cnode.body:
                        if isinstance(m, _ast.AnnAssign) and isinstance(m.target, _ast.Name):
                            fields.append((m.target.id, m.value, module))
                    break
            for (fname, default, module), v in zip(fields, args):
                obj.set(fname, v)
            for k, v in kwargs.items():
                obj.set(k, v)
            for fname, default, module in fields:
                if not obj.has(fname) and default is not None and not (isinstance(default, _ast.Call) and _ast.unparse(default.func) == 'field'):
                    obj.set(fname, interp.eval(default, self.sources.module_env(module, interp)))
            for module, cname in self.class_chain(cref.name):
                if self.sources.function(module, f'{cname}.__post_init__') is not None:
                    interp.call_qual(module, f'{cname}.__post_init__', [], {}, bound_self=obj)
                    break
        return obj

    # ------------------------------------------------------------------------------------------
    # library dispatch
    # ------------------------------------------------------------------------------------------
    def canon(self, dotted):
        head, _, rest = dotted.partition('.')
        head = ALIASES.get(head, head)
        return head + ('.' + rest if rest else '')

    def call_lib(self, interp, dotted, args, kwargs, line):
        name = self.canon(dotted)
        h = self.lib.get(name)
        if h is not None:
            return h(interp, line, *args, **kwargs)
        if name.startswith('numpy.'):
            r = self.np.call(interp, name, args, kwargs, line)
            if r is not NotImplemented:
                return r
        if name.startswith('pandas.'):
            r = self.pd.call(interp, name, args, kwargs, line)
            if r is not NotImplemented:
                return r
        if name == 'itertools.pairwise':
            a0 = args[0]
            if isinstance(a0, STensor):
                n = a0.shape[0]
                return SymIter(binop('-', n, 1) if is_sym(n) else max(n - 1, 0),
                               lambda k: (a0.at(k), a0.at(binop('+', k, 1)))) if is_sym(n) else \
                    [(a0.at(k), a0.at(k + 1)) for k in range(max(n - 1, 0))]
            it = interp.iterate(a0, line)
            if isinstance(it, SymIter):
                return SymIter(z_ite(cmpop('>', it.length, 0), binop('-', it.length, 1), 0),
                               lambda k: (it.item(k), it.item(binop('+', k, 1))))
            return list(zip(it[:-1], it[1:]))
        if name in ('warnings.warn', 'rich.progress.track'):
            return args[0] if name.endswith('track') else None
        if name == 'math.ceil' and not is_concrete(args):
            x = V.to_real(args[0])
            return -z3.ToInt(-x)
        if is_concrete(args) and is_concrete(kwargs):
            try:
                obj = self.real_object(name)
            except Exception:
                obj = None
            if obj is not None and callable(obj):
                return obj(*args, **kwargs)
        raise Unsupported(f'library call {name}', line)

    def real_object(self, name):
        parts = name.split('.')
        for k in range(len(parts), 0, -1):
            try:
                mod = importlib.import_module('.'.join(parts[:k]))
            except ImportError:
                continue
            obj = mod
            for p in parts[k:]:
                obj = getattr(obj, p)
            return obj
        return None

    def call_bound(self, interp, name, base, args, kwargs, line):
        h = self.bound.get(name)
        if h is not None:
            return h(interp, line, base, *args, **kwargs)
        kind, _, meth = name.partition('.')
        if kind == 'tensor':
            return self.np.method(interp, base, meth, args, kwargs, line)
        if kind == 'frame':
            return self.pd.frame_method(interp, base, meth, args, kwargs, line)
        if kind == 'row':
            return self.pd.row_method(interp, base, meth, args, kwargs, line)
        if kind == 'scalar':
            if meth == 'astype':
                return interp.call_builtin('int' if (args and getattr(args[0], 'kind', None) == 'int') else 'float', [base], {}, line)
        if kind == 'seq':
            if meth == 'append':
                base.append(args[0])
                return None
            if meth == 'extend':
                base.extend(args[0])
                return None
        raise Unsupported(f'bound method {name}', line)

    # ------------------------------------------------------------------------------------------
    # mathematics: uninterpreted transcendental functions with the axioms a property needs
    # ------------------------------------------------------------------------------------------
    _sqrt = z3.Function('sqrt', z3.RealSort(), z3.RealSort())
    _ln = z3.Function('ln', z3.RealSort(), z3.RealSort())
    _exp = z3.Function('exp', z3.RealSort(), z3.RealSort())

    _pi = z3.Real('pi')

    def pi(self, ctx):
        ctx.assume(z3.And(self._pi > z3.RealVal('3.14159'), self._pi < z3.RealVal('3.1416')), tag='pi: symbolic constant in (3.14159, 3.1416)')
        return self._pi

    def sqrt(self, ctx, x):
        x = V.to_real(x)
        s = self._sqrt(x)
        if not ctx.ghost.get('sqrt_axiom'):
            ctx.ghost['sqrt_axiom'] = True
            q = z3.Real('sqrt_arg')
            ctx.assume(z3.ForAll([q], z3.Implies(q >= 0, z3.And(self._sqrt(q) >= 0, self._sqrt(q) * self._sqrt(q) == q)), patterns=[self._sqrt(q)]),
                       tag='sqrt(x)>=0 and sqrt(x)^2=x for x>=0')
        return s

    def log(self, ctx, x):
        x = V.to_real(x)
        ctx.use('ln: uninterpreted, strictly increasing on x>0, ln(1)=0, exp(ln x)=x')
        if not ctx.ghost.get('ln_axioms'):
            ctx.ghost['ln_axioms'] = True
            a, b = z3.Reals('ln_a ln_b')
            ctx.assume(z3.ForAll([a, b], z3.Implies(z3.And(a > 0, a < b), self._ln(a) < self._ln(b)),
                                 patterns=[z3.MultiPattern(self._ln(a), self._ln(b))]))
            ctx.assume(self._ln(z3.RealVal(1)) == 0)
            ctx.assume(z3.ForAll([a], z3.Implies(a > 0, self._exp(self._ln(a)) == a), patterns=[self._ln(a)]))
        return self._ln(x)

    def exp(self, ctx, x):
        x = V.to_real(x)
        ctx.use('exp: uninterpreted, positive, strictly increasing')
        if not ctx.ghost.get('exp_axioms'):
            ctx.ghost['exp_axioms'] = True
            a, b = z3.Reals('exp_a exp_b')
            ctx.assume(z3.ForAll([a, b], z3.Implies(a < b, self._exp(a) < self._exp(b)),
                                 patterns=[z3.MultiPattern(self._exp(a), self._exp(b))]))
            ctx.assume(z3.ForAll([a], self._exp(a) > 0, patterns=[self._exp(a)]))
        return self._exp(x)

    # ------------------------------------------------------------------------------------------
    # reductions (assumed numpy contracts phrased with spec functions)
    # ------------------------------------------------------------------------------------------
    def _axes(self, t, axis):
        if axis is None:
            return list(range(t.ndim))
        if isinstance(axis, (tuple, list)):
            return [a % t.ndim for a in axis]
        return [axis % t.ndim]

    def reduce_minmax(self, interp, t, which, axis, line):
        ctx = interp.ctx
        axes = self._axes(t, axis)
        keep = [a for a in range(t.ndim) if a not in axes]
        sort = z3.RealSort() if t.dtype == 'real' else z3.IntSort()
        m = ctx.fresh_fun(f'{which}_', *([z3.IntSort()] * len(keep) + [sort])) if keep else None
        wit = [ctx.fresh_fun(f'{which}_arg{a}', *([z3.IntSort()] * len(keep) + [z3.IntSort()])) if keep else ctx.fresh_int(f'{which}_arg{a}')
               for a in axes]
        val0 = ctx.fresh_real(which) if (not keep and t.dtype == 'real') else (ctx.fresh_int(which) if not keep else None)
        tf = t.fn
        shape = t.shape
        ctx.use(f'numpy.{which}: bound of all elements, attained at some index (non-empty input)')
        # non-emptiness is an obligation (numpy raises ValueError on an empty reduction)
        for a in axes:
            ne = cmpop('>', shape[a], 0)
            if ne is False:
                ctx.oblige(f'{interp.cur_func}.{which}-nonempty@{line}', False, kind='raises', line=line)
                raise _Raise('ValueError', line=line)
            if is_sym(ne):
                ctx.oblige(f'{interp.cur_func}.{which}-nonempty@{line}', ne, kind='raises', line=line)
                ctx.assume(ne)
        ks = [z3.Int(ctx.name('i')) for _ in keep]
        rs = [z3.Int(ctx.name('r')) for _ in axes]

        def full(kidx, ridx):
            idx = [None] * t.ndim
            for a, v in zip(keep, kidx):
                idx[a] = v
            for a, v in zip(axes, ridx):
                idx[a] = v
            return idx
        val = (m(*ks) if keep else val0)
        rng_k = [z3.And(k >= 0, k < to_z3(shape[a])) for k, a in zip(ks, keep)]
        rng_r = [z3.And(r >= 0, r < to_z3(shape[a])) for r, a in zip(rs, axes)]
        cmp_ = (lambda x, y: cmpop('<=', x, y)) if which == 'min' else (lambda x, y: cmpop('>=', x, y))
        body = z3.Implies(z3.And(*(rng_k + rng_r)), to_z3(cmp_(val, tf(*full(ks, rs)))))
        ctx.assume(z3.ForAll(ks + rs, body))
        w = [(wf(*ks) if keep else wf) for wf in wit]
        wbody = z3.And(*[z3.And(x >= 0, x < to_z3(shape[a])) for x, a in zip(w, axes)],
                       to_z3(cmpop('==', val, tf(*full(ks, w)))))
        if keep:
            ctx.assume(z3.ForAll(ks, z3.Implies(z3.And(*rng_k), wbody), patterns=[m(*ks)]))
            return STensor(tuple(shape[a] for a in keep), lambda *i: m(*[to_z3(x) for x in i]), t.dtype)
        ctx.assume(wbody)
        return val0

    def reduce_any(self, interp, t, axis, line):
        ctx = interp.ctx
        axes = self._axes(t, axis)
        keep = [a for a in range(t.ndim) if a not in axes]
        tf, shape = t.fn, t.shape

        if all(not is_sym(shape[a]) for a in axes) and np.prod([shape[a] for a in axes]) <= 16:
            import itertools as _it

            def fn_small(*kidx):
                terms = []
                for combo in _it.product(*[range(shape[a]) for a in axes]):
                    idx = [None] * t.ndim
                    for a, v in zip(keep, kidx):
                        idx[a] = v
                    for a, v in zip(axes, combo):
                        idx[a] = v
                    terms.append(interp.truth(tf(*idx)))
                return z_or(*terms)
            if not keep:
                return fn_small()
            return STensor(tuple(shape[a] for a in keep), fn_small, 'bool')

        def fn(*kidx):
            rs = [z3.Int(ctx.name('e')) for _ in axes]
            idx = [None] * t.ndim
            for a, v in zip(keep, kidx):
                idx[a] = v
            for a, v in zip(axes, rs):
                idx[a] = v
            rng = [z3.And(r >= 0, r < to_z3(shape[a])) for r, a in zip(rs, axes)]
            return z3.Exists(rs, z3.And(*rng, to_z3(interp.truth(tf(*idx)))))
        if not keep:
            return fn()
        return STensor(tuple(shape[a] for a in keep), fn, 'bool')

    def sum_fn(self, ctx, f, n, dtype, nparams=0, label='Sum'):
        """Recursive spec function S(p..., k) = sum_{j<k} f(p..., j) with its unfolding axioms (k in [0,n])."""
        sort = z3.RealSort() if dtype == 'real' else z3.IntSort()
        S = ctx.fresh_fun(label, *([z3.IntSort()] * (nparams + 1) + [sort]))
        ps = [z3.Int(ctx.name('p')) for _ in range(nparams)]
        k = z3.Int(ctx.name('k'))
        zero = z3.RealVal(0) if dtype == 'real' else z3.IntVal(0)
        conv = V.to_real if dtype == 'real' else V.to_int
        base = S(*(ps + [z3.IntVal(0)])) == zero
        ctx.assume(z3.ForAll(ps, base) if ps else base)
        step = z3.Implies(z3.And(k >= 0, k < to_z3(n)), S(*(ps + [k + 1])) == S(*(ps + [k])) + conv(f(*(ps + [k]))))
        ctx.assume(z3.ForAll(ps + [k], step, patterns=[S(*(ps + [k + 1]))]))
        ctx.ghost.setdefault('sums', []).append({'S': S, 'f': f, 'n': n, 'dtype': dtype, 'nparams': nparams})
        ctx.use('numpy.sum/cumsum/mean: recursive spec function Sum(k+1)=Sum(k)+f(k), Sum(0)=0 (A-REAL for floats)')
        return S

    def reduce_sum(self, interp, t, axis, line):
        ctx = interp.ctx
        axes = self._axes(t, axis)
        keep = [a for a in range(t.ndim) if a not in axes]
        dtype = 'real' if t.dtype == 'real' else 'int'
        if len(axes) > 1:
            # sum the last axis first, then recurse
            inner = self.reduce_sum(interp, t, axes[-1], line)
            rest = [a for a in axes[:-1]]
            return self.reduce_sum(interp, inner, rest if len(rest) > 1 else rest[0], line) if keep or len(rest) >= 1 else inner
        ax = axes[0]
        tf, shape = t.fn, t.shape
        conv_bool = (lambda x: V.to_int(x)) if t.dtype == 'bool' else (lambda x: x)

        def f(*pk):
            idx = [None] * t.ndim
            for a, v in zip(keep, pk[:-1]):
                idx[a] = v
            idx[ax] = pk[-1]
            return conv_bool(tf(*idx))
        S = self.sum_fn(ctx, f, shape[ax], dtype, nparams=len(keep))
        if not keep:
            return S(to_z3(shape[ax]))
        n = shape[ax]
        return STensor(tuple(shape[a] for a in keep), lambda *i: S(*([to_z3(x) for x in i] + [to_z3(n)])), dtype)

    def reduce_mean(self, interp, t, axis, line):
        s = self.reduce_sum(interp, t, axis, line)
        axes = self._axes(t, axis)
        cnt = 1
        for a in axes:
            cnt = binop('*', cnt, t.shape[a])
        if isinstance(s, STensor):
            return s.map(lambda x: binop('/', x, cnt), dtype='real')
        interp.division_guard(cnt, line)
        return binop('/', s, cnt)

    def cumsum(self, interp, t, axis, line):
        ctx = interp.ctx
        if axis is None:
            if t.ndim != 1:
                raise Unsupported('cumsum flatten')
            axis = 0
        ax = axis % t.ndim
        keep = [a for a in range(t.ndim) if a != ax]
        dtype = 'real' if t.dtype == 'real' else 'int'
        tf, shape = t.fn, t.shape

        def f(*pk):
            idx = [None] * t.ndim
            for a, v in zip(keep, pk[:-1]):
                idx[a] = v
            idx[ax] = pk[-1]
            return tf(*idx)
        S = self.sum_fn(ctx, f, shape[ax], dtype, nparams=len(keep), label='CumSum')

        def fn(*i):
            ps = [to_z3(i[a]) for a in keep]
            return S(*(ps + [to_z3(i[ax]) + 1]))
        out = STensor(shape, fn, dtype)
        out.cumsum_of = (S, keep, ax)
        return out

    def max_accumulate(self, interp, t, axis, line):
        ctx = interp.ctx
        if t.ndim != 2 or axis % 2 != 1:
            raise Unsupported('maximum.accumulate form')
        sort = z3.RealSort() if t.dtype == 'real' else z3.IntSort()
        PM = ctx.fresh_fun('PMax', z3.IntSort(), z3.IntSort(), sort)
        ARG = ctx.fresh_fun('PMaxArg', z3.IntSort(), z3.IntSort(), z3.IntSort())
        i, j, k = z3.Int(ctx.name('i')), z3.Int(ctx.name('j')), z3.Int(ctx.name('k'))
        n0, n1 = to_z3(t.shape[0]), to_z3(t.shape[1])
        tf = t.fn
        rng = z3.And(i >= 0, i < n0, j >= 0, j < n1)
        ax1 = lambda ii, jj, kk: z3.Implies(z3.And(ii >= 0, ii < n0, jj >= 0, jj < n1, kk >= 0, kk <= jj), PM(ii, jj) >= to_z3(tf(ii, kk)))  # noqa: E731
        ctx.assume(z3.ForAll([i, j, k], ax1(i, j, k)),
                   tag='numpy.maximum.accumulate: prefix maximum (upper bound of the prefix, attained in the prefix)')
        ctx.inst_axioms.append((3, ax1))
        ctx.assume(z3.ForAll([i, j], z3.Implies(rng, z3.And(ARG(i, j) >= 0, ARG(i, j) <= j,
                                                            PM(i, j) == to_z3(tf(i, ARG(i, j))))), patterns=[PM(i, j)]))
        return STensor(t.shape, lambda a, b: PM(to_z3(a), to_z3(b)), t.dtype)

    # -- counting rows -------------------------------------------------------------------------
    def rowcount(self, ctx, t):
        """Spec function cnt(v...) = number of rows of the 2-D tensor t (or entries of a 1-D tensor) equal to v.

        Only the facts needed without induction are axiomatised: cnt >= 0; every row has cnt >= 1; cnt >= 1 has a
        witness row.  Structurally equal tensors share the function (extensionality, checked syntactically)."""
        if t.ndim == 1:
            C = 1
            cols = lambda r: [t.at(r)]  # noqa: E731
        else:
            C = t.shape[1]
            if is_sym(C):
                raise Unsupported('rowcount with symbolic column count')
            cols = lambda r: [t.at(r, c) for c in range(C)]  # noqa: E731
        probe = z3.Int('rowcount!probe')
        key = (tuple(z3.simplify(to_z3(x)).sexpr() for x in cols(probe)), z3.simplify(to_z3(t.shape[0])).sexpr())
        reg = ctx.ghost.setdefault('rowcount', {})
        if key in reg:
            return reg[key]
        cnt = ctx.fresh_fun('cnt', *([z3.IntSort()] * C + [z3.IntSort()]))
        wit = ctx.fresh_fun('cnt_wit', *([z3.IntSort()] * C + [z3.IntSort()]))
        vs = [z3.Int(ctx.name('v')) for _ in range(C)]
        r = z3.Int(ctx.name('r'))
        R = to_z3(t.shape[0])
        ctx.assume(z3.ForAll(vs, cnt(*vs) >= 0, patterns=[cnt(*vs)]))
        ctx.assume(z3.ForAll([r], z3.Implies(z3.And(r >= 0, r < R), cnt(*[to_z3(x) for x in cols(r)]) >= 1)))
        ctx.assume(z3.ForAll(vs, z3.Implies(cnt(*vs) >= 1, z3.And(wit(*vs) >= 0, wit(*vs) < R,
                                                                  *[to_z3(x) == v for x, v in zip(cols(wit(*vs)), vs)])),
                             patterns=[cnt(*vs)]))
        ctx.use('spec Count(rows == v): non-negative; positive iff some row equals v')
        reg[key] = cnt
        return cnt

    def unique(self, interp, t, return_counts, axis, line):
        ctx = interp.ctx
        if getattr(t, 'parts', None) and not return_counts:
            ctx.use('numpy.unique(concatenate(index vectors)) = ascending vector of the union of the index sets')
            return V.sidx_union(ctx, t.parts)
        if t.ndim == 1 or axis is None:
            if t.ndim != 1:
                t = self.np.m_flatten(interp, line, t)
            n = t.shape[0]
            tf = t.fn
            u = _unique1(ctx, tf, n, t.dtype)
            ctx.use('numpy.unique (1-D): strictly increasing vector of exactly the distinct input values')
            if return_counts:
                cnt = self.rowcount(ctx, t)
                counts = STensor((u.shape[0],), lambda k: cnt(to_z3(u.at(k))), 'int')
                return u, counts
            return u
        if axis != 0 or t.ndim != 2:
            raise Unsupported('np.unique axis form')
        C = t.shape[1]
        if is_sym(C):
            raise Unsupported('unique rows with symbolic width')
        R = to_z3(t.shape[0])
        K = ctx.fresh_int('uniq_K')
        U = ctx.fresh_fun('uniq_row', z3.IntSort(), z3.IntSort(), z3.RealSort() if t.dtype == 'real' else z3.IntSort())
        src = ctx.fresh_fun('uniq_src', z3.IntSort(), z3.IntSort())
        rk = ctx.fresh_fun('uniq_rank', z3.IntSort(), z3.IntSort())
        j, i, r = z3.Int(ctx.name('j')), z3.Int(ctx.name('i')), z3.Int(ctx.name('r'))
        ctx.assume(z3.And(K >= 0, K <= R, z3.Implies(R >= 1, K >= 1)))
        ctx.assume(z3.ForAll([j], z3.Implies(z3.And(j >= 0, j < K),
                                             z3.And(src(j) >= 0, src(j) < R,
                                                    *[U(j, c) == to_z3(t.at(src(j), c)) for c in range(C)])),
                             patterns=[U(j, c) for c in range(C)] + [src(j)]))
        ctx.assume(z3.ForAll([r], z3.Implies(z3.And(r >= 0, r < R),
                                             z3.And(rk(r) >= 0, rk(r) < K,
                                                    *[U(rk(r), c) == to_z3(t.at(r, c)) for c in range(C)])),
                             patterns=_pats([rk(r)] + [to_z3(t.at(r, c)) for c in range(C)], r)))
        ctx.assume(z3.ForAll([i, j], z3.Implies(z3.And(i >= 0, i < j, j < K),
                                                z3.Or(*[U(i, c) != U(j, c) for c in range(C)])),
                             patterns=[z3.MultiPattern(U(i, 0), U(j, 0))]))
        ctx.use('numpy.unique(axis=0): the distinct rows of the input, each exactly once')
        rows = STensor((K, C), lambda a, b: U(to_z3(a), to_z3(b)), t.dtype)
        if return_counts:
            cnt = self.rowcount(ctx, t)
            counts = STensor((K,), lambda a: cnt(*[U(to_z3(a), c) for c in range(C)]), 'int')
            ctx.use('numpy.unique(return_counts): counts[k] = Count(rows == unique[k])')
            return rows, counts
        return rows

    def digitize(self, interp, x, bins, right, line):
        ctx = interp.ctx
        right = bool(right)
        if isinstance(bins, (list, tuple)):
            bins = np.array(bins) if is_concrete(bins) else V.tensor_from_nested(bins)
        if isinstance(bins, np.ndarray):
            bl = [pyval(b) for b in bins]
            inc = all(a <= b for a, b in zip(bl, bl[1:]))
            dec = all(a >= b for a, b in zip(bl, bl[1:]))
            if not (inc or dec):
                raise _Raise('ValueError', line=line)
            ctx.use('numpy.digitize (concrete monotone bins)')

            def dg(v):
                tot = 0
                for b in bl:
                    if inc:
                        c = cmpop('<', b, v) if right else cmpop('<=', b, v)
                    else:
                        c = cmpop('>=', b, v) if right else cmpop('>', b, v)
                    tot = binop('+', tot, z_ite(c, 1, 0))
                return tot
            if isinstance(x, (STensor, np.ndarray)):
                return as_tensor(x).map(dg, dtype='int')
            return dg(x)
        bins = as_tensor(bins)
        m = bins.shape[0]
        # monotonicity is an obligation at the call site (numpy raises ValueError otherwise)
        a, b = z3.Int(ctx.name('a')), z3.Int(ctx.name('b'))
        incf = z3.ForAll([a, b], z3.Implies(z3.And(a >= 0, a < b, b < to_z3(m)), to_z3(cmpop('<', bins.at(a), bins.at(b)))))
        ctx.oblige(f'{interp.cur_func}.digitize-bins-increasing@{line}', incf, kind='pre-call', line=line)
        ctx.assume(incf)
        real = bins.dtype == 'real' or (isinstance(x, STensor) and x.dtype == 'real') or V.is_real_like(x)
        D = ctx.fresh_fun('digitize', z3.RealSort() if real else z3.IntSort(), z3.IntSort())
        v = z3.Real(ctx.name('v')) if real else z3.Int(ctx.name('v'))
        jj = z3.Int(ctx.name('j'))
        conv = V.to_real if real else V.to_int
        if right:
            below = lambda q: conv(bins.at(q)) < v  # noqa: E731
        else:
            below = lambda q: conv(bins.at(q)) <= v  # noqa: E731
        ctx.assume(z3.ForAll([v], z3.And(D(v) >= 0, D(v) <= to_z3(m)), patterns=[D(v)]))
        # with strictly increasing bins "number of bins below v" is characterised by its two neighbours
        ctx.assume(z3.ForAll([v], z3.And(z3.Implies(D(v) > 0, below(D(v) - 1)),
                                         z3.Implies(D(v) < to_z3(m), z3.Not(below(D(v))))), patterns=[D(v)]))
        ctx.use('numpy.digitize (increasing bins): result = number of bins below x (<= x, or < x if right=True)')
        if isinstance(x, (STensor, np.ndarray)):
            return as_tensor(x).map(lambda e: D(conv(e)), dtype='int')
        return D(conv(x))

    def linspace(self, interp, start, stop, num, dtype, line):
        ctx = interp.ctx
        num = pyval(num)
        from .npmodel import dtype_kind
        as_int = dtype_kind(dtype) == 'int'
        ctx.use('numpy.linspace: out[k] = start + k*(stop-start)/(num-1), endpoint exact' + ('; dtype=int truncates' if as_int else ''))
        s, e = V.to_real(start), V.to_real(stop)
        if is_sym(num):
            ok = num >= 0
            ctx.oblige(f'{interp.cur_func}.linspace-num@{line}', ok, kind='pre-call', line=line)
            ctx.assume(ok)

        def fn(k):
            d = binop('-', num, 1)
            val = z3.If(to_z3(cmpop('==', k, d)), e, s + V.to_real(k) * (e - s) / V.to_real(d)) if is_sym(d) or d != 0 else s
            if as_int:
                val = z3.If(val >= 0, z3.ToInt(val), -z3.ToInt(-val))
            return val
        return STensor((num,), fn, 'int' if as_int else 'real')

    # ------------------------------------------------------------------------------------------
    # running a function under a contract
    # ------------------------------------------------------------------------------------------
    def prove_function(self, module, qualname, setup, post=None, raises=(), label=None, on_raise=None,
                       bound_self=False, max_paths=400, replay=None, modifies=()):
        """Symbolically execute the real function on the inputs built by `setup(interp)`.

        setup(interp) -> (args, kwargs, state);  requires go through interp.ctx.assume.
        post(interp, state, result) -> list[(label, formula)]   (checked on every returning path)
        raises: exception type names the contract allows; any other reachable raise is a failed obligation.
        on_raise(interp, state, exc_type) -> list[(label, formula)]  facts that must hold when an allowed raise occurs.
        """
        key = f'{module}.{qualname}'
        label = label or key
        info = {'n_return': 0, 'n_raise': 0, 'n_step': 0}
        unit = self

        def run(ctx):
            interp = Interp(ctx, unit.sources, unit)
            ctx.func = key
            interp.cur_func = key
            args, kwargs, state = setup(interp)
            ctx.ghost['requires_len'] = len(ctx.hyps)
            ctx.ghost['state'] = state
            # frame: containers and arrays handed in by the caller (dict / list / tensor arguments) belong to the caller; unless the
            # contract names them in `modifies`, the function must leave them as they were
            snap = []
            for nm, v in [(f'#{i}', a) for i, a in enumerate(args)] + list(kwargs.items()):
                if nm in modifies:
                    continue
                if isinstance(v, dict):
                    snap.append((nm, v, 'dict', dict(v)))
                elif isinstance(v, list):
                    snap.append((nm, v, 'list', list(v)))
                elif isinstance(v, STensor):
                    snap.append((nm, v, 'tensor', (v.fn, tuple(v.shape))))
            try:
                fi = unit.sources.function(module, qualname)
                if fi is None:
                    raise Unsupported(f'function {key} not found in the working tree')
                interp.top_call_pending = True  # the function under proof is executed from its real body, callees by contract
                result = interp.call_qual(module, qualname, args, kwargs)
            except _Raise as r:
                info['n_raise'] += 1
                short = (r.exc_type or '').split('.')[-1]
                if short not in [x.split('.')[-1] for x in raises]:
                    ctx.oblige(f'{label}.no-raise[{short}]@{r.line}', False, kind='raises', line=r.line)
                else:
                    ctx.oblige(f'{label}.raises[{short}]-is-allowed@{r.line}', True, kind='raises', line=r.line)
                    if on_raise is not None:
                        for lab, f in on_raise(interp, state, short):
                            ctx.oblige(f'{label}.on-raise.{lab}', f, kind='post')
                return 'raise', r.exc_type
            except PathDone:
                info['n_step'] += 1
                return 'step', None
            info['n_return'] += 1
            if post is not None:
                for lab, f in post(interp, state, result):
                    ctx.oblige(f'{label}.post.{lab}', f, kind='post')
            for nm, v, kind, old_ in snap:
                if kind == 'dict':
                    same = list(v) == list(old_) and all(v[k] is old_[k] or (is_sym(v[k]) and is_sym(old_[k])) for k in old_)
                    if same and all(v[k] is old_[k] for k in old_):
                        continue
                    f = z3.And(z3.BoolVal(list(v) == list(old_)), *[to_z3(v[k]) == to_z3(old_[k]) for k in old_ if k in v and is_sym(v[k]) and is_sym(old_[k]) and v[k] is not old_[k]]) \
                        if same else z3.BoolVal(False)
                    ctx.oblige(f'{label}.frame.argument {nm} (a dict of the caller) is not modified', f, kind='frame')
                elif kind == 'list':
                    if len(v) != len(old_) or any(a is not b for a, b in zip(v, old_)):
                        ctx.oblige(f'{label}.frame.argument {nm} (a list of the caller) is not modified', z3.BoolVal(False), kind='frame')
                elif kind == 'tensor':
                    if v.fn is not old_[0] or tuple(v.shape) != old_[1]:
                        ctx.oblige(f'{label}.frame.argument {nm} (an array of the caller) is not modified in place', z3.BoolVal(False), kind='frame')
            return 'return', result
        t0 = time.time()
        try:
            paths = explore(run, func=key, max_paths=max_paths)
        except Unsupported as e:
            self.results.append({'unit': self.name, 'label': label, 'status': 'unsupported',
                                 'reason': f'{e} (line {e.line})'})
            return None
        except (z3.Z3Exception, TypeError, AttributeError, KeyError, IndexError, ValueError, AssertionError) as e:
            # the interpreter met code it cannot model (typically a mutated / refactored body): undecided, never a violation
            tb = traceback.format_exc().strip().splitlines()
            self.results.append({'unit': self.name, 'label': label, 'status': 'unsupported',
                                 'reason': f'engine exception {type(e).__name__}: {e} [{tb[-3].strip() if len(tb) >= 3 else ""}]'})
            return None
        self._collect(label, paths, time.time() - t0, info)
        self.results[-1]['replay'] = replay
        return paths

    def _collect(self, label, paths, gen_s, info):
        obls = []
        unsupported = []
        cover_done = False
        canary = None
        for p in paths:
            if p.kind == 'unsupported':
                unsupported.append(f'{p.exc} (line {getattr(p.exc, "line", None)})')
                continue
            if not cover_done:
                cover_done = True
                nreq = p.ctx.ghost.get('requires_len', 0)
                r, _ = check_sat(p.ctx.hyps[:nreq])
                obls.append(('cover', Obligation(f'{label}.cover.requires', 'cover', p.ctx.hyps[:nreq], None), r))
            if p.kind == 'return' and canary is None:
                canary = Obligation(f'{label}.canary', 'canary', list(p.ctx.hyps), z3.BoolVal(False))
            for ob in p.ctx.obls:
                obls.append(('vc', ob, p))
        self.results.append({'unit': self.name, 'label': label, 'status': 'generated', 'obls': obls,
                             'unsupported': unsupported, 'canary': canary, 'gen_s': gen_s, 'paths': len(paths),
                             'info': info, 'trusted': sorted({t for p in paths for t in p.ctx.axiom_tags})})

    def lemma(self, label, build):
        """A stand-alone lemma: build(ctx) -> list[(label, hyps-added-through-ctx.assume, goal)]."""
        ctx = Ctx(func=label)
        t0 = time.time()
        try:
            goals = build(ctx)
        except Unsupported as e:
            self.results.append({'unit': self.name, 'label': label, 'status': 'unsupported', 'reason': str(e)})
            return
        obls = []
        for lab, goal in goals:
            obls.append(('vc', Obligation(f'{label}.{lab}', 'lemma', list(ctx.hyps), goal, func=label), None))
        r, _ = check_sat(ctx.hyps)
        obls.append(('cover', Obligation(f'{label}.cover.hypotheses', 'cover', list(ctx.hyps), None), r))
        self.results.append({'unit': self.name, 'label': label, 'status': 'generated', 'obls': obls, 'unsupported': [],
                             'canary': Obligation(f'{label}.canary', 'canary', list(ctx.hyps), z3.BoolVal(False)),
                             'gen_s': time.time() - t0, 'paths': 1, 'info': {}, 'trusted': list(ctx.axiom_tags)})


def _pure(e, var):
    """(is a legal trigger sub-term, contains var)."""
    if z3.eq(e, var):
        return True, True
    if z3.is_int_value(e) or z3.is_rational_value(e):
        return True, False
    if z3.is_app(e) and e.decl().kind() == z3.Z3_OP_UNINTERPRETED:
        has = False
        for c in e.children():
            ok, h = _pure(c, var)
            if not ok:
                return False, False
            has = has or h
        return True, has
    return False, False


def _pats(cands, var):
    """Keep the candidate triggers built only from uninterpreted symbols / numerals that contain the bound variable."""
    out = []
    for c in cands:
        if z3.is_app(c) and c.num_args() > 0 and c.decl().kind() == z3.Z3_OP_UNINTERPRETED:
            ok, has = _pure(c, var)
            if ok and has and not any(z3.eq(c, o) for o in out):
                out.append(c)
    return out or None


def _unique1(ctx, tf, n, dtype):
    """Sorted distinct values of a rank-1 tensor, as an SIdx over the value domain (unbounded range)."""
    L = ctx.fresh_int('uq_len')
    pos = ctx.fresh_fun('uq_val', z3.IntSort(), z3.IntSort())
    src = ctx.fresh_fun('uq_src', z3.IntSort(), z3.IntSort())
    rank = ctx.fresh_fun('uq_rank', z3.IntSort(), z3.IntSort())
    if dtype == 'real':
        raise Unsupported('unique of real values')
    k, j = z3.Int(ctx.name('k')), z3.Int(ctx.name('j'))
    nn = to_z3(n)
    ctx.assume(z3.And(L >= 0, L <= nn, z3.Implies(nn >= 1, L >= 1)))
    ctx.assume(z3.ForAll([k], z3.Implies(z3.And(k >= 0, k < L),
                                         z3.And(src(k) >= 0, src(k) < nn, to_z3(tf(src(k))) == pos(k))), patterns=[pos(k)]))
    ctx.assume(z3.ForAll([j, k], z3.Implies(z3.And(j >= 0, j < k, k < L), pos(j) < pos(k)),
                         patterns=[z3.MultiPattern(pos(j), pos(k))]))
    ctx.assume(z3.ForAll([k], z3.Implies(z3.And(k >= 0, k < nn),
                                         z3.And(rank(k) >= 0, rank(k) < L, pos(rank(k)) == to_z3(tf(k)))),
                         patterns=[rank(k)]))
    t = STensor((L,), lambda q: pos(to_z3(q)), 'int')
    t.uq = {'L': L, 'val': pos, 'src': src, 'rank': rank}
    return t

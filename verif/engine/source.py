"""Extraction of the real functions from the working tree (re-read on every run, no import, no cache)."""
from __future__ import annotations

import ast
import hashlib
import os

from .core import Unsupported
from .interp import ALIASES, ClassRef, Env, FuncRef, LibRef

REPO = os.environ.get('VERIF_REPO', '/repo')
PYMATGEN_TRAJ = '/venv/lib/python3.12/site-packages/pymatgen/core/trajectory.py'


def module_path(module):
    if module.startswith('gemdat'):
        rel = module.split('.')[1:] or ['__init__']
        return os.path.join(REPO, 'src', 'gemdat', *rel[:-1], rel[-1] + '.py')
    if module == 'pymatgen.core.trajectory':
        return PYMATGEN_TRAJ
    return None


def _strip(node):
    """Normalise a FunctionDef for fingerprinting: drop docstrings and annotations (nothing else)."""
    node = ast.parse(ast.unparse(node)).body[0]
    for n in ast.walk(node):
        if isinstance(n, (ast.FunctionDef, ast.AsyncFunctionDef)):
            n.returns = None
            if n.body and isinstance(n.body[0], ast.Expr) and isinstance(n.body[0].value, ast.Constant) and isinstance(
                    n.body[0].value.value, str):
                n.body = n.body[1:] or [ast.Pass()]
            for a in n.args.posonlyargs + n.args.args + n.args.kwonlyargs:
                a.annotation = None
            if n.args.vararg:
                n.args.vararg.annotation = None
            if n.args.kwarg:
                n.args.kwarg.annotation = None
    return node


class FunctionInfo:
    def __init__(self, tree, module, qualname, node, cls=None):
        self.tree = tree
        self.module = module
        self.qualname = qualname
        self.node = node
        self.cls = cls
        self.decorators = [ast.unparse(d) for d in node.decorator_list]
        self.is_classmethod = 'classmethod' in self.decorators
        self.is_staticmethod = 'staticmethod' in self.decorators
        self.is_property = 'property' in self.decorators
        norm = _strip(node)
        self.normalised = ast.unparse(norm)
        self.sha256 = hashlib.sha256(self.normalised.encode()).hexdigest()
        self.lines = (node.lineno, node.end_lineno)

    def module_env(self, interp):
        return self.tree.module_env(self.module, interp)

    def describe(self):
        return {'function': f'{self.module}.{self.qualname}', 'file': module_path(self.module),
                'lines': list(self.lines), 'ast_sha256': self.sha256, 'decorators_dropped': self.decorators}


class SourceTree:
    def __init__(self):
        self.modules = {}
        self.used = {}

    def load(self, module):
        if module in self.modules:
            return self.modules[module]
        path = module_path(module)
        if path is None or not os.path.exists(path):
            self.modules[module] = None
            return None
        with open(path) as f:
            src = f.read()
        mod = ast.parse(src, filename=path)
        info = {'ast': mod, 'functions': {}, 'classes': {}, 'consts': {}, 'imports': {}, 'path': path, 'src': src}
        for n in mod.body:
            if isinstance(n, ast.FunctionDef):
                info['functions'][n.name] = FunctionInfo(self, module, n.name, n)
            elif isinstance(n, ast.ClassDef):
                info['classes'][n.name] = n
                for m in n.body:
                    if isinstance(m, ast.FunctionDef):
                        info['functions'][f'{n.name}.{m.name}'] = FunctionInfo(self, module, f'{n.name}.{m.name}', m, cls=n.name)
            elif isinstance(n, ast.Assign) and len(n.targets) == 1 and isinstance(n.targets[0], ast.Name):
                info['consts'][n.targets[0].id] = n.value
            elif isinstance(n, (ast.Import, ast.ImportFrom)):
                info['imports'][id(n)] = n
            elif isinstance(n, ast.If):
                # `if TYPE_CHECKING:` imports are dropped (typing only)
                pass
        self.modules[module] = info
        return info

    def function(self, module, qualname):
        info = self.load(module)
        if info is None:
            return None
        fi = info['functions'].get(qualname)
        if fi is not None:
            self.used[f'{module}.{qualname}'] = fi
        return fi

    def class_bases(self, module, cls):
        info = self.load(module)
        if info is None or cls not in info['classes']:
            return []
        return [ast.unparse(b) for b in info['classes'][cls].bases]

    def class_const(self, interp, module, cls, attr):
        info = self.load(module)
        if info is None or cls not in info['classes']:
            return NotImplemented
        for m in info['classes'][cls].body:
            if isinstance(m, ast.Assign) and len(m.targets) == 1 and isinstance(m.targets[0], ast.Name) and m.targets[0].id == attr:
                return interp.eval(m.value, self.module_env(module, interp))
        return NotImplemented

    def module_env(self, module, interp):
        info = self.load(module)
        env = Env()
        if info is None:
            return env
        env.vars = _LazyModuleVars(self, module, info, interp)
        return env

    def resolve_import(self, interp, mod, name, level, env=None, cur_module=None):
        # relative import inside gemdat
        if level and level > 0:
            full = 'gemdat' + ('.' + mod if mod else '')
        else:
            full = mod
        if full.startswith('gemdat'):
            target = full if full != 'gemdat' else 'gemdat.' + name
            info = self.load(full) if full != 'gemdat' else None
            if info is not None:
                if name in info['functions']:
                    return FuncRef(full, name)
                if name in info['classes']:
                    return ClassRef(full, name)
                if name in info['consts']:
                    return interp.eval(info['consts'][name], self.module_env(full, interp))
            # `from gemdat import rdf`
            sub = self.load(f'{full}.{name}')
            if sub is not None:
                return ModuleRef(f'{full}.{name}')
            return LibRef(f'{full}.{name}')
        # numeric constants of third-party modules (scipy.constants.angstrom, ...) are read from the installed module
        if full in ('scipy.constants', 'math'):
            try:
                import importlib
                val = getattr(importlib.import_module(full), name)
                if isinstance(val, (int, float, dict, tuple)):
                    interp.ctx.use(f'{full}.{name} = {val!r} (installed value)')
                    return val
            except Exception:
                pass
        return LibRef(f'{ALIASES.get(full, full)}.{name}')


class ModuleRef:
    def __init__(self, module):
        self.module = module


class _LazyModuleVars(dict):
    """Module-level names resolved on demand from the module AST."""

    def __init__(self, tree, module, info, interp):
        super().__init__()
        self.tree, self.module, self.info, self.interp = tree, module, info, interp
        self._resolving = set()

    def __contains__(self, name):
        if dict.__contains__(self, name):
            return True
        try:
            self[name]
            return True
        except KeyError:
            return False

    def __missing__(self, name):
        info = self.info
        if name in self._resolving:
            raise KeyError(name)
        self._resolving.add(name)
        try:
            if name in info['functions']:
                v = FuncRef(self.module, name)
            elif name in info['classes']:
                v = ClassRef(self.module, name)
            elif name in info['consts']:
                env = Env()
                env.vars = self
                v = self.interp.eval(info['consts'][name], env)
            else:
                v = None
                found = False
                for n in info['imports'].values():
                    if isinstance(n, ast.Import):
                        for al in n.names:
                            nm = al.asname or al.name.split('.')[0]
                            if nm == name:
                                dotted = al.name if al.asname else al.name.split('.')[0]
                                v = LibRef(ALIASES.get(dotted, dotted))
                                found = True
                    else:
                        for al in n.names:
                            if (al.asname or al.name) == name:
                                v = self.tree.resolve_import(self.interp, n.module or '', al.name, n.level)
                                found = True
                if not found:
                    raise KeyError(name)
            self[name] = v
            return v
        finally:
            self._resolving.discard(name)

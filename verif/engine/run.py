"""Discharge the obligations of one proof unit; concretise and replay counter-models natively."""
from __future__ import annotations

import importlib
import json
import os
import time
import traceback

import z3

from .core import Obligation, discharge

ROOT = os.path.dirname(os.path.dirname(os.path.dirname(os.path.abspath(__file__))))


def _minimise(ob, size_vars, bounds=(1, 2, 3, 4, 6, 8)):
    """Re-solve a failed obligation with small size bounds to get a replayable witness."""
    if not size_vars:
        return None
    for b in bounds:
        s = z3.Solver()
        s.set('timeout', 10000)
        for h in ob.hyps:
            s.add(h)
        s.add(z3.Not(ob.goal))
        for v in size_vars:
            s.add(v <= b)
        if s.check() == z3.sat:
            return s.model()
    return None


def run_unit(fn, tier, seed):
    t0 = time.time()
    unit = fn(tier)
    rec = {'kind': 'unit', 'unit': unit.name, 'obligations': [], 'functions': [], 'trusted': [], 'unsupported': [],
           'errors': [], 'samples': [], 'notes': list(unit.notes)}
    trusted = set()
    second = tier == 'thorough'
    for res in unit.results:
        if res['status'] == 'unsupported':
            rec['unsupported'].append({'label': res['label'], 'reason': res['reason']})
            continue
        for u in res['unsupported']:
            rec['unsupported'].append({'label': res['label'], 'reason': u})
        trusted.update(res['trusted'])
        n_vc = 0
        fs_budget = 2  # finite-scope counter-model searches per function (each costs up to ~25 s)
        for kind, ob, extra in res['obls']:
            if kind == 'cover':
                rec['obligations'].append({'name': ob.name, 'kind': 'cover', 'status': 'discharged' if extra == 'sat' else (
                    'vacuous' if extra == 'unsat' else 'undecided'), 'backend': 'z3-5.1(api)', 'seconds': 0.0})
                continue
            n_vc += 1
            v = discharge(ob, second_solver=second)
            entry = {'name': ob.name, 'kind': ob.kind, 'status': v.status, 'backend': v.backend,
                     'seconds': round(v.seconds, 4), 'line': ob.line, 'path': ob.path}
            if v.reason:
                entry['reason'] = v.reason
            if v.status == 'failed':
                entry.update(_handle_failure(unit, res, ob, v, extra))
            elif v.status == 'undecided' and res.get('replay') and extra is not None and fs_budget > 0:
                fs_budget -= 1
                entry.update(_finite_scope(unit, res, ob, extra))
            if len(rec['samples']) < 3 and v.status == 'discharged':
                try:
                    s = z3.Solver()
                    for h in ob.hyps:
                        s.add(h)
                    s.add(z3.Not(ob.goal))
                    txt = s.to_smt2()
                    rec['samples'].append({'obligation': ob.name, 'smt2': txt if len(txt) < 6000 else txt[:6000] + '\n; ... truncated'})
                except Exception:
                    pass
            rec['obligations'].append(entry)
        if res.get('canary') is not None:
            cv = discharge(res['canary'], timeout_ms=1500, want_model=False)
            rec['obligations'].append({'name': res['canary'].name, 'kind': 'canary',
                                       'status': 'inconsistent' if cv.status == 'discharged' else 'discharged',
                                       'backend': cv.backend, 'seconds': round(cv.seconds, 4)})
        if n_vc == 0 and not res['unsupported']:
            rec['errors'].append(f'{res["label"]}: zero obligations generated (vacuity guard)')
        rec.setdefault('paths', {})[res['label']] = res['paths']
    for key, fi in unit.sources.used.items():
        rec['functions'].append(fi.describe())
    rec['trusted'] = sorted(trusted)
    rec['gen_and_solve_s'] = time.time() - t0
    return rec


def _handle_failure(unit, res, ob, v, path):
    out = {}
    spec = res.get('replay')
    model = v.model
    out['model_excerpt'] = _model_excerpt(model)
    if spec is None or model is None:
        out['replay'] = None
        return out
    try:
        state = path.ctx.ghost.get('state') if path is not None else None
        sizes = spec['sizes'](state) if spec.get('sizes') else []
        small = _minimise(ob, sizes)
        use = small or model
        inputs = spec['concretise'](use, state, ob)
        from .replay import call_replay
        out['replay'] = {'fn': spec['fn'], 'inputs': inputs, 'minimised': small is not None,
                         'result': call_replay(spec['fn'], inputs)}
    except Exception as e:
        out['replay'] = None
        out['concretise_error'] = f'{type(e).__name__}: {e}'
    return out


def _finite_scope(unit, res, ob, path):
    """Solver said unknown: look for a small counter-model by grounding; keep it only if it replays natively."""
    from .ground import finite_scope_model
    from .replay import call_replay
    spec = res['replay']
    out = {}
    try:
        state = path.ctx.ghost.get('state')
        sizes = spec['sizes'](state) if spec.get('sizes') else []
        restrict = spec['restrict'](state) if spec.get('restrict') else []
        model, b = finite_scope_model(ob, sizes, extra=restrict)
        if model is None:
            return out
        inputs = spec['concretise'](model, state, ob)
        r = call_replay(spec['fn'], inputs)
        out['finite_scope'] = {'bound': b, 'reproduced': r['reproduced']}
        if r['reproduced']:
            out['status'] = 'failed'
            out['reason'] = f'solver unknown; counter-model found by finite-scope grounding (sizes <= {b}) and reproduced natively'
            out['model_excerpt'] = _model_excerpt(model)
            out['replay'] = {'fn': spec['fn'], 'inputs': inputs, 'minimised': True, 'result': r}
    except Exception as e:
        out['finite_scope_error'] = f'{type(e).__name__}: {e}'
    return out


def _model_excerpt(model, limit=1500):
    if model is None:
        return None
    try:
        s = str(model)
        return s if len(s) <= limit else s[:limit] + ' ...'
    except Exception:
        return None

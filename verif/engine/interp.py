"""Symbolic interpreter for the Python/numpy subset of the real GEMDAT sources (see DESIGN §2.3).

The interpreter executes the *real* function body (AST of the file in the working tree).  Calls into numpy /
pandas / pymatgen / networkx are answered by the assumed library contracts of `npmodel`/`libmodel`; calls to other
gemdat functions are answered by their sidecar contract if one is registered for the proof unit, otherwise the
callee's real body is inlined.
"""
from __future__ import annotations

import ast
import builtins
import operator
from fractions import Fraction

import numpy as np
import z3

from . import values as V
from .core import Ctx, Infeasible, Unsupported
from .values import (SFrame, SIdx, SObj, SOpt, SRow, SSeq, STensor, any_sym, as_tensor, binop, cmpop,
                     is_sym, pyval, to_z3, z_and, z_ite, z_not, z_or)


class _Return(Exception):
    def __init__(self, value):
        self.value = value


class _Raise(Exception):
    def __init__(self, exc_type, msg=None, line=None):
        self.exc_type = exc_type
        self.msg = msg
        self.line = line


class _Break(Exception):
    pass


class _Continue(Exception):
    pass


class PathDone(Exception):
    """The path ends here without producing a function result (loop-step obligation path)."""


class LibRef:
    """Reference to a library object by dotted name (numpy.roll, pandas.DataFrame, ...)."""

    def __init__(self, dotted):
        self.dotted = dotted

    def __repr__(self):
        return f'LibRef({self.dotted})'


class FuncRef:
    """Reference to a gemdat function (module, qualname)."""

    def __init__(self, module, qualname, bound_self=None):
        self.module = module
        self.qualname = qualname
        self.bound_self = bound_self

    def __repr__(self):
        return f'FuncRef({self.module}:{self.qualname})'


class ClassRef:
    def __init__(self, module, name):
        self.module = module
        self.name = name

    def __repr__(self):
        return f'ClassRef({self.module}:{self.name})'


class Closure:
    def __init__(self, node, env, interp):
        self.node = node
        self.env = env
        self.interp = interp


class PyFn:
    """Callable value implemented by the verifier: fn(interp, line, *args, **kwargs)."""

    def __init__(self, fn, name=None):
        self.fn = fn
        self.name = name


class SymIter:
    """Iterable of symbolic length."""

    def __init__(self, length, item):
        self.length = length
        self.item = item


class LoopSpec:
    """Sidecar loop contract: carried variables (havoc makers) and the inductive invariant."""

    def __init__(self, carried, invariant, on_break=None, modifies_env=None):
        self.carried = carried  # name -> maker(ctx, env, k) -> fresh symbolic value
        self.invariant = invariant  # (ctx, env, k) -> list[(label, formula)]
        self.on_break = on_break


ALIASES = {'np': 'numpy', 'pd': 'pandas', 'nx': 'networkx', 'mda': 'MDAnalysis'}

CMP = {ast.Eq: '==', ast.NotEq: '!=', ast.Lt: '<', ast.LtE: '<=', ast.Gt: '>', ast.GtE: '>='}
BIN = {ast.Add: '+', ast.Sub: '-', ast.Mult: '*', ast.Div: '/', ast.FloorDiv: '//', ast.Mod: '%', ast.Pow: '**'}


def is_concrete(x, depth=0):
    if depth > 6:
        return True
    if isinstance(x, (z3.ExprRef, STensor, SFrame, SRow, SObj, SSeq, SOpt, SymIter, LibRef, FuncRef, ClassRef, Closure, PyFn)):
        return False
    if isinstance(x, (list, tuple, set, frozenset)):
        return all(is_concrete(e, depth + 1) for e in x)
    if isinstance(x, dict):
        return all(is_concrete(k, depth + 1) and is_concrete(v, depth + 1) for k, v in x.items())
    return True


class Interp:
    def __init__(self, ctx: Ctx, sources, unit):
        self.ctx = ctx
        self.sources = sources  # SourceTree
        self.unit = unit  # proof unit: contracts, loop specs, lib overrides
        self.depth = 0
        self.cur_func = None
        self.loop_ordinal = {}

    # ------------------------------------------------------------------------------------------
    # functions
    # ------------------------------------------------------------------------------------------
    def call_qual(self, module, qualname, args, kwargs, bound_self=None):
        key = f'{module}.{qualname}'
        contract = self.unit.contracts.get(key)
        top = getattr(self, 'top_call_pending', False)
        self.top_call_pending = False
        if contract is not None and not top:
            if bound_self is not None:
                args = [bound_self] + list(args)
            return contract(self, *args, **kwargs)
        fi = self.sources.function(module, qualname)
        if fi is None:
            raise Unsupported(f'no source for {key}')
        if self.depth > 12:
            raise Unsupported('inlining too deep')
        if bound_self is not None:
            args = [bound_self] + list(args)
        env = self.bind(fi, args, kwargs)
        saved = (self.cur_func, self.loop_ordinal, getattr(self, 'cur_self', None))
        self.cur_func = key
        self.cur_self = bound_self if bound_self is not None else (args[0] if (fi.cls and args and isinstance(args[0], SObj)) else None)
        self.loop_ordinal = {}
        self.depth += 1
        try:
            self.exec_block(fi.node.body, env)
            return None
        except _Return as r:
            return r.value
        finally:
            self.depth -= 1
            self.cur_func, self.loop_ordinal, self.cur_self = saved

    def bind(self, fi, args, kwargs):
        node = fi.node
        a = node.args
        env = Env(fi.module_env(self))
        params = [p.arg for p in a.posonlyargs + a.args]
        defaults = a.defaults
        n_no_default = len(params) - len(defaults)
        args = list(args)
        kwargs = dict(kwargs)
        if len(args) > len(params) and not a.vararg:
            raise Unsupported(f'too many positional args for {fi.qualname}')
        for i, p in enumerate(params):
            if i < len(args):
                env.set(p, args[i])
            elif p in kwargs:
                env.set(p, kwargs.pop(p))
            elif i >= n_no_default:
                env.set(p, self.eval(defaults[i - n_no_default], env))
            else:
                raise Unsupported(f'missing argument {p} for {fi.qualname}')
        if a.vararg:
            env.set(a.vararg.arg, tuple(args[len(params):]))
        for p, d in zip(a.kwonlyargs, a.kw_defaults):
            if p.arg in kwargs:
                env.set(p.arg, kwargs.pop(p.arg))
            elif d is not None:
                env.set(p.arg, self.eval(d, env))
            else:
                raise Unsupported(f'missing keyword argument {p.arg} for {fi.qualname}')
        if a.kwarg:
            env.set(a.kwarg.arg, kwargs)
        elif kwargs:
            raise Unsupported(f'unexpected keyword arguments {list(kwargs)} for {fi.qualname}')
        return env

    # ------------------------------------------------------------------------------------------
    # statements
    # ------------------------------------------------------------------------------------------
    def exec_block(self, stmts, env):
        for s in stmts:
            self.exec(s, env)

    def exec(self, node, env):
        m = getattr(self, 'exec_' + type(node).__name__, None)
        if m is None:
            raise Unsupported(f'statement {type(node).__name__}', getattr(node, 'lineno', None))
        try:
            return m(node, env)
        except Unsupported as e:
            if e.line is None:
                e.line = getattr(node, 'lineno', None)
            raise

    def exec_Expr(self, node, env):
        if isinstance(node.value, ast.Constant):
            return  # docstring
        self.eval(node.value, env)

    def exec_Pass(self, node, env):
        pass

    def exec_Import(self, node, env):
        for al in node.names:
            env.set(al.asname or al.name.split('.')[0], LibRef(al.name if al.asname else al.name.split('.')[0]))

    def exec_ImportFrom(self, node, env):
        mod = node.module or ''
        for al in node.names:
            env.set(al.asname or al.name, self.sources.resolve_import(self, mod, al.name, node.level, env))

    def exec_Return(self, node, env):
        raise _Return(self.eval(node.value, env) if node.value is not None else None)

    def exec_Raise(self, node, env):
        exc = node.exc
        name = None
        if isinstance(exc, ast.Call):
            f = exc.func
            name = f.id if isinstance(f, ast.Name) else ast.unparse(f)
        elif isinstance(exc, ast.Name):
            name = exc.id
        raise _Raise(name, line=node.lineno)

    def exec_Assert(self, node, env):
        c = self.eval(node.test, env)
        c = self.truth(c)
        if isinstance(c, bool):
            if not c:
                self.ctx.oblige(f'{self.cur_func}.assert@{node.lineno}', False, kind='assert', line=node.lineno)
                raise Infeasible()
            return
        self.ctx.oblige(f'{self.cur_func}.assert@{node.lineno}', c, kind='assert', line=node.lineno)
        self.ctx.assume(c)

    def exec_Assign(self, node, env):
        val = self.eval(node.value, env)
        for t in node.targets:
            self.assign(t, val, env)

    def exec_AnnAssign(self, node, env):
        if node.value is not None:
            self.assign(node.target, self.eval(node.value, env), env)

    def exec_AugAssign(self, node, env):
        op = BIN.get(type(node.op))
        if op is None:
            raise Unsupported(f'augassign {type(node.op).__name__}')
        cur = self.eval(node.target, env)
        rhs = self.eval(node.value, env)
        if isinstance(cur, list) and op == '+':
            new = cur + list(rhs)
        else:
            new = self.binary(op, cur, rhs, node.lineno)
        if isinstance(cur, STensor) and isinstance(new, STensor) and isinstance(node.target, ast.Name):
            # in-place numpy update: aliases see it
            cur.fn, cur.dtype = new.fn, new.dtype
            return
        self.assign(node.target, new, env)

    def exec_Delete(self, node, env):
        for t in node.targets:
            if isinstance(t, ast.Subscript):
                base = self.eval(t.value, env)
                key = self.eval(t.slice, env)
                if isinstance(base, SFrame):
                    if key not in base.columns:
                        raise _Raise('KeyError', line=node.lineno)
                    del base.columns[key]
                elif isinstance(base, dict):
                    del base[key]
                else:
                    raise Unsupported('del on ' + type(base).__name__)
            else:
                raise Unsupported('del target')

    def exec_If(self, node, env):
        c = self.truth(self.eval(node.test, env))
        if self.ctx.branch(c, node.lineno):
            self.exec_block(node.body, env)
        else:
            self.exec_block(node.orelse, env)

    def exec_Break(self, node, env):
        raise _Break()

    def exec_Continue(self, node, env):
        raise _Continue()

    def exec_FunctionDef(self, node, env):
        fn = Closure(node, env, self)
        for dec in reversed(node.decorator_list):
            d = self.eval(dec, env)
            fn = self.call(d, [fn], {}, node.lineno)
        env.set(node.name, fn)

    def exec_With(self, node, env):
        for item in node.items:
            v = self.eval(item.context_expr, env)
            if item.optional_vars is not None:
                self.assign(item.optional_vars, v, env)
        self.exec_block(node.body, env)

    def exec_Try(self, node, env):
        try:
            self.exec_block(node.body, env)
        except _Raise as r:
            for h in node.handlers:
                if self.handler_matches(h, r, env):
                    if h.name:
                        env.set(h.name, SObj('exception', type=r.exc_type))
                    self.exec_block(h.body, env)
                    break
            else:
                raise
        else:
            self.exec_block(node.orelse, env)
        finally:
            pass
        self.exec_block(node.finalbody, env)

    def handler_matches(self, h, r, env):
        if h.type is None:
            return True
        names = [ast.unparse(e) for e in (h.type.elts if isinstance(h.type, ast.Tuple) else [h.type])]
        return self.unit.exception_matches(r.exc_type, names)

    def exec_For(self, node, env):
        it = self.iterate(self.eval(node.iter, env), node.lineno)
        if isinstance(it, SymIter):
            return self.symbolic_for(node, env, it)
        broke = False
        for item in it:
            self.assign(node.target, item, env)
            try:
                self.exec_block(node.body, env)
            except _Continue:
                continue
            except _Break:
                broke = True
                break
        if not broke:
            self.exec_block(node.orelse, env)

    def symbolic_for(self, node, env, it):
        ordn = self.loop_ordinal.get('n', 0)
        self.loop_ordinal['n'] = ordn + 1
        key = (self.cur_func, ordn)
        spec = self.unit.loops.get(key)
        if spec is None:
            raise Unsupported(f'loop #{ordn} of {self.cur_func} has symbolic length and no invariant', node.lineno)
        ctx = self.ctx
        tag = f'{self.cur_func}.loop{ordn}'
        self.inv_mode = 'prove'
        for label, f in spec.invariant(self, env, 0):
            ctx.oblige(f'{tag}.init.{label}', f, kind='inv-init', line=node.lineno)
        n = it.length
        # every variable the body assigns and the contract does not carry has an unknown value at the head of an arbitrary
        # iteration and after the loop: poison it (a read is refused, a fresh assignment in the body clears it)
        targets = assigned_names([node.target])
        modified = {x for x in (assigned_names(node.body) | targets) if x not in spec.carried}
        mode = ctx.branch(ctx.fresh_bool(f'loop{ordn}_step'), node.lineno)
        if mode:
            k = ctx.fresh_int(f'loop{ordn}_k')
            ctx.assume(z3.And(k >= 0, to_z3(k < n)))
            for name in modified - targets:
                if env.has_local(name):
                    env.set(name, LoopPoison(tag))
            for name, maker in spec.carried.items():
                env.set(name, maker(self, env, k))
            self.inv_mode = 'assume'
            for label, f in spec.invariant(self, env, k):
                ctx.assume(f)
            self.inv_mode = 'prove'
            self.assign(node.target, it.item(k), env)
            try:
                self.exec_block(node.body, env)
            except _Continue:
                pass
            except _Break:
                if spec.on_break == 'exit-invariant':
                    # leaving early is justified iff the state already satisfies the invariant of the completed loop
                    for label, f in spec.invariant(self, env, n):
                        ctx.oblige(f'{tag}.break.{label}', f, kind='inv-break', line=node.lineno)
                    raise PathDone()
                if spec.on_break is not None:
                    for label, f in spec.on_break(self, env, k):
                        ctx.oblige(f'{tag}.break.{label}', f, kind='inv-break', line=node.lineno)
                    raise PathDone()
                return
            for label, f in spec.invariant(self, env, k + 1):
                ctx.oblige(f'{tag}.step.{label}', f, kind='inv-step', line=node.lineno)
            raise PathDone()
        for name in modified:
            if env.has_local(name) or name in targets:
                env.set(name, LoopPoison(tag))
        for name, maker in spec.carried.items():
            env.set(name, maker(self, env, n))
        self.inv_mode = 'assume'
        for label, f in spec.invariant(self, env, n):
            ctx.assume(f)
        self.inv_mode = 'prove'
        if node.orelse:
            self.exec_block(node.orelse, env)

    def exec_While(self, node, env):
        ordn = self.loop_ordinal.get('n', 0)
        self.loop_ordinal['n'] = ordn + 1
        spec = self.unit.loops.get((self.cur_func, ordn))
        if spec is None:
            raise Unsupported(f'while loop #{ordn} of {self.cur_func} without invariant', node.lineno)
        ctx = self.ctx
        tag = f'{self.cur_func}.loop{ordn}'
        for label, f in spec.invariant(self, env, None):
            ctx.oblige(f'{tag}.init.{label}', f, kind='inv-init', line=node.lineno)
        mode = ctx.branch(ctx.fresh_bool(f'loop{ordn}_step'), node.lineno)
        for name in assigned_names(node.body):
            if name not in spec.carried and env.has_local(name):
                env.set(name, LoopPoison(tag))
        for name, maker in spec.carried.items():
            env.set(name, maker(self, env, None))
        for label, f in spec.invariant(self, env, None):
            ctx.assume(f)
        c = self.truth(self.eval(node.test, env))
        if mode:
            ctx.assume(to_z3(c))
            try:
                self.exec_block(node.body, env)
            except _Continue:
                pass
            except _Break:
                return
            for label, f in spec.invariant(self, env, 'step'):
                ctx.oblige(f'{tag}.step.{label}', f, kind='inv-step', line=node.lineno)
            raise PathDone()
        ctx.assume(to_z3(z_not(c)))

    # ------------------------------------------------------------------------------------------
    # assignment targets
    # ------------------------------------------------------------------------------------------
    def assign(self, target, val, env):
        if isinstance(target, ast.Name):
            env.set(target.id, val)
        elif isinstance(target, (ast.Tuple, ast.List)):
            items = self.unpack(val, len(target.elts), target.lineno)
            for t, v in zip(target.elts, items):
                self.assign(t, v, env)
        elif isinstance(target, ast.Attribute):
            base = self.eval(target.value, env)
            if isinstance(base, SOpt):
                base = base.payload  # guarded by the truth test of the optional on this path
            if isinstance(base, SObj):
                base.set(target.attr, val)
            elif isinstance(base, STensor) and target.attr == 'shape':
                raise Unsupported('assignment to .shape')
            else:
                raise Unsupported(f'attribute store on {type(base).__name__}')
        elif isinstance(target, ast.Subscript):
            base = self.eval(target.value, env)
            idx = self.eval(target.slice, env)
            self.store(base, idx, val, target.lineno)
        else:
            raise Unsupported(f'assignment target {type(target).__name__}')

    def unpack(self, val, n, line):
        if isinstance(val, (tuple, list)):
            if len(val) != n:
                raise _Raise('ValueError', line=line)
            return list(val)
        if isinstance(val, STensor):
            d0 = val.shape[0]
            if is_sym(d0):
                self.ctx.oblige(f'{self.cur_func}.unpack@{line}', to_z3(d0) == n, kind='shape', line=line)
                self.ctx.assume(to_z3(d0) == n)
            elif d0 != n:
                raise _Raise('ValueError', line=line)
            return [self.unit.np.index(self, val, i, line, check=False) for i in range(n)]
        if isinstance(val, SRow) and n == len(val.fields):
            return list(val.fields.values())
        raise Unsupported(f'unpack of {type(val).__name__}')

    def store(self, base, idx, val, line):
        if isinstance(base, STensor):
            return self.unit.np.store(self, base, idx, val, line)
        if isinstance(base, SFrame):
            if isinstance(idx, str):
                if isinstance(val, STensor):
                    tok = getattr(val, 'index_of', None)
                    if tok is not None and tok is not base.index_token and not (tok == 'range' and base.index_token == 'range'):
                        # frame[col] = <Series of a frame with another index>: pandas aligns on the index labels (missing labels -> NaN), which is
                        # not the positional assignment modelled here
                        raise Unsupported('assignment of a Series that carries another index (pandas aligns on labels, not on positions)')
                    base.columns[idx] = val
                else:
                    v = val
                    base.columns[idx] = STensor((base.nrows,), lambda i: v, V.scalar_dtype(v))
                return
            raise Unsupported('frame store with non-string key')
        if isinstance(base, SRow):
            if not isinstance(idx, str):
                raise Unsupported('row store with non-string key')
            base.fields[idx] = val
            return
        if isinstance(base, (dict, list)):
            if is_concrete(idx):
                base[idx] = val
                return
            raise Unsupported('symbolic key into a python container')
        h = self.unit.store_hook(self, base, idx, val, line)
        if h is NotImplemented:
            raise Unsupported(f'subscript store on {type(base).__name__}')

    # ------------------------------------------------------------------------------------------
    # expressions
    # ------------------------------------------------------------------------------------------
    def eval(self, node, env):
        m = getattr(self, 'eval_' + type(node).__name__, None)
        if m is None:
            raise Unsupported(f'expression {type(node).__name__}', getattr(node, 'lineno', None))
        try:
            return m(node, env)
        except Unsupported as e:
            if e.line is None:
                e.line = getattr(node, 'lineno', None)
            raise

    def eval_Constant(self, node, env):
        return node.value

    def eval_Name(self, node, env):
        return env.get(node.id, self)

    def eval_Tuple(self, node, env):
        out = []
        for e in node.elts:
            if isinstance(e, ast.Starred):
                out.extend(self.iterate_concrete(self.eval(e.value, env)))
            else:
                out.append(self.eval(e, env))
        return tuple(out)

    def eval_List(self, node, env):
        return list(self.eval_Tuple(node, env))

    def eval_Set(self, node, env):
        return set(self.eval_Tuple(node, env))

    def eval_Dict(self, node, env):
        d = {}
        for k, v in zip(node.keys, node.values):
            if k is None:
                d.update(self.eval(v, env))
            else:
                d[self.eval(k, env)] = self.eval(v, env)
        return d

    def eval_JoinedStr(self, node, env):
        return '<fstring>'

    def eval_Lambda(self, node, env):
        return Closure(node, env, self)

    def eval_IfExp(self, node, env):
        c = self.truth(self.eval(node.test, env))
        if isinstance(c, bool):
            return self.eval(node.body if c else node.orelse, env)
        if self.ctx.branch(c, node.lineno):
            return self.eval(node.body, env)
        return self.eval(node.orelse, env)

    def eval_BoolOp(self, node, env):
        is_and = isinstance(node.op, ast.And)
        val = None
        for i, e in enumerate(node.values):
            val = self.eval(e, env)
            if i == len(node.values) - 1:
                return val
            t = self.truth(val)
            b = self.ctx.branch(t, node.lineno)
            if is_and and not b:
                return val if not is_sym(val) else False
            if not is_and and b:
                return val if not is_sym(val) else True
        return val

    def eval_UnaryOp(self, node, env):
        v = self.eval(node.operand, env)
        if isinstance(node.op, ast.Not):
            return z_not(self.truth(v))
        if isinstance(node.op, ast.USub):
            if isinstance(v, STensor):
                return v.map(lambda x: binop('-', 0, x))
            return binop('-', 0, v) if is_sym(v) else -v
        if isinstance(node.op, ast.UAdd):
            return v
        if isinstance(node.op, ast.Invert):
            if isinstance(v, STensor) and v.dtype == 'bool':
                return v.map(z_not)
            if isinstance(v, (bool, np.bool_)):
                raise Unsupported('~ on python bool')
            if V.is_bool_like(v):
                return z_not(v)
        raise Unsupported(f'unary {type(node.op).__name__}')

    def eval_BinOp(self, node, env):
        a = self.eval(node.left, env)
        b = self.eval(node.right, env)
        if isinstance(node.op, ast.BitOr) and _is_typeref(a) and _is_typeref(b):
            return (a if isinstance(a, tuple) else (a,)) + (b if isinstance(b, tuple) else (b,))  # X | Y in isinstance()
        if isinstance(node.op, (ast.BitAnd, ast.BitOr)):
            f = z_and if isinstance(node.op, ast.BitAnd) else z_or
            if isinstance(a, STensor) or isinstance(b, STensor):
                return V.elementwise(self.ctx, lambda x, y: f(x, y), a, b, dtype='bool', line=node.lineno)
            if V.is_bool_like(a) and V.is_bool_like(b):
                return f(a, b)
            if is_concrete(a) and is_concrete(b):
                return (a & b) if isinstance(node.op, ast.BitAnd) else (a | b)
            raise Unsupported('bit operation on terms')
        op = BIN.get(type(node.op))
        if op is None:
            if isinstance(node.op, ast.MatMult):
                return self.unit.np.call(self, 'numpy.dot', [a, b], {}, node.lineno)
            raise Unsupported(f'binary {type(node.op).__name__}')
        return self.binary(op, a, b, node.lineno)

    def binary(self, op, a, b, line=None):
        a, b = pyval(a), pyval(b)
        if getattr(a, 'hooked', False) or getattr(b, 'hooked', False):
            h = self.unit.binary_hook(self, op, a, b, line)
            if h is not NotImplemented:
                return h
        if isinstance(a, (int, float, Fraction)) and isinstance(b, (int, float, Fraction)) and not isinstance(a, bool) \
                and not isinstance(b, bool) and (isinstance(a, (float, Fraction)) or isinstance(b, (float, Fraction)) or op == '/'):
            # A-REAL: a float literal denotes the real number written in the source; concrete float arithmetic is exact
            fa, fb = V.exact(a), V.exact(b)
            try:
                if op == '**':
                    if isinstance(b, int) or fb.denominator == 1:
                        return fa ** int(fb)
                    raise Unsupported('non-integer power of constants')
                return {'+': operator.add, '-': operator.sub, '*': operator.mul, '/': operator.truediv,
                        '//': lambda x, y: Fraction(x // y), '%': operator.mod}[op](fa, fb)
            except ZeroDivisionError:
                raise _Raise('ZeroDivisionError', line=line)
        if isinstance(a, np.ndarray) and isinstance(b, np.ndarray) or (
                is_concrete(a) and is_concrete(b) and not isinstance(a, STensor) and not isinstance(b, STensor)):
            try:
                return {'+': operator.add, '-': operator.sub, '*': operator.mul, '/': operator.truediv,
                        '//': operator.floordiv, '%': operator.mod, '**': operator.pow}[op](a, b)
            except ZeroDivisionError:
                raise _Raise('ZeroDivisionError', line=line)
        if isinstance(a, (STensor, np.ndarray)) or isinstance(b, (STensor, np.ndarray)):
            a2 = as_tensor(a) if isinstance(a, (STensor, np.ndarray, list, tuple)) else a
            b2 = as_tensor(b) if isinstance(b, (STensor, np.ndarray, list, tuple)) else b
            f = lambda x, y: binop(op, x, y)  # noqa: E731  (numpy array division never raises: inf/nan + warning)
            if self.ctx.ghost.get('fp_standard_model') and op in ('*', '/'):
                f = self.fp_wrap(op, line)
            res_ = V.elementwise(self.ctx, f, a2, b2, dtype='real' if op == '/' else None, line=line)
            toks = [getattr(x, 'index_of', None) for x in (a, b) if isinstance(x, STensor)]
            toks = [t_ for t_ in toks if t_ is not None]
            if toks and isinstance(res_, STensor):
                if any(t_ is not toks[0] and t_ != toks[0] for t_ in toks[1:]):
                    raise Unsupported('arithmetic between Series of frames with different indices (pandas aligns on labels)')
                res_.index_of = toks[0]
            return res_
        if isinstance(a, (list, tuple)) and isinstance(b, (list, tuple)) and op == '+':
            return a + b
        if isinstance(a, list) and isinstance(b, SSeq) and op == '+':
            na, bf, pre = len(a), b.fn, list(a)

            def cat(j):
                if not is_sym(j):
                    return pre[j] if j < na else bf(j - na)
                out = bf(binop('-', j, na))
                for q in range(na - 1, -1, -1):
                    out = z_ite(cmpop('==', j, q), pre[q], out)
                return out
            return SSeq(binop('+', na, b.length), cat)
        if isinstance(a, (list, tuple)) and op == '*' and isinstance(b, int):
            return a * b
        if isinstance(a, str) and op == '+':
            return a + b
        if isinstance(a, str) and op == '%':
            return '<fmt>'
        hook = self.unit.binary_hook(self, op, a, b, line)
        if hook is not NotImplemented:
            return hook
        if op in ('/', '//', '%'):
            self.division_guard(b, line)
        if self.ctx.ghost.get('fp_standard_model') and op in ('*', '/'):
            return self.fp_wrap(op, line)(a, b)
        return binop(op, a, b)

    def fp_wrap(self, op, line):
        """Standard model of binary64 rounding: fl(x op y) = (x op y)(1 + d), |d| <= 2^-53 (one d per evaluated operand pair)."""
        ctx = self.ctx
        cache = ctx.ghost.setdefault('fp_cache', {})
        ctx.use('IEEE-754 standard model: fl(x op y) = (x op y)(1+d), |d| <= 2^-53, for * and / (no overflow/underflow)')

        def f(x, y):
            r = binop(op, x, y)
            if not (V.is_real_like(r) and is_sym(r)):
                return r
            key = (op, line, to_z3(x).sexpr() if is_sym(x) else repr(x), to_z3(y).sexpr() if is_sym(y) else repr(y))
            d = cache.get(key)
            if d is None:
                d = ctx.fresh_real('fp_delta')
                eps = z3.RealVal(1) / z3.RealVal(2 ** 53)
                ctx.assume(z3.And(d >= -eps, d <= eps))
                cache[key] = d
            return r * (1 + d)
        return f

    def division_guard(self, b, line):
        if isinstance(b, STensor):
            return  # numpy array division yields inf/nan with a warning, not an exception (A-REAL ignores it)
        b = pyval(b)
        if is_sym(b):
            nz = b != 0
            self.ctx.oblige(f'{self.cur_func}.div@{line}', nz, kind='division', line=line)
            self.ctx.assume(nz)
        elif b == 0:
            raise _Raise('ZeroDivisionError', line=line)

    def eval_Compare(self, node, env):
        left = self.eval(node.left, env)
        result = True
        for op, rnode in zip(node.ops, node.comparators):
            right = self.eval(rnode, env)
            r = self.compare(op, left, right, node.lineno)
            result = r if result is True else self.and_values(result, r)
            left = right
        return result

    def and_values(self, a, b):
        if isinstance(a, STensor) or isinstance(b, STensor):
            return V.elementwise(self.ctx, z_and, a, b, dtype='bool')
        return z_and(a, b) if any_sym(a, b) else (a and b)

    def compare(self, op, a, b, line):
        if isinstance(op, (ast.Is, ast.IsNot)):
            if isinstance(a, SOpt) and b is None:
                r = a.is_none
            elif isinstance(b, SOpt) and a is None:
                r = b.is_none
            elif b is None or a is None:
                r = a is b
            else:
                r = a is b
            return r if isinstance(op, ast.Is) else z_not(r)
        if isinstance(op, (ast.In, ast.NotIn)):
            r = self.contains(b, a, line)
            return r if isinstance(op, ast.In) else z_not(r)
        o = CMP[type(op)]
        if isinstance(a, (STensor, np.ndarray)) or isinstance(b, (STensor, np.ndarray)):
            if is_concrete(a) and is_concrete(b):
                return {'==': operator.eq, '!=': operator.ne, '<': operator.lt, '<=': operator.le,
                        '>': operator.gt, '>=': operator.ge}[o](a, b)
            return V.elementwise(self.ctx, lambda x, y: cmpop(o, x, y), a, b, dtype='bool', line=line)
        if isinstance(a, tuple) and isinstance(b, tuple) and o in ('==', '!='):
            if len(a) != len(b):
                return o == '!='
            eq = z_and(*[cmpop('==', x, y) for x, y in zip(a, b)])
            return eq if o == '==' else z_not(eq)
        hook = self.unit.compare_hook(self, o, a, b, line)
        if hook is not NotImplemented:
            return hook
        if is_concrete(a) and is_concrete(b):
            return {'==': operator.eq, '!=': operator.ne, '<': operator.lt, '<=': operator.le,
                    '>': operator.gt, '>=': operator.ge}[o](a, b)
        return cmpop(o, a, b)

    def contains(self, container, item, line):
        hook = self.unit.contains_hook(self, container, item, line)
        if hook is not NotImplemented:
            return hook
        if isinstance(container, (list, tuple, set, frozenset, dict, str)) and is_concrete(item) and is_concrete(container):
            return item in container
        if isinstance(container, (list, tuple, set, frozenset)):
            return z_or(*[self.truth(self.compare(ast.Eq(), item, c, line)) for c in container])
        hook = self.unit.contains_hook(self, container, item, line)
        if hook is not NotImplemented:
            return hook
        raise Unsupported(f'membership in {type(container).__name__}')

    def truth(self, v):
        v = pyval(v)
        if isinstance(v, bool):
            return v
        if is_sym(v):
            return V.to_bool(v)
        if v is None:
            return False
        if isinstance(v, SOpt):
            return z_not(v.is_none)
        if isinstance(v, (int, float, str, list, tuple, dict, set)):
            return bool(v)
        if isinstance(v, STensor):
            if v.ndim == 0:
                return self.truth(v.at())
            raise Unsupported('truth value of an array')
        if isinstance(v, SSeq):
            return cmpop('>', v.length, 0)
        if isinstance(v, (SObj, SRow, SFrame, LibRef, FuncRef, Closure, ClassRef)):
            h = self.unit.truth_hook(self, v)
            if h is not NotImplemented:
                return h
            return True
        if isinstance(v, np.ndarray):
            return bool(v)
        return bool(v)

    def eval_Attribute(self, node, env):
        base = self.eval(node.value, env)
        return self.getattr(base, node.attr, node.lineno)

    def getattr(self, base, attr, line=None):
        if isinstance(base, SOpt):
            base = base.payload
        if isinstance(base, LibRef):
            if attr == 'pi' and base.dotted in ('np', 'numpy', 'math'):
                return self.unit.pi(self.ctx)
            if attr == 'newaxis' and base.dotted in ('np', 'numpy'):
                return None
            return LibRef(base.dotted + '.' + attr)
        if isinstance(base, STensor):
            return self.unit.np.tensor_attr(self, base, attr, line)
        if isinstance(base, SObj):
            if base.has(attr):
                return base.get(attr)
            return self.unit.obj_attr(self, base, attr, line)
        if isinstance(base, SFrame):
            return BoundLib('frame.' + attr, base)
        if isinstance(base, SRow):
            return BoundLib('row.' + attr, base)
        if isinstance(base, SSeq):
            return BoundLib('seq.' + attr, base)
        if isinstance(base, ClassRef):
            for cmod, cname in (self.unit.class_chain(base.name) or [(base.module, base.name)]):
                fi = self.sources.function(cmod, f'{cname}.{attr}')
                if fi is not None:
                    return FuncRef(cmod, f'{cname}.{attr}', bound_self=base if fi.is_classmethod else None)
            fi = None
            const = self.sources.class_const(self, base.module, base.name, attr)
            if const is not NotImplemented:
                return const
            raise Unsupported(f'class attribute {base.name}.{attr}')
        if isinstance(base, (list, dict, tuple, str, set, slice)):
            return BoundPy(base, attr)
        if isinstance(base, np.ndarray):
            v = getattr(base, attr)
            return v
        if is_sym(base):
            if attr == 'real':
                return base
            return BoundLib('scalar.' + attr, base)
        if isinstance(base, (int, float)):
            return getattr(base, attr)
        h = self.unit.generic_attr(self, base, attr, line)
        if h is not NotImplemented:
            return h
        raise Unsupported(f'attribute .{attr} of {type(base).__name__}')

    def eval_Subscript(self, node, env):
        base = self.eval(node.value, env)
        idx = self.eval(node.slice, env)
        return self.subscript(base, idx, node.lineno)

    def eval_Slice(self, node, env):
        return slice(self.eval(node.lower, env) if node.lower else None,
                     self.eval(node.upper, env) if node.upper else None,
                     self.eval(node.step, env) if node.step else None)

    def subscript(self, base, idx, line):
        if isinstance(base, SOpt):
            base = base.payload  # guarded by the `is not None` test of the optional on this path
        if isinstance(base, (STensor, np.ndarray)) and not (isinstance(base, np.ndarray) and is_concrete(idx)):
            return self.unit.np.index(self, as_tensor(base), idx, line)
        if isinstance(base, SFrame):
            return self.unit.pd.frame_index(self, base, idx, line)
        if isinstance(base, SRow):
            if isinstance(idx, str):
                if idx not in base.fields:
                    raise _Raise('KeyError', line=line)
                return base.fields[idx]
            raise Unsupported('row subscript')
        if isinstance(base, (list, tuple)):
            if isinstance(idx, slice) and is_concrete(idx):
                return base[idx]
            idx = pyval(idx)
            if isinstance(idx, int):
                if not (-len(base) <= idx < len(base)):
                    raise _Raise('IndexError', line=line)
                return base[idx]
            if is_sym(idx):
                n = len(base)
                ok = z3.And(idx >= -n, idx < n)
                self.ctx.oblige(f'{self.cur_func}.index@{line}', ok, kind='index', line=line)
                self.ctx.assume(ok)
                j = z3.If(idx < 0, idx + n, idx)
                if all(not isinstance(e, (STensor, SObj, SRow, tuple, list)) for e in base):
                    out = base[-1]
                    for q in range(n - 2, -1, -1):
                        out = z_ite(j == q, base[q], out)
                    return out
                h = self.unit.list_index_hook(self, base, j, line)
                if h is not NotImplemented:
                    return h
                raise Unsupported('symbolic index into heterogeneous list')
            raise Unsupported('list index')
        if isinstance(base, dict):
            if is_concrete(idx):
                if idx not in base:
                    if hasattr(base, 'default_factory') and base.default_factory is not None:
                        return base[idx]
                    raise _Raise('KeyError', line=line)
                return base[idx]
            h = self.unit.dict_index_hook(self, base, idx, line)
            if h is not NotImplemented:
                return h
            raise Unsupported('symbolic key into dict')
        if isinstance(base, SSeq):
            return self.unit.seq_index(self, base, idx, line)
        if isinstance(base, str) and is_concrete(idx):
            return base[idx]
        h = self.unit.subscript_hook(self, base, idx, line)
        if h is not NotImplemented:
            return h
        raise Unsupported(f'subscript on {type(base).__name__}')

    # -- comprehensions ------------------------------------------------------------------------
    def eval_ListComp(self, node, env):
        return self.comprehension(node, env, 'list')

    def eval_GeneratorExp(self, node, env):
        return self.comprehension(node, env, 'list')

    def eval_SetComp(self, node, env):
        r = self.comprehension(node, env, 'list')
        if isinstance(r, list) and is_concrete(r):
            return set(r)
        return r

    def eval_DictComp(self, node, env):
        gens = node.generators
        if len(gens) != 1:
            raise Unsupported('nested dict comprehension')
        g = gens[0]
        it = self.iterate(self.eval(g.iter, env), node.lineno)
        if isinstance(it, SymIter):
            raise Unsupported('dict comprehension over symbolic-length iterable')
        out = {}
        for item in it:
            e2 = Env(env)
            self.assign(g.target, item, e2)
            if all(self.ctx.branch(self.truth(self.eval(c, e2)), node.lineno) for c in g.ifs):
                out[self.eval(node.key, e2)] = self.eval(node.value, e2)
        return out

    def comprehension(self, node, env, kind):
        gens = node.generators

        def rec(gi, e):
            if gi == len(gens):
                return [self.eval(node.elt, e)]
            g = gens[gi]
            it = self.iterate(self.eval(g.iter, e), node.lineno)
            if isinstance(it, SymIter):
                if gi != len(gens) - 1 or len(gens) != 1:
                    raise Unsupported('nested comprehension over symbolic-length iterable')
                return self.symbolic_comprehension(node, g, it, e)
            out = []
            for item in it:
                e2 = Env(e)
                self.assign(g.target, item, e2)
                if all(self.ctx.branch(self.truth(self.eval(c, e2)), node.lineno) for c in g.ifs):
                    r = rec(gi + 1, e2)
                    if isinstance(r, SSeq):
                        raise Unsupported('symbolic inner comprehension')
                    out.extend(r)
            return out
        return rec(0, env)

    def symbolic_comprehension(self, node, g, it, env):
        if g.ifs:
            h = self.unit.filter_comprehension(self, node, g, it, env)
            if h is not NotImplemented:
                return h
            raise Unsupported('filtered comprehension over symbolic-length iterable')
        interp = self
        cache = []  # (index term, object): list elements are objects with identity (frames may be mutated in place later)
        # obligations of the element expression are generated once, for a Skolem index in range; later (lazy) evaluations of
        # the element at other index terms do not emit obligations again
        ctx = self.ctx
        k0 = ctx.fresh_int('comp_k')
        nh = len(ctx.hyps)
        ctx.hyps.append(z3.And(k0 >= 0, to_z3(cmpop('<', k0, it.length))))
        if ctx.feasible():
            e0 = Env(env)
            self.assign(g.target, it.item(k0), e0)
            self.eval(node.elt, e0)
        del ctx.hyps[nh]

        def item(k):
            ctx.suppress_obligations = getattr(ctx, 'suppress_obligations', 0) + 1
            try:
                return item_inner(k)
            finally:
                ctx.suppress_obligations -= 1

        def item_inner(k):
            kz = to_z3(k)
            for key, obj in cache:
                if kz.eq(key):
                    return obj
            if not isinstance(k, z3.QuantifierRef):
                for key, obj in cache:
                    if not (z3.is_var(kz) or _has_bound_var(kz)) and interp.ctx.branch(kz == key):
                        return obj
            e2 = Env(env)
            interp.assign(g.target, it.item(k), e2)
            obj = interp.eval(node.elt, e2)
            if isinstance(obj, (SFrame, SObj, SRow)) and not _has_bound_var(kz):
                cache.append((kz, obj))
            return obj
        return SSeq(it.length, item)

    # -- iteration -----------------------------------------------------------------------------
    def iterate_concrete(self, v):
        it = self.iterate(v, None)
        if isinstance(it, SymIter):
            raise Unsupported('starred symbolic-length iterable')
        return list(it)

    def iterate(self, v, line):
        if isinstance(v, (list, tuple, set, frozenset, str, range)):
            return list(v)
        if isinstance(v, dict):
            return list(v.keys())
        if isinstance(v, np.ndarray):
            return [x if isinstance(x, np.ndarray) else pyval(x) for x in v]
        if isinstance(v, SymIter):
            return v
        if isinstance(v, STensor):
            n = v.shape[0]
            if not is_sym(n):
                return [self.unit.np.index(self, v, i, line, check=False) for i in range(n)]
            return SymIter(n, lambda k: self.unit.np.index(self, v, k, line, check=False))
        if isinstance(v, SSeq):
            if not is_sym(v.length):
                return [v.fn(i) for i in range(v.length)]
            return SymIter(v.length, v.fn)
        h = self.unit.iterate_hook(self, v, line)
        if h is not NotImplemented:
            return h
        raise Unsupported(f'iteration over {type(v).__name__}')

    # -- calls -----------------------------------------------------------------------------------
    def eval_Call(self, node, env):
        f = self.eval(node.func, env)
        args = []
        for a in node.args:
            if isinstance(a, ast.Starred):
                args.extend(self.iterate_concrete(self.eval(a.value, env)))
            else:
                args.append(self.eval(a, env))
        kwargs = {}
        for kw in node.keywords:
            if kw.arg is None:
                kwargs.update(self.eval(kw.value, env))
            else:
                kwargs[kw.arg] = self.eval(kw.value, env)
        return self.call(f, args, kwargs, node.lineno)

    def call(self, f, args, kwargs, line):
        if isinstance(f, FuncRef):
            return self.call_qual(f.module, f.qualname, args, kwargs, bound_self=f.bound_self)
        if isinstance(f, Closure):
            return self.call_closure(f, args, kwargs)
        if isinstance(f, LibRef):
            return self.unit.call_lib(self, f.dotted, args, kwargs, line)
        if isinstance(f, BoundLib):
            return self.unit.call_bound(self, f.name, f.base, args, kwargs, line)
        if isinstance(f, BoundPy):
            return self.call_py_method(f.base, f.attr, args, kwargs, line)
        if isinstance(f, ClassRef):
            return self.unit.construct(self, f, args, kwargs, line)
        if isinstance(f, PyFn):
            return f.fn(self, line, *args, **kwargs)
        if isinstance(f, BuiltinRef):
            return self.call_builtin(f.name, args, kwargs, line)
        h = self.unit.call_hook(self, f, args, kwargs, line)
        if h is not NotImplemented:
            return h
        if callable(f) and is_concrete(args) and is_concrete(kwargs):
            return f(*args, **kwargs)
        raise Unsupported(f'call of {f!r}')

    def call_closure(self, c, args, kwargs):
        node = c.node
        a = node.args
        env = Env(c.env)
        params = [p.arg for p in a.args]
        defaults = a.defaults
        nd = len(params) - len(defaults)
        kwargs = dict(kwargs)
        for i, p in enumerate(params):
            if i < len(args):
                env.set(p, args[i])
            elif p in kwargs:
                env.set(p, kwargs.pop(p))
            elif i >= nd:
                env.set(p, self.eval(defaults[i - nd], c.env))
            else:
                raise Unsupported('closure missing arg')
        if a.vararg:
            env.set(a.vararg.arg, tuple(args[len(params):]))
        elif len(args) > len(params):
            raise Unsupported('closure: too many positional arguments')
        if a.kwarg:
            env.set(a.kwarg.arg, kwargs)
        if isinstance(node, ast.Lambda):
            return self.eval(node.body, env)
        try:
            self.exec_block(node.body, env)
        except _Return as r:
            return r.value
        return None

    def call_py_method(self, base, attr, args, kwargs, line):
        if isinstance(base, list):
            if attr == 'append':
                base.append(args[0])
                return None
            if attr == 'extend':
                base.extend(self.iterate_concrete(args[0]))
                return None
            if attr == 'index' and is_concrete(base) and is_concrete(args):
                try:
                    return base.index(*args)
                except ValueError:
                    raise _Raise('ValueError', line=line)
        if isinstance(base, dict):
            if attr == 'items':
                return list(base.items())
            if attr == 'values':
                return list(base.values())
            if attr == 'keys':
                return list(base.keys())
            if attr == 'get':
                if is_concrete(args[0]):
                    return base.get(*args)
                h = self.unit.dict_index_hook(self, base, args[0], line, default=(args[1] if len(args) > 1 else None))
                if h is not NotImplemented:
                    return h
            if attr == 'setdefault' and is_concrete(args[0]):
                return base.setdefault(*args)
            if attr == 'update':
                base.update(*args, **kwargs)
                return None
        if isinstance(base, set):
            if attr == 'add':
                base.add(args[0])
                return None
        if isinstance(base, slice) and attr == 'indices':
            from .npmodel import _clamp_slice
            n = args[0]
            if base.step not in (None, 1):
                raise Unsupported('slice.indices with a step')
            start, length = _clamp_slice(base, n)
            return (start, binop('+', start, length), 1)
        if isinstance(base, str) and is_concrete(args):
            return getattr(base, attr)(*args, **kwargs)
        if is_concrete(base) and is_concrete(args) and is_concrete(kwargs):
            return getattr(base, attr)(*args, **kwargs)
        raise Unsupported(f'method {type(base).__name__}.{attr}')

    def call_builtin(self, name, args, kwargs, line):
        a0 = args[0] if args else None
        if name == 'len':
            if isinstance(a0, STensor):
                if a0.ndim == 0:
                    raise _Raise('TypeError', line=line)
                return a0.shape[0]
            if isinstance(a0, SFrame):
                return a0.nrows
            if isinstance(a0, SSeq):
                return a0.length
            if isinstance(a0, (list, tuple, dict, str, set, np.ndarray)):
                return len(a0)
            h = self.unit.len_hook(self, a0, line)
            if h is not NotImplemented:
                return h
            raise Unsupported(f'len of {type(a0).__name__}')
        if name == 'range':
            if is_concrete(args):
                return range(*args)
            if len(args) == 3 and not is_sym(args[2]) and args[2] == 1:
                args = args[:2]
            if len(args) == 1:
                return SymIter(args[0], lambda k: k)
            if len(args) == 2:
                lo, hi = args
                return SymIter(z_ite(cmpop('>', hi, lo), binop('-', hi, lo), 0), lambda k: binop('+', lo, k))
            raise Unsupported('range with symbolic step')
        if name == 'enumerate':
            it = self.iterate(a0, line)
            if isinstance(it, SymIter):
                return SymIter(it.length, lambda k: (k, it.item(k)))
            return list(enumerate(it))
        if name == 'zip':
            its = [self.iterate(a, line) for a in args]
            if any(isinstance(i, SymIter) for i in its):
                if not all(isinstance(i, SymIter) for i in its):
                    raise Unsupported('zip of symbolic and concrete iterables')
                n = its[0].length
                for o in its[1:]:
                    e = V.dim_eq(n, o.length)
                    if e is not True:
                        # zip truncates to the shortest; keep it exact
                        n = V.z_min(n, o.length)
                return SymIter(n, lambda k: tuple(i.item(k) for i in its))
            return list(zip(*its))
        if name in ('list', 'tuple'):
            if not args:
                return [] if name == 'list' else ()
            if isinstance(a0, SSeq):
                return a0
            if isinstance(a0, SymIter):
                return SSeq(a0.length, a0.item)
            it = self.iterate(a0, line)
            if isinstance(it, SymIter):
                return SSeq(it.length, it.item)
            return list(it) if name == 'list' else tuple(it)
        if name == 'set':
            if not args:
                return set()
            if is_concrete(a0):
                return set(a0)
            h = self.unit.set_hook(self, a0, line)
            if h is not NotImplemented:
                return h
            raise Unsupported('set of symbolic')
        if name == 'dict':
            if len(args) == 1 and not kwargs and isinstance(a0, (SymIter, SSeq)):
                # dict(zip(keys, values)) over a symbolic number of pairs: a finite map, looked up with .get / [] (the LAST pair with the key counts)
                it = self.iterate(a0, line)
                if isinstance(it, SymIter):
                    return self.unit.sym_dict(self, it, line)
            if not args and is_concrete(kwargs):
                return dict(**kwargs)
            if is_concrete(args):
                return dict(*args, **kwargs)
            return dict(*args, **kwargs)
        if name == 'isinstance':
            return self.unit.isinstance(self, a0, args[1], line)
        if name == 'hasattr':
            if isinstance(a0, SObj):
                return a0.has(args[1]) or self.unit.obj_has_attr(self, a0, args[1])
            return hasattr(a0, args[1])
        if name in ('int', 'float'):
            v = pyval(a0)
            if isinstance(v, STensor) and v.ndim == 0:
                v = v.at()
            if not is_sym(v):
                return int(v) if name == 'int' else float(v)
            if name == 'float':
                return V.to_real(v)
            if z3.is_int(v):
                return v
            # int() truncates toward zero
            return z3.If(v >= 0, z3.ToInt(v), -z3.ToInt(-v))
        if name == 'abs':
            if isinstance(a0, STensor):
                return a0.map(V.z_abs)
            return V.z_abs(a0)
        if name in ('min', 'max'):
            vals = list(args) if len(args) > 1 else self.iterate(a0, line)
            if isinstance(vals, SymIter):
                raise Unsupported(f'{name} over symbolic-length iterable')
            if 'key' in kwargs:
                raise Unsupported(f'{name} with key')
            f = V.z_min if name == 'min' else V.z_max
            out = vals[0]
            for v in vals[1:]:
                out = f(out, v)
            return out
        if name == 'sum':
            it = self.iterate(a0, line)
            if isinstance(it, SymIter):
                return self.unit.np.sum_iter(self, it, line)
            out = args[1] if len(args) > 1 else 0
            for v in it:
                out = self.binary('+', out, v, line)
            return out
        if name == 'any' or name == 'all':
            it = self.iterate(a0, line)
            if isinstance(it, SymIter):
                raise Unsupported(f'{name} over symbolic-length iterable')
            vals = [self.truth(v) for v in it]
            return (z_or if name == 'any' else z_and)(*vals) if any_sym(*vals) else (any if name == 'any' else all)(vals)
        if name == 'print':
            return None
        if name == 'str':
            return str(a0) if is_concrete(a0) else '<str>'
        if name == 'bool':
            return self.truth(a0)
        if name == 'sorted' and is_concrete(args) and 'key' not in kwargs:
            return sorted(a0)
        if name == 'tuple':
            return tuple(self.iterate_concrete(a0))
        if name == 'super':
            return self.unit.super_hook(self, line)
        if name == 'open':
            return self.unit.call_lib(self, 'builtins.open', args, kwargs, line)
        if name in ('ValueError', 'IndexError', 'KeyError', 'AttributeError', 'Exception', 'NotImplementedError',
                    'IOError', 'TypeError'):
            return SObj('exception', type=name)
        if name == 'round':
            if is_concrete(args):
                return round(*args)
            if len(args) == 1:
                r = self.unit.np.f_around(self, line, a0)
                return z3.ToInt(r) if is_sym(r) else r
        if name == 'type':
            if isinstance(a0, SObj):
                home = self.unit.CLASS_HOME.get(a0._cls)
                if home:
                    return ClassRef(home, a0._cls)
            return SObj('type', of=a0)
        raise Unsupported(f'builtin {name}')


def _is_typeref(x):
    if isinstance(x, tuple):
        return all(_is_typeref(e) for e in x)
    return isinstance(x, (BuiltinRef, LibRef, ClassRef))


def _has_bound_var(e):
    todo = [e]
    while todo:
        x = todo.pop()
        if z3.is_var(x):
            return True
        if z3.is_app(x):
            todo.extend(x.children())
    return False


class BoundLib:
    def __init__(self, name, base):
        self.name = name
        self.base = base


class BoundPy:
    def __init__(self, base, attr):
        self.base = base
        self.attr = attr


class BuiltinRef:
    def __init__(self, name):
        self.name = name


class LoopPoison:
    """Value of a variable that a symbolic loop assigns but the loop contract does not describe (sound havoc: any read is refused)."""

    def __init__(self, loop):
        self.loop = loop


def assigned_names(stmts):
    out = set()
    for st in stmts:
        for n in ast.walk(st):
            if isinstance(n, ast.Name) and isinstance(n.ctx, (ast.Store, ast.Del)):
                out.add(n.id)
    return out


class Env:
    def has_local(self, name):
        e = self
        while e is not None:
            if name in e.vars:
                return True
            e = e.parent
        return False

    def __init__(self, parent=None):
        self.vars = {}
        self.parent = parent

    def set(self, name, val):
        self.vars[name] = val

    def get(self, name, interp):
        e = self
        while e is not None:
            if name in e.vars:
                v = e.vars[name]
                if isinstance(v, LoopPoison):
                    raise Unsupported(f'variable {name} is modified by loop {v.loop} but has no carried maker in the loop contract: its value here is unknown')
                return v
            e = e.parent
        if hasattr(builtins, name):
            if name in ('None', 'True', 'False'):
                return getattr(builtins, name)
            return BuiltinRef(name)
        raise Unsupported(f'unbound name {name}')

"""Native replay of a counter-model (or of a recorded known-finding witness) against the real code."""
from __future__ import annotations

import importlib
import json
import os
import sys
import traceback

ROOT = os.path.dirname(os.path.dirname(os.path.dirname(os.path.abspath(__file__))))


def call_replay(fn_spec, inputs):
    """fn_spec 'module:function'; the function takes the inputs dict and returns
    {'reproduced': bool, 'detail': str}.  Exceptions inside the real code are the function's business; an exception
    escaping from the harness itself is reported as not reproduced with the traceback."""
    modname, fname = fn_spec.split(':')
    repo = os.environ.get('VERIF_REPO', '/repo')
    src = os.path.join(repo, 'src')
    if src not in sys.path:
        sys.path.insert(0, src)
    mod = importlib.import_module(modname)
    fn = getattr(mod, fname)
    try:
        r = fn(inputs)
        return {'reproduced': bool(r.get('reproduced')), 'detail': str(r.get('detail', ''))}
    except Exception as e:
        tb = traceback.extract_tb(e.__traceback__)
        inner = tb[-1].filename if tb else ''
        if '/src/gemdat/' in inner:
            return {'reproduced': True, 'detail': f'the code under test raised {type(e).__name__}: {e} at {inner.split("/src/")[-1]}:{tb[-1].lineno}'}
        return {'reproduced': False, 'detail': 'replay harness error:\n' + traceback.format_exc()}


def write_replay_file(prop, obligation, fn_spec, inputs, solver_output, result, note=''):
    d = os.path.join(ROOT, 'replay', prop)
    os.makedirs(d, exist_ok=True)
    safe = ''.join(c if c.isalnum() or c in '._-' else '_' for c in obligation)[:150]
    path = os.path.join(d, safe + '.json')
    with open(path, 'w') as f:
        json.dump({'property': prop, 'obligation': obligation, 'replay_fn': fn_spec, 'inputs': inputs,
                   'solver_output': solver_output, 'result_when_written': result, 'note': note,
                   'how_to_run': f'./check --replay {os.path.relpath(path, ROOT)}'}, f, indent=1, default=str)
    return os.path.relpath(path, ROOT)


def run_replay_file(path):
    with open(path) as f:
        d = json.load(f)
    print(f"replay of obligation {d['obligation']} (property {d['property']})")
    if not d.get('replay_fn'):
        print('no failing input was found for this obligation; solver output follows')
        print(d.get('solver_output'))
        print('NOT-REPLAYABLE')
        return 1
    r = call_replay(d['replay_fn'], d['inputs'])
    print(r['detail'])
    if r['reproduced']:
        print(f"REPRODUCED {d['obligation']}")
        return 1
    print(f"NOT-REPRODUCED {d['obligation']}")
    return 0

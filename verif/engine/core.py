"""pyvc core: proof context, path exploration, obligations, SMT discharge.

A *proof unit* symbolically executes one real function (AST read from the working tree) under a
contract.  Every run re-executes the function body once per feasible path; branching on a symbolic
condition is resolved by a decision list (re-execution DFS), so the interpreter itself is an ordinary
recursive evaluator.
"""
from __future__ import annotations

import os
import subprocess
import tempfile
import time

import z3

Z3_TIMEOUT_MS = int(os.environ.get('VERIF_Z3_TIMEOUT_MS', '10000'))
FEAS_TIMEOUT_MS = 1500


def load_scale():
    """Solver budgets are wall-clock: when the machine is oversubscribed (several checks at once on the 16 cores) they are stretched
    so that verdicts do not flip to `unknown` for lack of CPU.  1 on an idle machine, at most 6."""
    try:
        la = os.getloadavg()[0]
        n = os.cpu_count() or 16
    except OSError:
        return 1.0
    return min(6.0, max(1.0, 1.5 * la / n))


class Unsupported(Exception):
    """The code left the supported subset (=> obligation UNDECIDED, never a violation)."""

    def __init__(self, msg, line=None):
        super().__init__(msg)
        self.line = line


class Infeasible(Exception):
    """Current path condition is unsatisfiable; abandon the path."""


class Obligation:
    __slots__ = ('name', 'kind', 'hyps', 'goal', 'line', 'func', 'path', 'meta')

    def __init__(self, name, kind, hyps, goal, line=None, func=None, path=None, meta=None):
        self.name = name
        self.kind = kind
        self.hyps = hyps
        self.goal = goal
        self.line = line
        self.func = func
        self.path = path
        self.meta = meta or {}


class Ctx:
    """One symbolic path."""

    def __init__(self, decisions=(), func=None):
        self.hyps = []  # facts + path condition, in order of discovery
        self.obls = []
        self.decisions = list(decisions)
        self.taken = []
        self.alternates = []
        self.func = func
        self._n = {}
        self.trace = []
        self.ghost = {}  # free slot for contract/ghost state
        self.axiom_tags = []  # names of library contracts / axioms used on this path
        self.inst_axioms = []  # (arity, make(*terms)) quantified facts the engine may instantiate at the goal's Skolem terms
        self.inst_terms = []  # unary term generators t -> f(t) used to build one more level of instantiation terms
        self.inst_terms2 = []  # binary term generators (t1, t2) -> f(t1, t2)

    # -- naming -------------------------------------------------------------------------------
    def name(self, base):
        k = self._n.get(base, 0)
        self._n[base] = k + 1
        return f'{base}!{k}' if k else base

    def fresh_int(self, base='i'):
        return z3.Int(self.name(base))

    def fresh_real(self, base='r'):
        return z3.Real(self.name(base))

    def fresh_bool(self, base='b'):
        return z3.Bool(self.name(base))

    def fresh_fun(self, base, *sorts):
        return z3.Function(self.name(base), *sorts)

    # -- facts / obligations ------------------------------------------------------------------
    def assume(self, f, tag=None):
        if f is True:
            return
        if f is False:
            raise Infeasible()
        self.hyps.append(f)
        if tag and tag not in self.axiom_tags:
            self.axiom_tags.append(tag)

    def use(self, tag):
        if tag not in self.axiom_tags:
            self.axiom_tags.append(tag)

    def oblige(self, name, goal, kind='assert', line=None, meta=None):
        if getattr(self, 'suppress_obligations', 0):
            return
        if goal is True:
            goal = z3.BoolVal(True)
        elif goal is False:
            goal = z3.BoolVal(False)
        meta = dict(meta or {})
        meta['inst_axioms'] = list(self.inst_axioms)
        meta['inst_terms'] = list(self.inst_terms)
        meta['inst_terms2'] = list(self.inst_terms2)
        self.obls.append(
            Obligation(name, kind, list(self.hyps), goal, line=line, func=self.func,
                       path=''.join('T' if d else 'F' for d in self.taken), meta=meta)
        )

    def cut(self, name, f, line=None):
        """Intermediate assertion (lemma at a program point): proved once under the current facts, then assumed."""
        self.oblige(name, f, kind='cut', line=line)
        self.assume(f)

    # -- branching ----------------------------------------------------------------------------
    def feasible(self, extra=None):
        s = z3.Solver()
        s.set('timeout', int(FEAS_TIMEOUT_MS * load_scale()))
        for h in self.hyps:
            s.add(h)
        if extra is not None:
            s.add(extra)
        return s.check() != z3.unsat

    def branch(self, cond, line=None):
        """Return a Python bool for a (possibly symbolic) condition, forking the exploration."""
        if isinstance(cond, bool):
            return cond
        cond = z3.simplify(cond)
        if z3.is_true(cond):
            return True
        if z3.is_false(cond):
            return False
        pos = len(self.taken)
        if pos < len(self.decisions):
            choice = self.decisions[pos]
            self.taken.append(choice)
            self.hyps.append(cond if choice else z3.Not(cond))
            return choice
        ft = self.feasible(cond)
        ff = self.feasible(z3.Not(cond))
        if ft and ff:
            self.alternates.append(self.taken + [False])
            self.taken.append(True)
            self.hyps.append(cond)
            return True
        # one-sided outcomes are recorded as (forced) decisions too: a replay consumes one recorded decision per symbolic
        # branch point, so every branch point of the first run must own an entry or the replay would drift onto other paths
        if ft:
            self.taken.append(True)
            self.hyps.append(cond)
            return True
        if ff:
            self.taken.append(False)
            self.hyps.append(z3.Not(cond))
            return False
        raise Infeasible()


class PathResult:
    def __init__(self, ctx, kind, value=None, exc=None):
        self.ctx = ctx
        self.kind = kind  # 'return' | 'raise' | 'unsupported'
        self.value = value
        self.exc = exc


def explore(run, func=None, max_paths=400):
    """run(ctx) -> ('return', value) | ('raise', exc).  Enumerates all feasible paths."""
    results = []
    stack = [[]]
    while stack:
        dec = stack.pop()
        ctx = Ctx(dec, func=func)
        try:
            kind, val = run(ctx)
            results.append(PathResult(ctx, kind, value=val if kind == 'return' else None,
                                      exc=val if kind == 'raise' else None))
        except Infeasible:
            pass
        except Unsupported as e:
            results.append(PathResult(ctx, 'unsupported', exc=e))
        for alt in ctx.alternates:
            stack.append(alt)
        if len(results) > max_paths:
            raise Unsupported(f'more than {max_paths} paths')
    return results


# ---------------------------------------------------------------------------------------------
# discharge
# ---------------------------------------------------------------------------------------------

class Verdict:
    def __init__(self, name, status, seconds, backend, model=None, reason=None, smt2=None):
        self.name = name
        self.status = status  # 'discharged' | 'failed' | 'undecided'
        self.seconds = seconds
        self.backend = backend
        self.model = model
        self.reason = reason
        self.smt2 = smt2


_SK = [0]


def skolemize(e, pos=True, consts=None):
    """Replace universally quantified variables at positive positions of a goal by fresh constants (so that the
    negated goal is ground in them); returns the rewritten formula and the list of introduced constants."""
    if consts is None:
        consts = []
    if z3.is_quantifier(e) and ((e.is_forall() and pos) or (e.is_exists() and not pos)):
        n = e.num_vars()
        fresh = []
        for i in range(n):
            _SK[0] += 1
            c = z3.Const(f'sk!{e.var_name(i)}!{_SK[0]}', e.var_sort(i))
            fresh.append(c)
        consts.extend(fresh)
        body = z3.substitute_vars(e.body(), *reversed(fresh))
        return skolemize(body, pos, consts)[0], consts
    if z3.is_app(e):
        k = e.decl().kind()
        ch = e.children()
        if k == z3.Z3_OP_AND and pos or k == z3.Z3_OP_OR and not pos:
            # only one conjunct needs to fail: constants of different conjuncts are independent, all are kept
            return (z3.And if k == z3.Z3_OP_AND else z3.Or)(*[skolemize(c, pos, consts)[0] for c in ch]), consts
        if k == z3.Z3_OP_OR and pos or k == z3.Z3_OP_AND and not pos:
            return (z3.Or if k == z3.Z3_OP_OR else z3.And)(*[skolemize(c, pos, consts)[0] for c in ch]), consts
        if k == z3.Z3_OP_IMPLIES:
            return z3.Implies(skolemize(ch[0], not pos, consts)[0], skolemize(ch[1], pos, consts)[0]), consts
        if k == z3.Z3_OP_NOT:
            return z3.Not(skolemize(ch[0], not pos, consts)[0]), consts
    return e, consts


def goal_directed_instances(ob, sk_consts, limit=400):
    """Instances of the registered quantified facts at the goal's Skolem constants and one level of index terms over
    them (sound: instances of assumed axioms; this only helps the solver find the proof)."""
    axioms = ob.meta.get('inst_axioms') or []
    if not axioms or not sk_consts:
        return []
    ints = [c for c in sk_consts if c.sort().kind() == z3.Z3_INT_SORT][:4]
    terms = list(ints)
    mirror = list(ints)
    for g in (ob.meta.get('inst_terms') or []):
        for c in ints:
            try:
                t = g(c)
            except Exception:
                continue
            terms.append(t)
            if getattr(g, 'mirror', False):
                mirror.append(t)
    import itertools
    pair_terms = []
    for g in (ob.meta.get('inst_terms2') or []):
        for c1, c2 in itertools.product(ints, repeat=2):
            try:
                pair_terms.append(g(c1, c2))
            except Exception:
                continue
    terms.extend(pair_terms)
    out = []
    for arity, make in axioms:
        pool = terms if arity == 1 else (mirror + pair_terms)
        for tup in itertools.product(pool, repeat=arity):
            try:
                out.append(make(*tup))
            except Exception:
                continue
            if len(out) >= limit:
                return out
    return out


def _smt2(hyps, goal):
    s = z3.Solver()
    for h in hyps:
        s.add(h)
    s.add(z3.Not(goal))
    return s.to_smt2()


def run_cli(cmd, smt2, timeout_s):
    with tempfile.NamedTemporaryFile('w', suffix='.smt2', delete=False, dir=os.environ.get('VERIF_TMP', None)) as f:
        f.write(smt2)
        path = f.name
    try:
        p = subprocess.run(cmd + [path], capture_output=True, text=True, timeout=timeout_s)
        out = (p.stdout or '').strip().splitlines()
        for line in out:
            if line.strip() in ('sat', 'unsat', 'unknown'):
                return line.strip()
        return 'unknown'
    except subprocess.TimeoutExpired:
        return 'unknown'
    finally:
        try:
            os.unlink(path)
        except OSError:
            pass


def discharge(ob, timeout_ms=None, want_model=True, second_solver=False):
    """Discharge one obligation: z3 API first, CLI solvers (cvc5, z3 4.8) on unknown."""
    t0 = time.time()
    ls = load_scale()
    timeout_ms = int((timeout_ms or Z3_TIMEOUT_MS) * ls)
    tried_cvc5 = False
    if want_model and _nonlinear_goal(ob.goal):
        # nonlinear real/integer goals: cvc5 decides these in about a second where z3 tends to run into its time limit;
        # the goal is Skolemised first (pointwise polynomial identities are then ground)
        try:
            skg, _c = skolemize(ob.goal)
        except z3.Z3Exception:
            skg = ob.goal
        s1 = z3.Solver()
        s1.set('timeout', int(2000 * ls))
        for h in ob.hyps:
            s1.add(h)
        s1.add(z3.Not(skg))
        if s1.check() == z3.unsat:
            return Verdict(ob.name, 'discharged', time.time() - t0, 'z3-5.1(api)')
        rr = run_cli(['/usr/bin/cvc5', '--tlimit=%d' % int(5000 * ls)], _smt2(ob.hyps, skg), 8 * ls)
        tried_cvc5 = True
        if rr == 'unsat':
            return Verdict(ob.name, 'discharged', time.time() - t0, 'cvc5-1.0.3')
    backend = 'z3-5.1(api)'
    if ob.meta.get('inst_axioms') and want_model:
        # portfolio: a short plain attempt, then the goal Skolemised by us with instances of the registered axioms at its
        # Skolem terms, then (below) the plain query with the full budget
        s0 = z3.Solver()
        s0.set('timeout', int(1500 * ls))
        s0.set('random_seed', 0)
        for h in ob.hyps:
            s0.add(h)
        s0.add(z3.Not(ob.goal))
        r0 = s0.check()
        if r0 == z3.unsat:
            return Verdict(ob.name, 'discharged', time.time() - t0, backend)
        if r0 == z3.sat:
            return Verdict(ob.name, 'failed', time.time() - t0, backend, model=s0.model())
        try:
            sk_goal, consts = skolemize(ob.goal)
            inst = goal_directed_instances(ob, consts)
            if inst:
                s2 = z3.Solver()
                s2.set('timeout', min(timeout_ms, int(8000 * ls)))
                s2.set('random_seed', 0)
                for h in ob.hyps:
                    s2.add(h)
                for h in inst:
                    s2.add(h)
                s2.add(z3.Not(sk_goal))
                if s2.check() == z3.unsat:
                    return Verdict(ob.name, 'discharged', time.time() - t0, 'z3-5.1(api)+goal-directed instances')
        except z3.Z3Exception:
            pass
    s = z3.Solver()
    s.set('timeout', timeout_ms)
    s.set('random_seed', 0)
    for h in ob.hyps:
        s.add(h)
    s.add(z3.Not(ob.goal))
    r = s.check()
    smt2 = None
    if r == z3.unknown:
        reason = s.reason_unknown()
        smt2 = _smt2(ob.hyps, ob.goal)
        clis = [] if tried_cvc5 else [(['/usr/bin/cvc5', '--tlimit=%d' % timeout_ms], 'cvc5-1.0.3')]
        if second_solver:
            clis.append((['/usr/bin/z3', '-T:%d' % max(1, timeout_ms // 1000)], 'z3-4.8.12'))
        for cmd, label in clis:
            rr = run_cli(cmd, smt2, timeout_ms / 1000 + 5)
            if rr == 'unsat':
                return Verdict(ob.name, 'discharged', time.time() - t0, label, smt2=None)
            if rr == 'sat':
                # a CLI 'sat' carries no model we can evaluate: report as failed without model
                return Verdict(ob.name, 'failed', time.time() - t0, label, model=None,
                               reason='sat (no model extracted)')
        return Verdict(ob.name, 'undecided', time.time() - t0, backend, reason=f'unknown: {reason}')
    if r == z3.unsat:
        v = Verdict(ob.name, 'discharged', time.time() - t0, backend)
        if second_solver:
            smt2 = _smt2(ob.hyps, ob.goal)
            rr = run_cli(['/usr/bin/cvc5', '--tlimit=10000'], smt2, 15)
            v.reason = f'cvc5:{rr}'
            if rr == 'sat':
                v.status = 'undecided'
                v.reason = 'solver disagreement: z3 unsat, cvc5 sat'
        return v
    model = s.model() if want_model else None
    return Verdict(ob.name, 'failed', time.time() - t0, backend, model=model)


def _nonlinear_goal(e, _depth=0):
    """Does the goal multiply / divide two non-constant arithmetic terms?"""
    todo = [e]
    seen = set()
    n = 0
    while todo and n < 5000:
        x = todo.pop()
        n += 1
        if x.get_id() in seen:
            continue
        seen.add(x.get_id())
        if z3.is_quantifier(x):
            todo.append(x.body())
            continue
        if z3.is_app(x):
            k = x.decl().kind()
            if k in (z3.Z3_OP_MUL, z3.Z3_OP_DIV, z3.Z3_OP_IDIV):
                nonconst = [c for c in x.children() if not (z3.is_int_value(c) or z3.is_rational_value(c))]
                if len(nonconst) >= 2 or (k != z3.Z3_OP_MUL and not (z3.is_int_value(x.arg(1)) or z3.is_rational_value(x.arg(1)))):
                    return True
            todo.extend(x.children())
    return False


def check_sat(hyps, timeout_ms=5000):
    timeout_ms = int(timeout_ms * load_scale())
    s = z3.Solver()
    s.set('timeout', timeout_ms)
    for h in hyps:
        s.add(h)
    r = s.check()
    return str(r), (s.model() if r == z3.sat else None)

"""Assumed contracts of numpy (trusted base, DESIGN §3) over the functional tensor domain."""
from __future__ import annotations

import numpy as np
import z3

from . import values as V
from .core import Unsupported
from .values import (SIdx, STensor, any_sym, as_tensor, binop, cmpop, is_sym, pyval, to_z3, z_and, z_ite, z_not,
                     z_or)


def _norm_index(i, n):
    """numpy negative-index convention for an in-range index i in [-n, n)."""
    i = pyval(i)
    if not is_sym(i):
        if not is_sym(n):
            return i + n if i < 0 else i
        return binop('+', i, n) if i < 0 else i
    return z3.If(i < 0, i + to_z3(n), i)


def _clamp_slice(s, n):
    """start, length of a[s] for step in (None, 1); symbolic bounds are clamped as numpy does."""
    if s.step not in (None, 1):
        raise Unsupported('slice step')

    def norm(v, default):
        if v is None:
            return default
        v = pyval(v)
        if not is_sym(v) and not is_sym(n):
            if v < 0:
                v = max(v + n, 0)
            return min(v, n)
        v = to_z3(v)
        nn = to_z3(n)
        return z3.If(v < 0, z3.If(v + nn < 0, 0, v + nn), z3.If(v > nn, nn, v))
    start = norm(s.start, 0)
    stop = norm(s.stop, n)
    if not any_sym(start, stop):
        return start, max(stop - start, 0)
    length = z3.If(to_z3(stop) > to_z3(start), to_z3(stop) - to_z3(start), 0)
    return start, z3.simplify(length)


class NP:
    """numpy model.  `self.unit` gives access to the proof unit (for registering reductions)."""

    def __init__(self, unit):
        self.unit = unit

    # ------------------------------------------------------------------------------------------
    # attribute access on tensors
    # ------------------------------------------------------------------------------------------
    def tensor_attr(self, interp, t, attr, line):
        if attr == 'T':
            return self.transpose(t)
        if attr == 'shape':
            return tuple(t.shape)
        if attr == 'ndim':
            return t.ndim
        if attr == 'size':
            out = 1
            for d in t.shape:
                out = binop('*', out, d)
            return out
        if attr == 'real':
            return t
        if attr == 'dtype':
            return t.dtype
        from .interp import BoundLib
        return BoundLib('tensor.' + attr, t)

    def transpose(self, t, axes=None):
        r = t.ndim
        if axes is None:
            axes = tuple(reversed(range(r)))
        axes = tuple(int(a) for a in axes)
        shape = tuple(t.shape[a] for a in axes)

        def fn(*idx):
            src = [None] * r
            for k, a in enumerate(axes):
                src[a] = idx[k]
            return t.fn(*src)
        return STensor(shape, fn, t.dtype, view_of=t)

    # ------------------------------------------------------------------------------------------
    # indexing
    # ------------------------------------------------------------------------------------------
    def _expand(self, t, idx):
        if not isinstance(idx, tuple):
            idx = (idx,)
        idx = list(idx)
        n_real = sum(1 for e in idx if e is not None and e is not Ellipsis and not self._is_boolmask(e)) + sum(
            self._mask_rank(e) for e in idx if self._is_boolmask(e))
        if any(e is Ellipsis for e in idx):
            k = idx.index(Ellipsis)
            idx[k:k + 1] = [slice(None)] * (t.ndim - n_real)
        else:
            idx += [slice(None)] * (t.ndim - n_real)
        return idx

    @staticmethod
    def _is_boolmask(e):
        from .values import SSeq
        if isinstance(e, SSeq):
            return V.is_bool_like(e.fn(z3.Int('mask!probe')))
        if isinstance(e, STensor) and e.dtype == 'bool' and e.ndim >= 1:
            return True
        if isinstance(e, np.ndarray) and e.dtype == bool:
            return True
        if isinstance(e, list) and e and all(V.is_bool_like(x) for x in e):
            return True
        return False

    @staticmethod
    def _mask_rank(e):
        from .values import SSeq
        if isinstance(e, (list, SSeq)):
            return 1
        return e.ndim

    def index(self, interp, t, idx, line, check=True):
        ctx = interp.ctx
        fname = interp.cur_func
        if isinstance(t, SIdx) and isinstance(idx, slice) and idx.start is None and idx.step is None and \
                not is_sym(idx.stop) and idx.stop == -1:
            # i[:-1] of an index vector; for an empty vector numpy returns the empty vector
            if ctx.branch(cmpop('>=', t.L, 1), line):
                return V.sidx_drop_last(ctx, t)
            return t
        idx = self._expand(t, idx)
        # convert boolean masks to index vectors
        from .values import SSeq
        conv = []
        for e in idx:
            if self._is_boolmask(e):
                if isinstance(e, SSeq):
                    ef = e.fn
                    m = STensor((e.length,), lambda i: ef(i), 'bool')
                else:
                    m = as_tensor(e if not isinstance(e, list) else V.tensor_from_nested(e))
                if m.ndim != 1:
                    raise Unsupported('boolean mask of rank > 1 in subscript')
                conv.append(self.nonzero1(ctx, m))
            elif isinstance(e, SSeq):
                conv.append(self._seq_to_tensor(interp, e))
            elif isinstance(e, (list, np.ndarray)):
                conv.append(as_tensor(e))
            else:
                conv.append(pyval(e))
        idx = conv
        if len([e for e in idx if e is not None]) != t.ndim:
            raise Unsupported(f'index arity {len(idx)} vs rank {t.ndim}')
        has_adv = any(isinstance(e, STensor) for e in idx)
        # bounds obligations for scalar indices
        ax = 0
        plan = []  # (kind, payload, axis)
        for e in idx:
            if e is None:
                plan.append(('new', None, None))
                continue
            n = t.shape[ax]
            if isinstance(e, slice):
                start, length = _clamp_slice(e, n)
                plan.append(('slice', (start, length), ax))
            elif isinstance(e, STensor):
                if check:
                    self._bounds_tensor(ctx, e, n, f'{fname}.index@{line}', line)
                plan.append(('adv', e, ax))
            else:
                if isinstance(e, (float,)):
                    raise Unsupported('float index')
                if check:
                    self._bounds_scalar(interp, e, n, f'{fname}.index@{line}', line)
                plan.append(('advint' if has_adv else 'int', _norm_index(e, n), ax))
            ax += 1
        if not has_adv:
            shape = []
            for kind, p, a in plan:
                if kind == 'new':
                    shape.append(1)
                elif kind == 'slice':
                    shape.append(p[1])
            if not shape and all(k == 'int' for k, _, _ in plan):
                return t.fn(*[p for _, p, _ in plan])

            def fn(*ri):
                src = []
                k = 0
                for kind, p, a in plan:
                    if kind == 'new':
                        k += 1
                    elif kind == 'slice':
                        src.append(binop('+', p[0], ri[k]))
                        k += 1
                    else:
                        src.append(p)
                return t.fn(*src)
            return STensor(tuple(shape), fn, t.dtype, view_of=t)
        # advanced indexing
        advs = [(j, p) for j, (kind, p, a) in enumerate(plan) if kind in ('adv', 'advint')]
        adv_tensors = [as_tensor(p) for _, p in advs]
        bshape = V.broadcast_shapes(ctx, [a.shape for a in adv_tensors], line=line)
        first, last = advs[0][0], advs[-1][0]
        adjacent = all(plan[j][0] in ('adv', 'advint') for j in range(first, last + 1))
        shape = []
        layout = []  # per result dim: ('b', k) or ('s', planpos) or ('n',)
        if not adjacent:
            for k in range(len(bshape)):
                shape.append(bshape[k])
                layout.append(('b', k))
        for j, (kind, p, a) in enumerate(plan):
            if kind in ('adv', 'advint'):
                if adjacent and j == first:
                    for k in range(len(bshape)):
                        shape.append(bshape[k])
                        layout.append(('b', k))
            elif kind == 'slice':
                shape.append(p[1])
                layout.append(('s', j))
            elif kind == 'new':
                shape.append(1)
                layout.append(('n',))
        rank_b = len(bshape)
        dims = t.shape
        src_fn = t.fn  # fancy indexing copies: snapshot of the source

        def fn(*ri):
            bidx = [None] * rank_b
            sl = {}
            for pos, lay in enumerate(layout):
                if lay[0] == 'b':
                    bidx[lay[1]] = ri[pos]
                elif lay[0] == 's':
                    sl[lay[1]] = ri[pos]
            src = []
            ai = 0
            for j, (kind, p, a) in enumerate(plan):
                if kind == 'new':
                    continue
                if kind == 'slice':
                    src.append(binop('+', p[0], sl[j]))
                elif kind == 'advint':
                    src.append(p)
                    ai += 1
                elif kind == 'adv':
                    at = adv_tensors[ai]
                    v = at.fn(*V.broadcast_index(at.shape, rank_b, bidx))
                    src.append(_norm_index(v, dims[a]))
                    ai += 1
                else:
                    src.append(p)
            return src_fn(*src)
        return STensor(tuple(shape), fn, t.dtype)

    def _bounds_scalar(self, interp, e, n, name, line):
        ctx = interp.ctx
        e = pyval(e)
        if not is_sym(e) and not is_sym(n):
            if not (-n <= e < n):
                from .interp import _Raise
                ctx.oblige(name, False, kind='index', line=line)
                raise _Raise('IndexError', line=line)
            return
        ok = z3.And(to_z3(e) >= -to_z3(n), to_z3(e) < to_z3(n))
        ctx.oblige(name, ok, kind='index', line=line)
        ctx.assume(ok)

    def _bounds_tensor(self, ctx, it, n, name, line):
        if it.dtype not in ('int', 'bool'):
            raise Unsupported('non-integer index array')
        if all(not is_sym(d) for d in it.shape):
            total = 1
            for d in it.shape:
                total *= d
            if total <= 16:
                conds = []
                for ix in np.ndindex(*it.shape):
                    v = it.at(*ix)
                    conds.append(z_and(cmpop('>=', v, binop('-', 0, n)), cmpop('<', v, n)))
                ok = z_and(*conds)
                ctx.oblige(name, to_z3(ok), kind='index', line=line)
                ctx.assume(to_z3(ok))
                return
        ks = [z3.Int(ctx.name('q')) for _ in it.shape]
        rng = z3.And(*[z3.And(k >= 0, k < to_z3(d)) for k, d in zip(ks, it.shape)]) if ks else z3.BoolVal(True)
        v = it.at(*ks)
        body = z3.Implies(rng, z3.And(to_z3(v) >= -to_z3(n), to_z3(v) < to_z3(n)))
        f = z3.ForAll(ks, body) if ks else body
        ctx.oblige(name, f, kind='index', line=line)
        ctx.assume(f)

    def nonzero1(self, ctx, m):
        """np.nonzero of a rank-1 boolean/int tensor -> SIdx."""
        mf = m.fn
        if m.dtype == 'bool':
            member = lambda x: mf(x)  # noqa: E731
        else:
            member = lambda x: cmpop('!=', mf(x), 0)  # noqa: E731
        ctx.use('numpy.nonzero: ascending indices of the true entries')
        probe = z3.Int('nz!probe')
        try:
            key = (z3.simplify(to_z3(member(probe))).sexpr(), z3.simplify(to_z3(m.shape[0])).sexpr())
        except Exception:
            key = None
        cache = ctx.ghost.setdefault('nonzero_cache', {})
        if key is not None and key in cache:
            return cache[key]
        out = SIdx(ctx, m.shape[0], member, base='nz')
        if key is not None:
            cache[key] = out
        return out

    # ------------------------------------------------------------------------------------------
    # stores
    # ------------------------------------------------------------------------------------------
    def store(self, interp, t, idx, val, line):
        ctx = interp.ctx
        if t.view_of is not None:
            raise Unsupported('store through a numpy view (A-ALIAS)')
        fname = interp.cur_func
        idx = self._expand(t, idx)
        conv = []
        for e in idx:
            if self._is_boolmask(e):
                m = as_tensor(e if not isinstance(e, list) else V.tensor_from_nested(e))
                conv.append(self.nonzero1(ctx, m))
            elif isinstance(e, (list, np.ndarray)):
                conv.append(as_tensor(e))
            else:
                conv.append(pyval(e))
        idx = conv
        if any(e is None for e in idx):
            raise Unsupported('newaxis in store')
        old = t.fn
        adv = [(a, e) for a, e in enumerate(idx) if isinstance(e, STensor)]
        if not adv:
            plan = []
            vshape = []
            for a, e in enumerate(idx):
                n = t.shape[a]
                if isinstance(e, slice):
                    start, length = _clamp_slice(e, n)
                    plan.append(('slice', start, length))
                    vshape.append(length)
                else:
                    self._bounds_scalar(interp, e, n, f'{fname}.index@{line}', line)
                    plan.append(('int', _norm_index(e, n), None))
            vt = as_tensor(val)
            if vt.ndim > len(vshape):
                raise Unsupported('store value rank')
            vfn, vsh = vt.fn, vt.shape

            def fn(*i):
                conds = []
                vi = []
                for (kind, a, b), x in zip(plan, i):
                    if kind == 'int':
                        conds.append(cmpop('==', x, a))
                    else:
                        conds.append(z_and(cmpop('>=', x, a), cmpop('<', x, binop('+', a, b))))
                        vi.append(binop('-', x, a))
                c = z_and(*conds)
                v = vfn(*V.broadcast_index(vsh, len(vi), vi)) if vt.ndim else vfn()
                if c is True or (not is_sym(c) and c):
                    return v
                return z_ite(c, v, old(*i)) if is_sym(c) else old(*i)
            t.fn = fn
            if vt.dtype == 'real':
                t.dtype = V.dtype_join(t.dtype, 'real') if t.dtype != 'int' else t.dtype
            return
        # advanced store: all axes must be advanced (or int), rank-1 broadcast
        if any(isinstance(e, slice) for e in idx):
            raise Unsupported('mixed slice/advanced store')
        its = [as_tensor(e) for e in idx]
        bshape = V.broadcast_shapes(ctx, [i.shape for i in its], line=line)
        if len(bshape) > 1:
            raise Unsupported('advanced store with rank>1 index arrays')
        for a, it in enumerate(its):
            if it.ndim:
                self._bounds_tensor(ctx, it, t.shape[a], f'{fname}.index@{line}', line)
            else:
                self._bounds_scalar(interp, it.at(), t.shape[a], f'{fname}.index@{line}', line)
        K = bshape[0] if bshape else 1
        vt = as_tensor(val)
        if vt.ndim > 1:
            raise Unsupported('advanced store value rank')
        if vt.ndim == 1 and V.dim_eq(vt.shape[0], K) is not True and not (not is_sym(vt.shape[0]) and vt.shape[0] == 1):
            ctx.oblige(f'{fname}.store-shape@{line}', to_z3(vt.shape[0]) == to_z3(K), kind='shape', line=line)
        r = t.ndim
        dims = t.shape
        ctx.use('numpy fancy assignment: negative indices wrap, the last write to a cell wins')
        if not is_sym(K) and K <= 8:
            def fn(*i):
                out = old(*i)
                for k in range(K):
                    m = z_and(*[cmpop('==', _norm_index(it.at(*V.broadcast_index(it.shape, 1, (k,))), dims[a]), i[a])
                                for a, it in enumerate(its)])
                    v = vt.at(*V.broadcast_index(vt.shape, 1, (k,))) if vt.ndim else vt.at()
                    out = z_ite(m, v, out)
                return out
            t.fn = fn
            return
        hit = ctx.fresh_fun('st_hit', *([z3.IntSort()] * r + [z3.BoolSort()]))
        win = ctx.fresh_fun('st_win', *([z3.IntSort()] * r + [z3.IntSort()]))
        k = z3.Int(ctx.name('k'))
        iv = [z3.Int(ctx.name('c')) for _ in range(r)]

        def match(kk, cell):
            return z_and(*[cmpop('==', _norm_index(it.at(*V.broadcast_index(it.shape, 1, (kk,))), dims[a]), cell[a])
                           for a, it in enumerate(its)])
        inr = z3.And(k >= 0, k < to_z3(K))
        from .unit import _pure
        idx_terms = [to_z3(it.at(*V.broadcast_index(it.shape, 1, (k,)))) for it in its if it.ndim]
        pats = None
        if idx_terms and all(z3.is_app(e) and e.decl().kind() == z3.Z3_OP_UNINTERPRETED and _pure(e, k) == (True, True) for e in idx_terms):
            pats = [z3.MultiPattern(hit(*iv), *idx_terms)]
        ctx.assume(z3.ForAll(iv + [k], z3.Implies(z3.And(inr, to_z3(match(k, iv))),
                                                   z3.And(hit(*iv), win(*iv) >= k)), **({'patterns': pats} if pats else {})))
        ctx.assume(z3.ForAll(iv, z3.Implies(hit(*iv), z3.And(win(*iv) >= 0, win(*iv) < to_z3(K),
                                                             to_z3(match(win(*iv), iv)))),
                             patterns=[hit(*iv)]))

        def fn2(*i):
            i = [to_z3(x) for x in i]
            v = vt.at(*V.broadcast_index(vt.shape, 1, (win(*i),))) if vt.ndim else vt.at()
            return z_ite(hit(*i), v, old(*i))
        t.fn = fn2

    # ------------------------------------------------------------------------------------------
    # function library
    # ------------------------------------------------------------------------------------------
    def call(self, interp, name, args, kwargs, line):
        short = name[len('numpy.'):]
        m = getattr(self, 'f_' + short.replace('.', '_'), None)
        if m is None:
            return NotImplemented
        return m(interp, line, *args, **kwargs)

    def method(self, interp, t, name, args, kwargs, line):
        m = getattr(self, 'm_' + name, None)
        if m is None:
            raise Unsupported(f'ndarray.{name}')
        return m(interp, line, t, *args, **kwargs)

    # -- construction --------------------------------------------------------------------------
    @staticmethod
    def _shape_arg(shape):
        if isinstance(shape, (tuple, list)):
            return tuple(pyval(s) for s in shape)
        return (pyval(shape),)

    def _apply_dtype(self, interp, line, t, dtype):
        """dtype= of an array constructor: same conversion as astype (narrow integer types wrap, reduced-precision floats are refused)."""
        if dtype is None:
            return t
        kind = dtype_kind(dtype)
        if kind is None:
            raise Unsupported(f'dtype={_dtype_name(dtype)}', line)
        if kind == 'bool':
            if as_tensor(t).dtype != 'bool':
                raise Unsupported('dtype=bool on non-boolean values', line)
            return t
        return self.m_astype(interp, line, as_tensor(t), dtype)

    def f_zeros(self, interp, line, shape, dtype=None):
        dt = dtype_kind(dtype) or 'real'
        if dtype is not None and (dtype_width(dtype) or 64) < 64 and dt == 'real':
            raise Unsupported('reduced-precision float array', line)
        zero = 0 if dt == 'int' else 0.0
        out = STensor(self._shape_arg(shape), lambda *i: zero, dt if dt != 'bool' else 'bool')
        if dt == 'int' and (dtype_width(dtype) or 64) < 64:
            # later stores into a narrow integer array wrap: not modelled
            raise Unsupported(f'zeros(dtype={_dtype_name(dtype)}): stores into narrow integer arrays are not modelled', line)
        return out

    def f_ones(self, interp, line, shape, dtype=None):
        return self._apply_dtype(interp, line, STensor(self._shape_arg(shape), lambda *i: 1.0, 'real'), dtype)

    def f_full(self, interp, line, shape, fill_value, dtype=None):
        fv = pyval(fill_value)
        return self._apply_dtype(interp, line, STensor(self._shape_arg(shape), lambda *i: fv, V.scalar_dtype(fv)), dtype)

    def f_ones_like(self, interp, line, a):
        a = as_tensor(a)
        one = 1 if a.dtype in ('int', 'bool') else 1.0
        return STensor(a.shape, lambda *i: one, 'int' if a.dtype in ('int', 'bool') else 'real')

    def f_zeros_like(self, interp, line, a):
        a = as_tensor(a)
        return STensor(a.shape, lambda *i: 0, a.dtype)

    def f_arange(self, interp, line, *args, dtype=None):
        if len(args) == 1:
            n = pyval(args[0])
            if V.is_real_like(n):
                raise Unsupported('arange with real stop')
            return STensor((n,), lambda i: i, 'int')
        if len(args) == 2 and V.is_int_like(args[0]) and V.is_int_like(args[1]):
            lo, hi = pyval(args[0]), pyval(args[1])
            n = z_ite(cmpop('>', hi, lo), binop('-', hi, lo), 0)
            return STensor((n,), lambda i: binop('+', lo, i), 'int')
        if len(args) == 3 and all(V.is_int_like(x) for x in args) and not is_sym(args[2]) and args[2] in (1, -1):
            lo, hi, step = pyval(args[0]), pyval(args[1]), args[2]
            if step == 1:
                return self.f_arange(interp, line, lo, hi)
            n = z_ite(cmpop('>', lo, hi), binop('-', lo, hi), 0)
            return STensor((n,), lambda i: binop('-', lo, i), 'int')
        if len(args) == 2 and (V.is_real_like(args[0]) or V.is_real_like(args[1])):
            args = (args[0], args[1], 1)
        if len(args) == 3:
            h = self.unit.arange_hook(interp, args, line)
            if h is not NotImplemented:
                return h
        raise Unsupported('arange form')

    def f_array(self, interp, line, obj, dtype=None, **kw):
        r = self._array(interp, line, obj, **kw)
        if dtype is not None and not isinstance(r, np.ndarray):
            return self._apply_dtype(interp, line, r, dtype)
        if dtype is not None and isinstance(r, np.ndarray):
            real = self.unit.real_object('numpy.' + _dtype_name(dtype)) if not isinstance(dtype, type) else dtype
            return r.astype(real)
        return r

    def _array(self, interp, line, obj, **kw):
        from .values import SSeq
        if isinstance(obj, STensor):
            return STensor(obj.shape, obj.fn, obj.dtype)
        if isinstance(obj, SSeq):
            return self._seq_to_tensor(interp, obj)
        if isinstance(obj, np.ndarray):
            return obj.copy()
        if isinstance(obj, (list, tuple)):
            if all(not isinstance(e, (STensor, SSeq)) and not is_sym(e) and not isinstance(e, (list, tuple)) for e in obj) and \
                    all(isinstance(pyval(e), (int, float, bool)) for e in obj):
                return np.array(obj)
            try:
                concrete = np.array(obj)
                if concrete.dtype != object:
                    return concrete
            except Exception:
                pass
            obj2 = [self._seq_to_tensor(interp, e) if isinstance(e, SSeq) else e for e in obj]
            return V.tensor_from_nested(obj2)
        if is_sym(obj) or isinstance(obj, (int, float)):
            return as_tensor(obj)
        raise Unsupported(f'np.array of {type(obj).__name__}')

    f_asarray = f_array

    def _seq_to_tensor(self, interp, seq):
        sample = seq.fn(z3.Int(interp.ctx.name('probe')))
        if isinstance(sample, STensor):
            r = sample.ndim
            shape = (seq.length,) + tuple(sample.shape)

            def fn(i, *rest):
                return seq.fn(i).at(*rest)
            return STensor(shape, fn, sample.dtype)
        if isinstance(sample, (tuple, list)):
            m = len(sample)

            def fn2(i, j):
                row = seq.fn(i)
                if not is_sym(j):
                    return row[int(j)]
                out = row[-1]
                for q in range(m - 2, -1, -1):
                    out = z_ite(j == q, row[q], out)
                return out
            return STensor((seq.length, m), fn2, V.dtype_join(*[V.scalar_dtype(x) for x in sample]))
        return STensor((seq.length,), lambda i: seq.fn(i), V.scalar_dtype(sample))

    def f_eye(self, interp, line, n):
        return STensor((n, n), lambda i, j: z_ite(cmpop('==', i, j), 1.0, 0.0), 'real')

    # -- elementwise ---------------------------------------------------------------------------
    def f_where(self, interp, line, c, *args):
        if not args:
            c = as_tensor(c)
            if c.ndim != 1:
                raise Unsupported('np.where(cond) for rank > 1')
            return (self.nonzero1(interp.ctx, c),)
        a, b = args
        return V.elementwise(interp.ctx, lambda cc, x, y: z_ite(interp.truth(cc), x, y), c, a, b,
                             dtype=V.dtype_join(as_tensor(a).dtype, as_tensor(b).dtype), line=line)

    def f_nonzero(self, interp, line, a):
        a = as_tensor(a)
        if a.ndim != 1:
            raise Unsupported('np.nonzero for rank > 1')
        return (self.nonzero1(interp.ctx, a),)

    def f_abs(self, interp, line, a):
        if isinstance(a, (STensor, np.ndarray)):
            return as_tensor(a).map(V.z_abs)
        return V.z_abs(a)

    f_absolute = f_abs

    def f_square(self, interp, line, a, out=None):
        r = as_tensor(a).map(lambda x: binop('*', x, x))
        return self._out(r, out, a)

    def _out(self, r, out, a):
        if out is not None:
            if not isinstance(out, STensor):
                raise Unsupported('out= non tensor')
            out.fn, out.dtype = r.fn, r.dtype
            return out
        return r if isinstance(a, (STensor, np.ndarray)) else r.at()

    def f_sign(self, interp, line, a):
        return as_tensor(a).map(lambda x: z_ite(cmpop('>', x, 0), 1, z_ite(cmpop('<', x, 0), -1, 0)), dtype='int')

    def f_mod(self, interp, line, a, b, out=None):
        ctx = interp.ctx
        ctx.use('numpy.mod: real semantics 0 <= r < b, a - r in bZ (A-REAL)')
        r = interp.binary('%', a, b, line)
        if out is not None:
            return self._out(as_tensor(r), out, a)  # in place: every alias of `out` sees the new values
        return r

    def f_rint(self, interp, line, a):
        return self.f_around(interp, line, a)

    def f_around(self, interp, line, a, decimals=0):
        if decimals != 0:
            raise Unsupported('around decimals')
        ctx = interp.ctx
        ctx.use('numpy.around: nearest integer, ties to even')

        def rnd(x):
            x = V.to_real(x)
            fl = z3.ToInt(x)
            frac = x - z3.ToReal(fl)
            r = z3.If(frac < z3.RealVal('1/2'), fl, z3.If(frac > z3.RealVal('1/2'), fl + 1,
                                                           z3.If(fl % 2 == 0, fl, fl + 1)))
            return z3.ToReal(r)
        if isinstance(a, (STensor, np.ndarray)):
            return as_tensor(a).map(rnd, dtype='real')
        return rnd(a)

    f_round = f_around

    def f_subtract(self, interp, line, a, b):
        return interp.binary('-', a, b, line)

    def f_sqrt(self, interp, line, a):
        u = self.unit
        if isinstance(a, (STensor, np.ndarray)):
            return as_tensor(a).map(lambda x: u.sqrt(interp.ctx, x), dtype='real')
        return u.sqrt(interp.ctx, a)

    def f_log(self, interp, line, a):
        u = self.unit
        if isinstance(a, (STensor, np.ndarray)):
            return as_tensor(a).map(lambda x: u.log(interp.ctx, x), dtype='real')
        return u.log(interp.ctx, a)

    def f_exp(self, interp, line, a):
        u = self.unit
        if isinstance(a, (STensor, np.ndarray)):
            return as_tensor(a).map(lambda x: u.exp(interp.ctx, x), dtype='real')
        return u.exp(interp.ctx, a)

    # -- shape manipulation --------------------------------------------------------------------
    def f_transpose(self, interp, line, a, axes=None):
        return self.transpose(as_tensor(a), axes)

    def m_transpose(self, interp, line, t, *axes):
        if len(axes) == 1 and isinstance(axes[0], (tuple, list)):
            axes = axes[0]
        return self.transpose(t, axes or None)

    def f_roll(self, interp, line, a, shift, axis=None):
        a = as_tensor(a)
        if a.ndim != 1 and axis is None:
            raise Unsupported('roll of rank>1 without axis')
        ax = 0 if axis is None else (axis % a.ndim)
        n = a.shape[ax]
        af = a.fn
        interp.ctx.use('numpy.roll: out[t] = a[(t - shift) mod n]')

        def fn(*i):
            i = list(i)
            v = binop('-', i[ax], shift)
            if not is_sym(shift) and abs(shift) <= 1 and is_sym(n):
                # |shift| <= 1 <= n: one conditional wrap equals the modulus and stays linear
                i[ax] = z_ite(cmpop('<', v, 0), binop('+', v, n), z_ite(cmpop('>=', v, n), binop('-', v, n), v))
            else:
                i[ax] = binop('%', v, n)
            return af(*i)
        return STensor(a.shape, fn, a.dtype)

    def f_concatenate(self, interp, line, seq, axis=0):
        ts = [as_tensor(x) for x in seq]
        if axis != 0:
            raise Unsupported('concatenate axis != 0')
        fns = [t.fn for t in ts]
        lens = [t.shape[0] for t in ts]
        total = lens[0]
        for l in lens[1:]:
            total = binop('+', total, l)
        rest = ts[0].shape[1:]

        def fn(i, *r):
            off = 0
            out = None
            chain = []
            for f, l in zip(fns, lens):
                chain.append((off, f))
                off = binop('+', off, l)
            out = chain[-1][1](binop('-', i, chain[-1][0]), *r)
            for q in range(len(chain) - 2, -1, -1):
                o, f = chain[q]
                nxt = chain[q + 1][0]
                out = z_ite(cmpop('<', i, nxt), f(binop('-', i, o), *r), out)
            return out
        out = STensor((total,) + tuple(rest), fn, V.dtype_join(*[t.dtype for t in ts]))
        if all(isinstance(t, SIdx) for t in ts):
            out.parts = list(ts)
        return out

    def _concat_axis(self, ts, ax):
        fns = [t.fn for t in ts]
        lens = [t.shape[ax] for t in ts]
        total = lens[0]
        for l in lens[1:]:
            total = binop('+', total, l)
        offs = [0]
        for l in lens[:-1]:
            offs.append(binop('+', offs[-1], l))

        def fn(*i):
            i = list(i)
            j = i[ax]

            def at(q):
                ii = list(i)
                ii[ax] = binop('-', j, offs[q])
                return fns[q](*ii)
            out = at(len(ts) - 1)
            for q in range(len(ts) - 2, -1, -1):
                out = z_ite(cmpop('<', j, offs[q + 1]), at(q), out)
            return out
        shape = list(ts[0].shape)
        shape[ax] = total
        return STensor(tuple(shape), fn, V.dtype_join(*[t.dtype for t in ts]))

    def f_ix_(self, interp, line, *seqs):
        """np.ix_(a, b, ...): the open mesh - a as a column, b as a row, ... (indexing with it takes the cross product)."""
        out = []
        n = len(seqs)
        for k, sq in enumerate(seqs):
            t = as_tensor(V.tensor_from_nested(sq) if isinstance(sq, list) else sq)
            if t.ndim != 1:
                raise Unsupported('ix_ of a non-1-D sequence')
            tf = t.fn
            shape = tuple(t.shape[0] if j == k else 1 for j in range(n))
            out.append(STensor(shape, (lambda kk, f: (lambda *i: f(i[kk])))(k, tf), t.dtype))
        return tuple(out)

    def f_append(self, interp, line, arr, values, axis=None):
        a, v = as_tensor(arr), as_tensor(values)
        if axis is None:
            if a.ndim != 1 or v.ndim != 1:
                raise Unsupported('append with flattening')
            axis = 0
        if a.ndim != v.ndim:
            raise Unsupported('append ranks')
        return self._concat_axis([a, v], axis % a.ndim)

    def f_insert(self, interp, line, arr, obj, values, axis=None):
        """np.insert(arr, 0, scalar, axis): a new leading slice along `axis` holding the scalar."""
        a = as_tensor(arr)
        if is_sym(obj) or obj != 0 or isinstance(values, STensor):
            raise Unsupported('insert: only a scalar at index 0')
        if axis is None:
            if a.ndim != 1:
                raise Unsupported('insert with flattening')
            axis = 0
        ax = axis % a.ndim
        af = a.fn
        val = values

        def fn(*i):
            ii = list(i)
            ii[ax] = binop('-', i[ax], 1)
            return z_ite(cmpop('==', i[ax], 0), val, af(*ii))
        shape = list(a.shape)
        shape[ax] = binop('+', shape[ax], 1)
        return STensor(tuple(shape), fn, V.dtype_join(a.dtype, 'real' if isinstance(val, float) else a.dtype))

    def f_vstack(self, interp, line, seq):
        from .values import SSeq
        if isinstance(seq, SSeq):
            h = self.unit.vstack_seq(interp, seq, line)
            if h is not NotImplemented:
                return h
            raise Unsupported('vstack of a symbolic-length list')
        ts = [as_tensor(x) for x in seq]
        if not ts:
            from .interp import _Raise
            raise _Raise('ValueError', line=line)
        if all(t.ndim == 1 for t in ts):
            return V.tensor_from_nested(list(ts))
        if all(t.ndim == 2 for t in ts):
            return self.f_concatenate(interp, line, ts, axis=0)
        raise Unsupported('vstack ranks')

    def f_stack(self, interp, line, seq, axis=0):
        ts = [as_tensor(x) for x in seq]
        r = ts[0].ndim
        base = V.tensor_from_nested(list(ts))
        if axis in (0,):
            return base
        ax = axis % (r + 1)
        axes = list(range(1, r + 1))
        axes.insert(ax, 0)
        return self.transpose(base, axes)

    def m_reshape(self, interp, line, t, *shape):
        if len(shape) == 1 and isinstance(shape[0], (tuple, list)):
            shape = tuple(shape[0])
        shape = tuple(pyval(s) for s in shape)
        return self.reshape(interp, t, shape, line)

    def merged(self, ctx, A, B):
        """Abstract C-order bijection [0,A) x [0,B) <-> [0,AB): (uq, ur, fl, AB); shared per (A,B) so that a merge and a
        later split use the same bijection.  Only the bijection facts are axiomatised (fl(a,b) = a*B+b is nonlinear and
        never needed by the obligations); AB is a fresh size with AB >= 0, AB >= A, AB >= B for A,B >= 1."""
        key = ('merged', z3.simplify(to_z3(A)).sexpr(), z3.simplify(to_z3(B)).sexpr())
        reg = ctx.ghost.setdefault('merged', {})
        if key in reg:
            return reg[key]
        if not is_sym(A) and A == 1:
            # (1, B) <-> (B,): the flat index is the column index
            ident = (lambda i: z3.IntVal(0), lambda i: to_z3(i), lambda a, b: to_z3(b), B)
            reg[key] = ident
            return ident
        if not is_sym(A) and not is_sym(B):
            AB = A * B
        else:
            AB = ctx.fresh_int('flat_len')
            Az, Bz = to_z3(A), to_z3(B)
            ctx.assume(z3.And(AB >= 0, z3.Implies(z3.And(Az >= 1, Bz >= 1), z3.And(AB >= Az, AB >= Bz)),
                              z3.Implies(z3.Or(Az == 0, Bz == 0), AB == 0), z3.Implies(Bz == 1, AB == Az), z3.Implies(Az == 1, AB == Bz)),
                       tag='reshape: merged leading dimension = product of the two (abstract C-order bijection)')
        uq = ctx.fresh_fun('unflat_q', z3.IntSort(), z3.IntSort())
        ur = ctx.fresh_fun('unflat_r', z3.IntSort(), z3.IntSort())
        fl = ctx.fresh_fun('flat', z3.IntSort(), z3.IntSort(), z3.IntSort())
        i, a_, b_ = z3.Int(ctx.name('i')), z3.Int(ctx.name('a')), z3.Int(ctx.name('b'))
        ctx.assume(z3.ForAll([i], z3.Implies(z3.And(i >= 0, i < to_z3(AB)),
                                             z3.And(uq(i) >= 0, uq(i) < to_z3(A), ur(i) >= 0, ur(i) < to_z3(B), fl(uq(i), ur(i)) == i)),
                             patterns=[uq(i), ur(i)]))
        ctx.assume(z3.ForAll([a_, b_], z3.Implies(z3.And(a_ >= 0, a_ < to_z3(A), b_ >= 0, b_ < to_z3(B)),
                                                  z3.And(fl(a_, b_) >= 0, fl(a_, b_) < to_z3(AB), uq(fl(a_, b_)) == a_, ur(fl(a_, b_)) == b_)),
                             patterns=[fl(a_, b_)]))
        reg[key] = (uq, ur, fl, AB)
        ctx.inst_terms2.append(lambda x, y: fl(x, y))
        ctx.ghost.setdefault('merged_by_len', {})[z3.simplify(to_z3(AB)).sexpr()] = (A, B, uq, ur, fl)
        return reg[key]

    def reshape(self, interp, t, shape, line):
        """C-order reshape.  Supported exactly: identity; merge of the two leading dims ((A,B,r..) -> (AB,r..) or
        (-1,r..)); split of a leading dim produced by such a merge back into (A,B); full flatten of rank<=2."""
        ctx = interp.ctx
        shape = list(shape)
        src = t.shape
        tf = t
        # identity
        if len(shape) == len(src) and all((not is_sym(a) and a == -1) or V.dim_eq(a, b) is True for a, b in zip(shape, src)):
            return STensor(src, lambda *i: tf.fn(*i), t.dtype, view_of=t)
        # merge the two leading dims
        if len(src) >= 2 and len(shape) == len(src) - 1 and all(V.dim_eq(a, b) is True for a, b in zip(shape[1:], src[2:])):
            uq, ur, fl, AB = self.merged(ctx, src[0], src[1])
            lead = shape[0]
            if not (not is_sym(lead) and lead == -1) and V.dim_eq(lead, AB) is not True:
                prod_ok = z3.simplify(to_z3(lead) == to_z3(src[0]) * to_z3(src[1]))
                if not z3.is_true(prod_ok):
                    ctx.oblige(f'{interp.cur_func}.reshape@{line}', prod_ok, kind='shape', line=line)
            if not is_sym(AB):
                B = src[1]
                return STensor((AB,) + tuple(src[2:]), lambda i, *r: tf.fn(binop('//', i, B), binop('%', i, B), *r), t.dtype, view_of=t)
            return STensor((AB,) + tuple(src[2:]), lambda i, *r: tf.fn(uq(to_z3(i)), ur(to_z3(i)), *r), t.dtype, view_of=t)
        # merge dims 1 and 2: (T, B, K, r..) -> (T, B*K, r..)
        if len(src) >= 3 and len(shape) == len(src) - 1 and V.dim_eq(shape[0], src[0]) is True and \
                all(V.dim_eq(a, b) is True for a, b in zip(shape[2:], src[3:])):
            uq, ur, fl, AB = self.merged(ctx, src[1], src[2])
            if not (not is_sym(shape[1]) and shape[1] == -1):
                ok = z3.simplify(to_z3(shape[1]) == to_z3(src[1]) * to_z3(src[2]))
                if not z3.is_true(ok):
                    ctx.oblige(f'{interp.cur_func}.reshape@{line}', ok, kind='shape', line=line)
            if not is_sym(AB):
                K2 = src[2]
                return STensor((src[0], AB) + tuple(src[3:]), lambda t0, i, *r: tf.fn(t0, binop('//', i, K2), binop('%', i, K2), *r), t.dtype, view_of=t)
            return STensor((src[0], AB) + tuple(src[3:]), lambda t0, i, *r: tf.fn(t0, uq(to_z3(i)), ur(to_z3(i)), *r), t.dtype, view_of=t)
        # insert a unit axis after the leading one: (A, r..) -> (A|-1, 1, r..)
        if len(src) >= 1 and len(shape) == len(src) + 1 and not is_sym(shape[1]) and shape[1] == 1 and \
                ((not is_sym(shape[0]) and shape[0] == -1) or V.dim_eq(shape[0], src[0]) is True) and \
                all(V.dim_eq(a, b) is True for a, b in zip(shape[2:], src[1:])):
            return STensor((src[0], 1) + tuple(src[1:]), lambda a, b, *r: tf.fn(a, *r), t.dtype, view_of=t)
        # split a merged leading dim
        if len(shape) == len(src) + 1 and all(V.dim_eq(a, b) is True for a, b in zip(shape[2:], src[1:])):
            A, B = shape[0], shape[1]
            if not is_sym(src[0]) and not is_sym(A) and not is_sym(B):
                if A * B != src[0]:
                    from .interp import _Raise
                    raise _Raise('ValueError', line=line)
                return STensor(tuple(shape), lambda a, b, *r: tf.fn(binop('+', binop('*', a, B), b), *r), t.dtype, view_of=t)
            uq, ur, fl, AB = self.merged(ctx, A, B)
            if V.dim_eq(AB, src[0]) is not True:
                ctx.oblige(f'{interp.cur_func}.reshape@{line}', to_z3(AB) == to_z3(src[0]), kind='shape', line=line)
            return STensor(tuple(shape), lambda a, b, *r: tf.fn(fl(to_z3(a), to_z3(b)), *r), t.dtype, view_of=t)
        # flatten rank 2 / rank 1 -> (n,)
        if len(shape) == 1 and len(src) == 2:
            uq, ur, fl, AB = self.merged(ctx, src[0], src[1])
            if not is_sym(AB):
                B = src[1]
                return STensor((AB,), lambda i: tf.fn(binop('//', i, B), binop('%', i, B)), t.dtype, view_of=t)
            return STensor((AB,), lambda i: tf.fn(uq(to_z3(i)), ur(to_z3(i))), t.dtype, view_of=t)
        if len(shape) == 1 and len(src) == 1:
            return STensor(src, lambda i: tf.fn(i), t.dtype, view_of=t)
        # (n,) -> (1, n) / (n, 1) / (-1, 1) / (1, -1)
        if len(src) == 1 and len(shape) == 2:
            if not is_sym(shape[0]) and shape[0] == 1:
                return STensor((1, src[0]), lambda a, b: tf.fn(b), t.dtype, view_of=t)
            if not is_sym(shape[1]) and shape[1] == 1:
                return STensor((src[0], 1), lambda a, b: tf.fn(a), t.dtype, view_of=t)
        if len(src) >= 1 and len(shape) == len(src) + 1 and not is_sym(shape[1]) and shape[1] == 1 and \
                all(V.dim_eq(a, b) is True for a, b in zip(shape[2:], src[1:])):
            return STensor((src[0], 1) + tuple(src[1:]), lambda a, b, *r: tf.fn(a, *r), t.dtype, view_of=t)
        raise Unsupported(f'reshape {src} -> {tuple(shape)}')

    def m_flatten(self, interp, line, t):
        if t.ndim == 1:
            return STensor(t.shape, t.fn, t.dtype)
        if t.ndim != 2:
            raise Unsupported('flatten of rank > 2')
        r = self.reshape(interp, t, (-1,), line)
        return STensor(r.shape, r.fn, r.dtype)

    def m_copy(self, interp, line, t):
        return STensor(t.shape, t.fn, t.dtype)

    def m_astype(self, interp, line, t, dtype):
        kind = dtype_kind(dtype)
        width = dtype_width(dtype)
        if kind == 'real' and width is not None and width < 64:
            raise Unsupported(f'astype({width}-bit float): reduced precision is not modelled', line)
        if kind == 'int':
            interp.ctx.use('ndarray.astype(int): truncation toward zero')
            if width is not None and width < 64:
                # a narrow integer type wraps modulo 2^width (two's complement for the signed ones)
                interp.ctx.use(f'ndarray.astype({width}-bit integer): truncation toward zero, then wrap-around modulo 2^{width}')
                unsigned = dtype_unsigned(dtype)
                mod = 2 ** width

                def narrow(x):
                    x = pyval(x)
                    v = V.to_int(x) if (V.is_int_like(x) or V.is_bool_like(x)) and is_sym(x) else (int(x) if not is_sym(x) else z3.If(x >= 0, z3.ToInt(x), -z3.ToInt(-x)))
                    if unsigned:
                        return binop('%', v, mod)
                    return binop('-', binop('%', binop('+', v, mod // 2), mod), mod // 2)
                return t.map(narrow, dtype='int')

            def trunc(x):
                x = pyval(x)
                if V.is_int_like(x) or V.is_bool_like(x):
                    return V.to_int(x) if is_sym(x) else int(x)
                if not is_sym(x):
                    return int(x)
                return z3.If(x >= 0, z3.ToInt(x), -z3.ToInt(-x))
            return t.map(trunc, dtype='int')
        if kind == 'real':
            return t.map(lambda x: V.to_real(x) if is_sym(x) else float(x), dtype='real')
        raise Unsupported(f'astype({dtype})')

    def f_tile(self, interp, line, a, reps):
        a = as_tensor(a)
        reps = tuple(int(r) for r in (reps if isinstance(reps, (tuple, list, np.ndarray)) else (reps,)))
        if len(reps) != a.ndim:
            raise Unsupported('tile with rank change')
        interp.ctx.use('numpy.tile: out[i] = a[i mod shape]')
        shape = tuple(binop('*', d, r) for d, r in zip(a.shape, reps))
        af, sh = a.fn, a.shape
        return STensor(shape, lambda *i: af(*[x if r == 1 else binop('%', x, d) for x, d, r in zip(i, sh, reps)]), a.dtype)

    def f_linalg_norm(self, interp, line, a, axis=None, keepdims=False):
        a = as_tensor(a)
        if axis is None or (axis % a.ndim) != a.ndim - 1 or is_sym(a.shape[-1]):
            raise Unsupported('linalg.norm form')
        n = a.shape[-1]
        af = a.fn
        u_ = self.unit
        interp.ctx.use('numpy.linalg.norm(axis=-1): sqrt of the sum of squares of the last axis')

        def fn(*idx):
            lead = idx[:-1] if keepdims else idx
            tot = None
            for q in range(n):
                x = V.to_real(af(*lead, q))
                tot = x * x if tot is None else tot + x * x
            return u_.sqrt(interp.ctx, tot)
        shape = tuple(a.shape[:-1]) + ((1,) if keepdims else ())
        return STensor(shape, fn, 'real')

    def f_diff(self, interp, line, a, n=1, axis=-1, prepend=None):
        a = as_tensor(a)
        if n != 1 or (axis % a.ndim) != a.ndim - 1:
            raise Unsupported('np.diff form')
        af = a.fn
        interp.ctx.use('numpy.diff(a, prepend=p): out[..,0] = a[..,0]-p, out[..,t] = a[..,t]-a[..,t-1]')
        if prepend is None:
            shape = tuple(a.shape[:-1]) + (binop('-', a.shape[-1], 1),)
            return STensor(shape, lambda *i: binop('-', af(*i[:-1], binop('+', i[-1], 1)), af(*i)), a.dtype)
        p = prepend

        def fn(*i):
            t = i[-1]
            prev = z_ite(cmpop('==', t, 0), p, af(*i[:-1], z_ite(cmpop('==', t, 0), 0, binop('-', t, 1))))
            return binop('-', af(*i), prev)
        return STensor(a.shape, fn, 'real' if a.dtype == 'real' else a.dtype)

    def f_shape(self, interp, line, a):
        return tuple(as_tensor(a).shape)

    def f_dot(self, interp, line, a, b):
        """np.dot for (..., k) . (k, m) with concrete small k (contraction over the last / first axis)."""
        A, B = as_tensor(a), as_tensor(b)
        k = A.shape[-1]
        if is_sym(k) or B.ndim != 2:
            raise Unsupported('np.dot form')
        interp.ctx.use('numpy.dot(A, B)[..., m] = sum_k A[..., k] B[k, m]')
        Af, Bf = A.fn, B.fn

        def fn(*idx):
            *lead, m = idx
            tot = None
            for q in range(k):
                term = binop('*', Af(*lead, q), Bf(q, m))
                tot = term if tot is None else binop('+', tot, term)
            return tot
        return STensor(tuple(A.shape[:-1]) + (B.shape[1],), fn, V.dtype_join(A.dtype, B.dtype))

    def f_einsum(self, interp, line, spec, *ops):
        ts = [as_tensor(o) for o in ops]
        if spec == 'ij,ji->i':
            A, B = ts
            k = A.shape[1]
            if is_sym(k):
                raise Unsupported('einsum ij,ji->i with symbolic contraction length')
            interp.ctx.use("numpy.einsum('ij,ji->i', A, B)[i] = sum_j A[i,j] B[j,i]")
            Af, Bf = A.fn, B.fn

            def fn(i):
                tot = None
                for j in range(k):
                    term = binop('*', Af(i, j), Bf(j, i))
                    tot = term if tot is None else binop('+', tot, term)
                return tot
            return STensor((A.shape[0],), fn, 'real')
        if spec == 'tbi,ijk->tbkj':
            A, B = ts
            if is_sym(A.shape[2]):
                raise Unsupported('einsum contraction length')
            n = A.shape[2]
            interp.ctx.use("numpy.einsum('tbi,ijk->tbkj', V, S)[t,b,k,j] = sum_i V[t,b,i] S[i,j,k]")
            Af, Bf = A.fn, B.fn

            def fn2(t, b, k, j):
                tot = None
                for i in range(n):
                    term = binop('*', Af(t, b, i), Bf(i, j, k))
                    tot = term if tot is None else binop('+', tot, term)
                return tot
            return STensor((A.shape[0], A.shape[1], B.shape[2], B.shape[1]), fn2, 'real')
        return self._einsum_generic(interp, spec, ts)

    def _einsum_generic(self, interp, spec, ts):
        import itertools
        if '->' not in spec or '.' in spec:
            raise Unsupported(f'einsum {spec!r}')
        lhs, out = spec.replace(' ', '').split('->')
        ins = lhs.split(',')
        if len(ins) != len(ts) or any(len(a) != t.ndim for a, t in zip(ins, ts)):
            raise Unsupported(f'einsum {spec!r}: operand ranks')
        dim = {}
        for a, t in zip(ins, ts):
            for ch, d in zip(a, t.shape):
                if ch in dim and V.dim_eq(dim[ch], d) is False:
                    raise Unsupported('einsum dimension mismatch')
                dim.setdefault(ch, d)
        contr = [ch for ch in dim if ch not in out]
        if any(is_sym(dim[ch]) for ch in contr):
            raise Unsupported('einsum with a symbolic contraction length')
        interp.ctx.use(f"numpy.einsum('{spec}'): sum over the repeated indices")
        fns = [t.fn for t in ts]

        def fn(*idx):
            env = dict(zip(out, idx))
            tot = None
            for combo in itertools.product(*[range(dim[ch]) for ch in contr]):
                env.update(zip(contr, combo))
                term = None
                for a, f in zip(ins, fns):
                    v = f(*[env[ch] for ch in a])
                    term = v if term is None else binop('*', term, v)
                tot = term if tot is None else binop('+', tot, term)
            return tot
        return STensor(tuple(dim[ch] for ch in out), fn, 'real')

    def f_fliplr(self, interp, line, a):
        a = as_tensor(a)
        n = a.shape[1]
        af = a.fn
        g = lambda c: to_z3(n) - 1 - c  # noqa: E731  (mirror index: instantiation term for goal-directed instances)
        g.mirror = True
        if not any(getattr(x, 'mirror_of', None) == str(n) for x in interp.ctx.inst_terms):
            g.mirror_of = str(n)
            interp.ctx.inst_terms.append(g)
        return STensor(a.shape, lambda i, j, *r: af(i, binop('-', binop('-', n, 1), j), *r), a.dtype)

    def f_flip(self, interp, line, a, axis=None):
        a = as_tensor(a)
        if axis is None:
            if a.ndim != 1:
                raise Unsupported('flip all axes')
            axis = 0
        ax = axis % a.ndim
        n = a.shape[ax]
        af = a.fn

        def fn(*i):
            i = list(i)
            i[ax] = binop('-', binop('-', n, 1), i[ax])
            return af(*i)
        return STensor(a.shape, fn, a.dtype)

    # -- reductions ------------------------------------------------------------------------------
    def m_min(self, interp, line, t, axis=None):
        return self.unit.reduce_minmax(interp, t, 'min', axis, line)

    def m_max(self, interp, line, t, axis=None):
        return self.unit.reduce_minmax(interp, t, 'max', axis, line)

    def f_min(self, interp, line, a, axis=None):
        return self.m_min(interp, line, as_tensor(a), axis=axis)

    def f_max(self, interp, line, a, axis=None):
        return self.m_max(interp, line, as_tensor(a), axis=axis)

    def m_sum(self, interp, line, t, axis=None):
        return self.unit.reduce_sum(interp, t, axis, line)

    def f_sum(self, interp, line, a, axis=None):
        from .values import SSeq
        if isinstance(a, SSeq):
            a = self._seq_to_tensor(interp, a)
        return self.unit.reduce_sum(interp, as_tensor(a), axis, line)

    def m_any(self, interp, line, t, axis=None):
        return self.unit.reduce_any(interp, t, axis, line)

    def f_any(self, interp, line, a, axis=None):
        return self.unit.reduce_any(interp, as_tensor(a), axis, line)

    def f_mean(self, interp, line, a, axis=None):
        return self.unit.reduce_mean(interp, as_tensor(a), axis, line)

    def m_mean(self, interp, line, t, axis=None):
        return self.unit.reduce_mean(interp, t, axis, line)

    def f_cumsum(self, interp, line, a, axis=None, out=None):
        r = self.unit.cumsum(interp, as_tensor(a), axis, line)
        if out is not None:
            src = as_tensor(a)
            if out is src:
                # the result closes over the source's element function: keep the old one alive before overwriting in place
                old_fn = src.fn
                frozen = STensor(src.shape, old_fn, src.dtype)
                r = self.unit.cumsum(interp, frozen, axis, line)
            return self._out(r, out, a)
        return r

    def sum_iter(self, interp, it, line):
        from .values import SSeq
        return self.unit.reduce_sum(interp, self._seq_to_tensor(interp, SSeq(it.length, it.item)), None, line)

    # -- sets / sorting ------------------------------------------------------------------------
    def f_unique(self, interp, line, a, return_counts=False, axis=None):
        return self.unit.unique(interp, as_tensor(a), return_counts, axis, line)

    def f_digitize(self, interp, line, x, bins, right=False):
        return self.unit.digitize(interp, x, bins, right, line)

    def f_searchsorted(self, interp, line, a, v, side='left', sorter=None):
        """searchsorted(a, v, 'left') = #{a_i < v} = digitize(v, a, right=True); 'right' = #{a_i <= v} = digitize(v, a) for ascending a."""
        if sorter is not None or side not in ('left', 'right'):
            raise Unsupported('searchsorted form')
        interp.ctx.use('numpy.searchsorted(a, v, side) on ascending a: left = number of a_i < v, right = number of a_i <= v')
        return self.unit.digitize(interp, v, a, side == 'left', line)

    def f_linspace(self, interp, line, start, stop, num=50, dtype=None, endpoint=True):
        return self.unit.linspace(interp, start, stop, num, dtype, line)

    def f_maximum_accumulate(self, interp, line, a, axis=0, out=None):
        r = self.unit.max_accumulate(interp, as_tensor(a), axis, line)
        return self._out(r, out, a)


class _BuiltinLike:
    def __init__(self, kind):
        self.kind = kind


def _dtype_name(dtype):
    name = getattr(dtype, 'name', None) or getattr(dtype, 'dotted', None) or (dtype if isinstance(dtype, str) else getattr(dtype, '__name__', ''))
    return str(name).split('.')[-1]


def dtype_width(dtype):
    """bit width named by a numpy dtype (np.uint8 -> 8, np.float32 -> 32); None for the platform types int / float / np.int_."""
    import re as _re
    m = _re.search(r'(\d+)$', _dtype_name(dtype))
    return int(m.group(1)) if m else None


def dtype_unsigned(dtype):
    return _dtype_name(dtype).startswith('uint')


def dtype_kind(dtype):
    """'int' | 'real' | 'bool' | None for a dtype argument (builtin type reference, numpy dtype name, LibRef)."""
    if dtype is None:
        return None
    name = getattr(dtype, 'name', None) or getattr(dtype, 'dotted', None) or (dtype if isinstance(dtype, str) else getattr(dtype, '__name__', ''))
    name = str(name).split('.')[-1]
    if name.startswith('int') or name.startswith('uint'):
        return 'int'
    if name.startswith('float'):
        return 'real'
    if name.startswith('bool'):
        return 'bool'
    return None

"""Assumed contracts of pandas (A-PANDAS): ordered tables with named rank-1 columns."""
from __future__ import annotations

import z3

from . import values as V
from .core import Unsupported
from .values import SFrame, SRow, SSeq, STensor, as_tensor, binop, is_sym, pyval


class PD:
    def __init__(self, unit):
        self.unit = unit

    def call(self, interp, name, args, kwargs, line):
        short = name[len('pandas.'):]
        m = getattr(self, 'f_' + short.replace('.', '_'), None)
        if m is None:
            return NotImplemented
        return m(interp, line, *args, **kwargs)

    def f_DataFrame(self, interp, line, data=None, columns=None, **kw):
        from .interp import _Raise
        interp.ctx.use('pandas.DataFrame(data, columns): column c of the frame is column c of the data, row order kept')
        if isinstance(data, SSeq):
            h = self.unit.frame_from_rows(interp, data, line) if hasattr(self.unit, 'frame_from_rows') else NotImplemented
            if h is not NotImplemented:
                return h
            raise Unsupported('DataFrame from symbolic row list')
        if isinstance(data, list) and all(isinstance(r, SRow) for r in data) and columns is None:
            if not data:
                return SFrame({}, 0, 'range')
            cols = list(data[0].fields)
            rows = data
            return SFrame({c: V.tensor_from_nested([r.fields[c] for r in rows]) for c in cols}, len(rows), 'range')
        t = as_tensor(data)
        if t.ndim != 2:
            raise Unsupported('DataFrame data rank')
        if columns is None:
            raise Unsupported('DataFrame without columns')
        ncol = t.shape[1]
        if not is_sym(ncol) and ncol != len(columns):
            interp.ctx.oblige(f'{interp.cur_func}.dataframe-columns@{line}', False, kind='raises', line=line)
            raise _Raise('ValueError', line=line)
        tf = t.fn
        cols = {}
        for c, nm in enumerate(columns):
            cols[nm] = STensor((t.shape[0],), (lambda cc: (lambda i: tf(i, cc)))(c), t.dtype)
        return SFrame(cols, t.shape[0], 'range')  # a frame built from an array gets RangeIndex(0..n-1)

    def frame_index(self, interp, fr, idx, line):
        from .interp import _Raise
        if isinstance(idx, str):
            if idx not in fr.columns:
                interp.ctx.oblige(f'{interp.cur_func}.column[{idx}]@{line}', False, kind='raises', line=line)
                raise _Raise('KeyError', line=line)
            c = fr.columns[idx]
            out = STensor(c.shape, c.fn, c.dtype)
            out.index_of = fr.index_token  # a Series: carries the frame's index
            return out
        if isinstance(idx, list) and all(isinstance(x, str) for x in idx):
            for x in idx:
                if x not in fr.columns:
                    raise _Raise('KeyError', line=line)
            cols = [fr.columns[x] for x in idx]
            fns = [c.fn for c in cols]

            def fn(i, j):
                if not is_sym(j):
                    return fns[int(j)](i)
                out = fns[-1](i)
                for q in range(len(fns) - 2, -1, -1):
                    out = V.z_ite(j == q, fns[q](i), out)
                return out
            return STensor((fr.nrows, len(cols)), fn, V.dtype_join(*[c.dtype for c in cols]))
        if isinstance(idx, STensor) and idx.dtype == 'bool':
            sel = self.unit.np.nonzero1(interp.ctx, idx)
            interp.ctx.use('pandas boolean-mask row selection keeps the selected rows in order')
            out = SFrame({k: STensor((sel.shape[0],), (lambda cf: (lambda i: cf(sel.at(i))))(c.fn), c.dtype)
                          for k, c in fr.columns.items()}, sel.shape[0])
            out.selection = sel
            if hasattr(fr, 'from_rows'):
                out.from_rows = fr.from_rows
            return out
        if isinstance(idx, slice):
            from .npmodel import _clamp_slice
            start, length = _clamp_slice(idx, fr.nrows)
            out = SFrame({k: STensor((length,), (lambda cf: (lambda i: cf(binop('+', start, i))))(c.fn), c.dtype)
                          for k, c in fr.columns.items()}, length)
            out.offset = start
            return out
        raise Unsupported('frame subscript form')

    def frame_method(self, interp, fr, meth, args, kwargs, line):
        if meth == 'copy':
            out = SFrame({k: STensor(c.shape, c.fn, c.dtype) for k, c in fr.columns.items()}, fr.nrows, fr.index_token)
            for a in ('selection', 'offset'):
                if hasattr(fr, a):
                    setattr(out, a, getattr(fr, a))
            return out
        if meth == 'rename':
            mp = kwargs.get('columns') or {}
            return SFrame({mp.get(k, k): c for k, c in fr.columns.items()}, fr.nrows, fr.index_token)
        if meth == 'reset_index':
            cols = {'index': STensor((fr.nrows,), lambda i: i, 'int')}
            if kwargs.get('drop'):
                cols = {}
            cols.update(fr.columns)
            out = SFrame(cols, fr.nrows, 'range')
            for a in ('selection', 'from_rows'):
                if hasattr(fr, a):
                    setattr(out, a, getattr(fr, a))
            return out
        if meth == 'iterrows':
            from .interp import SymIter
            n = fr.nrows
            off = getattr(fr, 'offset', 0)
            interp.ctx.use('DataFrame.iterrows yields (label, row copy); labels are positions after ignore_index/reset')

            def item(k):
                return (binop('+', off, k), SRow({c: t.at(k) for c, t in fr.columns.items()}, label=binop('+', off, k)))
            if not is_sym(n):
                return [item(k) for k in range(n)]
            return SymIter(n, item)
        if meth == 'to_numpy':
            return self.frame_index(interp, fr, list(fr.columns), line)
        h = self.unit.frame_method_hook(interp, fr, meth, args, kwargs, line) if hasattr(self.unit, 'frame_method_hook') else NotImplemented
        if h is not NotImplemented:
            return h
        raise Unsupported(f'DataFrame.{meth}')

    def row_method(self, interp, row, meth, args, kwargs, line):
        if meth == 'copy':
            return row.copy()
        raise Unsupported(f'Series.{meth}')

"""Symbolic pymatgen objects (assumed contracts of DESIGN §3): Lattice, Structure, sites; the minimum-image
distance is the uninterpreted spec function `mindist` with axioms D1-D3 used through the lemmas of DESIGN §4.1."""
from __future__ import annotations

import z3

from . import values as V
from .core import Unsupported
from .interp import BoundLib, PyFn, SymIter
from .values import SObj, STensor, as_tensor, binop, is_sym, pyval, to_z3

R = z3.RealSort()
I = z3.IntSort()

# mindist(lattice id, x0,x1,x2, y0,y1,y2): minimum-image distance in the lattice
MINDIST = z3.Function('mindist', I, R, R, R, R, R, R, R)


class Callable:
    """A bound library method implemented by a Python closure (interp, line, *args, **kwargs)."""

    def __init__(self, fn):
        self.fn = fn


def mindist_axioms(ctx, lat_id):
    key = ('mindist_axioms', str(lat_id))
    if ctx.ghost.get(key):
        return
    ctx.ghost[key] = True
    xs = [z3.Real(ctx.name('mx')) for _ in range(6)]
    f = MINDIST(lat_id, *xs)
    g = MINDIST(lat_id, *(xs[3:] + xs[:3]))
    ctx.assume(z3.ForAll(xs, z3.And(f >= 0, f == g), patterns=[f]),
               tag='mindist (uninterpreted): D1 non-negative, L-sym symmetric (lemmas of DESIGN 4.1)')


def sym_lattice(ctx, name='lat', lat_id=0):
    m = [[z3.Real(f'{name}_m{i}{j}') for j in range(3)] for i in range(3)]
    mat = STensor((3, 3), lambda i, j: _tab(m, i, j), 'real')
    vol = z3.Real(f'{name}_volume')
    ctx.assume(vol > 0, tag='Lattice.volume > 0 (non-degenerate cell)')
    lengths = [z3.Real(f'{name}_len{i}') for i in range(3)]
    for i in range(3):
        ctx.assume(z3.And(lengths[i] > 0, lengths[i] * lengths[i] == m[i][0] * m[i][0] + m[i][1] * m[i][1] + m[i][2] * m[i][2]),
                   tag='Lattice.lengths[i] = |row i of the matrix| > 0')
    params = tuple(z3.Real(f'{name}_param{i}') for i in range(6))
    lat = SObj('Lattice', matrix=mat, _id=lat_id, _m=m, volume=vol, lengths=tuple(lengths), abc=tuple(lengths),
               parameters=params, _orient='arbitrary', _gid=lat_id)
    # metric tensor G = M M^T
    lat.set('metric_tensor', STensor((3, 3), lambda i, j: _metric(m, i, j), 'real'))
    mindist_axioms(ctx, lat_id)
    return lat


def _metric(m, i, j):
    def g(a, b):
        return m[a][0] * m[b][0] + m[a][1] * m[b][1] + m[a][2] * m[b][2]
    i, j = pyval(i), pyval(j)
    if not is_sym(i) and not is_sym(j):
        return g(int(i), int(j))
    out = None
    for a in range(3):
        for b in range(3):
            c = V.z_and(V.cmpop('==', i, a), V.cmpop('==', j, b))
            out = g(a, b) if out is None else V.z_ite(c, g(a, b), out)
    return out


def _tab(m, i, j):
    i, j = pyval(i), pyval(j)
    if not is_sym(i) and not is_sym(j):
        return m[int(i)][int(j)]
    out = None
    for a in range(3):
        for b in range(3):
            c = V.z_and(V.cmpop('==', i, a), V.cmpop('==', j, b))
            out = m[a][b] if out is None else V.z_ite(c, m[a][b], out)
    return out


def lattice_get_all_distances(interp, line, lat, a, b):
    """Lattice.get_all_distances(f1, f2)[i, j] = mindist(f1_i, f2_j)  (assumed pymatgen contract)."""
    ctx = interp.ctx
    ctx.use('pymatgen Lattice.get_all_distances(f1,f2)[i,j] = minimum-image distance between f1_i and f2_j')
    A, B = as_tensor(a), as_tensor(b)
    lid = lat.get('_id')

    def vec(T, i):
        if T.ndim == 1:
            return [V.to_real(T.at(c)) for c in range(3)]
        return [V.to_real(T.at(i, c)) for c in range(3)]
    nA = 1 if A.ndim == 1 else A.shape[0]
    nB = 1 if B.ndim == 1 else B.shape[0]
    Af, Bf = STensor(A.shape, A.fn, A.dtype), STensor(B.shape, B.fn, B.dtype)
    return STensor((nA, nB), lambda i, j: MINDIST(lid, *(vec(Af, i) + vec(Bf, j))), 'real')


def lattice_get_cartesian_coords(interp, line, lat, f):
    interp.ctx.use('pymatgen Lattice.get_cartesian_coords(f) = f . matrix')
    F = as_tensor(f)
    m = lat.get('_m')
    Ff = F.fn

    def fn(*idx):
        *lead, c = idx
        tot = None
        for k in range(3):
            term = binop('*', V.to_real(Ff(*lead, k)), _tab(m, k, c))
            tot = term if tot is None else binop('+', tot, term)
        return tot
    out = STensor(F.shape, fn, 'real')
    out.cart_of = (F, lat)
    return out


def install_world(unit):
    oa = unit.obj_attrs
    oa[('Lattice', 'get_all_distances')] = lambda interp, obj, line: PyFn(lambda i, l, *a, **k: lattice_get_all_distances(i, l, obj, *a, **k))
    oa[('Lattice', 'get_cartesian_coords')] = lambda interp, obj, line: PyFn(lambda i, l, *a, **k: lattice_get_cartesian_coords(i, l, obj, *a, **k))
    prev_len = unit.len_hook

    def len_hook(interp, v, line):
        if isinstance(v, SObj) and v.has('_n'):
            return v.get('_n')
        return prev_len(interp, v, line)
    unit.len_hook = len_hook
    return unit


def sym_structure(ctx, name, n, lattice, labels=None, n_labels=None):
    """Structure with n sites: fractional coordinates sf(k,c) in [0,1), integer label codes lab(k)."""
    sf = z3.Function(f'{name}_frac', I, I, R)
    lab = z3.Function(f'{name}_label', I, I)
    k, c = z3.Int(f'{name}_k'), z3.Int(f'{name}_c')
    ctx.assume(z3.ForAll([k, c], z3.Implies(z3.And(k >= 0, k < to_z3(n), c >= 0, c < 3),
                                            z3.And(sf(k, c) >= 0, sf(k, c) < 1)), patterns=[sf(k, c)]))
    frac = STensor((n, 3), lambda a, b: sf(to_z3(a), to_z3(b)), 'real')
    labels_t = STensor((n,), lambda a: lab(to_z3(a)), 'int')
    # The structure carries its OWN cell (a reference cell, in general not the simulation cell `lattice` of the trajectory): distances taken with
    # `sites.lattice` or `sites.distance_matrix` are distances in that other cell (assumed pymatgen contract: Structure.distance_matrix =
    # self.lattice.get_all_distances(self.frac_coords, self.frac_coords)).
    own_id = 1 + (lattice.get('_id') or 0)
    om = [[z3.Real(f'{name}_own_lat_m{i_}{j_}') for j_ in range(3)] for i_ in range(3)]
    # nothing is assumed about that cell (no axioms): whatever is computed in it is unrelated to the simulation cell
    own = SObj('Lattice', matrix=STensor((3, 3), lambda i_, j_: _tab(om, i_, j_), 'real'), _id=own_id, _m=om, _orient='arbitrary', _gid=own_id)
    dm = STensor((n, n), lambda a, b: MINDIST(own_id, *([sf(to_z3(a), c_) for c_ in range(3)] + [sf(to_z3(b), c_) for c_ in range(3)])), 'real')
    return SObj('Structure', frac_coords=frac, lattice=own, distance_matrix=dm, _traj_lattice=lattice, _n=n, labels=labels_t, _sf=sf, _lab=lab, is_ordered=True)

"""C13 — drift correction removes exactly the reference-frame motion."""
from __future__ import annotations

import z3

from verif.bounded import Stand
from verif.engine import values as V
from verif.engine.interp import ClassRef, LoopSpec, PyFn
from verif.engine.unit import Unit
from verif.engine.values import SIdx, SObj, SSeq, STensor, to_z3
from verif.props.common import install_common, traj_object

PROPERTY = 'C13'
MANIFEST = {
    'level_text': 'Proved for all frame/atom counts, species given as Species or Element objects, selections given as string or collection: '
                  'Trajectory.filter keeps exactly the atoms whose symbol is selected, in order, with their wrapped positions, species, '
                  'lattice, time step and metadata (loop invariant); drift() averages the per-step displacements over the fixed set, '
                  'over the complement of the floating set, or over all atoms - so naming the floating species equals naming all others '
                  'as fixed; apply_drift_correction builds the trajectory with displacements d - drift, same first frame, species, lattice, '
                  'time step, metadata; by an induction lemma the mean over the reference atoms of d - drift is zero, a second correction '
                  'changes nothing, and a rigid time-dependent translation cancels (strict minimum image).',
    'level_note': 'Trusted: numpy mean/sum as recursive spec function, boolean-mask selection order, itertools.compress, pymatgen '
                  'Trajectory.__init__ (position / displacement mode attribute layout), python set/list membership of symbols, the '
                  'Trajectory.displacements contract (C01), floats as reals, pyvc itself.',
    'technique': 'deductive: VCs from the real AST of Trajectory.filter / drift / apply_drift_correction with loop invariants, induction lemmas '
                 'for the mean; z3; native replay on synthetic multi-species trajectories; random stand-in',
}
UNITS = ['unit_filter', 'unit_drift', 'unit_apply', 'unit_lemmas', 'unit_plumbing']
BOUNDED = ['bounded_drift', 'bounded_purity']
META = {'clauses': {'C13.sel': 'P', 'C13.mean': 'P', 'C13.zero': 'P (lemma)', 'C13.frame': 'P', 'C13.idem': 'P (lemma)', 'C13.rigid': 'P (lemma, strict minimum image)'},
        'not_decided': ['round-off of the mean (A-REAL)']}
NAMES = {}


def name_code(s):
    if s not in NAMES:
        NAMES[s] = 1000 + len(NAMES)
    return z3.IntVal(NAMES[s])


def _install_symbols(u):
    """`sp.symbol in <collection of names>` for symbolic species: symbols are integer codes, names are distinct constants."""
    def contains_hook(interp, container, item, line):
        if isinstance(item, SObj) and item._cls == 'Symbol':
            code = item.get('code')
            if isinstance(container, (list, tuple, set, frozenset)) and all(isinstance(x, str) for x in container):
                return V.z_or(*[code == name_code(x) for x in container]) if container else False
            if isinstance(container, SObj) and container._cls == 'SymSet':
                return container.get('pred')(code)
            if isinstance(container, SObj) and container._cls == 'Selection':
                return container.get('pred')(code)
        return NotImplemented
    u.contains_hook = contains_hook

    def set_hook(interp, v, line):
        return NotImplemented
    u.set_hook = set_hook


def _construct_trajectory(u, rec):
    """Assumed contract of pymatgen/gemdat Trajectory.__init__: stores the arguments; position mode sets base_positions = coords[0]."""
    def construct(interp, args, kwargs, line):
        rec.setdefault('constructed', []).append(kwargs)
        interp.ctx.use('pymatgen Trajectory.__init__: stores species/coords/lattice/time_step; base_positions = coords[0] in position mode')
        co = kwargs.get('coords')
        disp = kwargs.get('coords_are_displacement', False)
        base = kwargs.get('base_positions') if disp else (STensor(tuple(co.shape[1:]), lambda a, c: co.at(0, a, c), 'real') if isinstance(co, STensor) else None)
        return SObj('Trajectory', coords=co, coords_are_displacement=disp, base_positions=base, species=kwargs.get('species'),
                    lattice=kwargs.get('lattice'), time_step=kwargs.get('time_step'), metadata=kwargs.get('metadata') or {}, constant_lattice=True,
                    site_properties=None, frame_properties=None, _built=kwargs)
    u.constructors['Trajectory'] = construct
    u.obj_attrs[('Trajectory', '__class__')] = lambda i, o, l: ClassRef('gemdat.trajectory', 'Trajectory')


def _positions_view_contract(interp, self):
    """Trajectory.positions (C01): wrapped view of the same frames/atoms."""
    T, N = self.get('coords').shape[0], self.get('coords').shape[1]
    vw = interp.ctx.ghost['view']
    interp.ctx.use('contract of Trajectory.positions (C01): the wrapped view, shape (T,N,3), values in [0,1)')
    return STensor((T, N, 3), lambda t, a, c: vw(to_z3(t), to_z3(a), to_z3(c)), 'real')


def unit_filter(tier):
    u = Unit('C13.filter')
    install_common(u)
    _install_symbols(u)
    rec = {}
    _construct_trajectory(u, rec)
    u.contracts['gemdat.trajectory.Trajectory.positions'] = _positions_view_contract
    FN = 'gemdat.trajectory.Trajectory.filter'

    def compress(interp, line, data, selectors):
        ctx = interp.ctx
        ctx.use('itertools.compress(data, selectors): the items whose selector is true, in order')
        sf = selectors.fn
        m = STensor((selectors.length,), lambda i: sf(i), 'bool')
        sel = u.np.nonzero1(ctx, m)
        return SSeq(sel.shape[0], lambda q: data.fn(sel.pos(to_z3(q))))
    u.lib['itertools.compress'] = compress
    for variant in ('list', 'str'):
        def setup(interp, variant=variant):
            ctx = interp.ctx
            rec.clear()
            tr, st = traj_object(ctx, 'positions')
            view = z3.Function('view', z3.IntSort(), z3.IntSort(), z3.IntSort(), z3.RealSort())
            ctx.ghost['view'] = view
            st['view'] = view
            ctx.ghost['st'] = st
            species = 'Li' if variant == 'str' else ['Li', 'Na']
            st['sel'] = (lambda code: code == name_code('Li')) if variant == 'str' else (lambda code: z3.Or(code == name_code('Li'), code == name_code('Na')))
            return [tr, species], {}, st

        def maker(interp, env, k):
            ctx = interp.ctx
            g = ctx.fresh_fun('idx_flag', z3.IntSort(), z3.BoolSort())
            return SSeq(k, lambda j: g(to_z3(j)))

        def invariant(interp, env, k):
            st = interp.ctx.ghost['st']
            idx = env.get('idx', interp)
            if isinstance(idx, list):
                return [('empty at entry', z3.BoolVal(len(idx) == 0))]
            j = z3.Int('ij')
            return [('length', to_z3(idx.length) == k),
                    ('idx[j] <=> symbol of atom j is selected', z3.ForAll([j], z3.Implies(z3.And(j >= 0, j < k), to_z3(idx.fn(j)) == st['sel'](st['sym'](j)))))]
        u.loops[(FN, 0)] = LoopSpec({'idx': maker}, invariant)

        def post(interp, st, res):
            T, N, sym, view = st['T'], st['N'], st['sym'], st['view']
            out = []
            b = res.get('_built')
            co = res.get('coords')
            cache = interp.ctx.ghost.get('nonzero_cache', {})
            sels = list(cache.values())
            out.append(('one ordered selection of atoms (coordinates and species use the same mask)', z3.BoolVal(len(sels) == 1)))
            if len(sels) != 1:
                return out
            sel = sels[0]
            a, t, c, q = z3.Ints('pa pt pc pq')
            out.append(('selected <=> symbol in species', z3.ForAll([a], z3.Implies(z3.And(a >= 0, a < N), to_z3(sel.member(a)) == st['sel'](sym(a))))))
            out.append(('shape', z3.And(co.shape[0] == T, co.shape[1] == sel.L)))
            out.append(('coords = wrapped positions of the selected atoms, in order', z3.ForAll([t, q, c], z3.Implies(
                z3.And(t >= 0, t < T, q >= 0, q < sel.L, c >= 0, c < 3), co.at(t, q, c) == view(t, sel.pos(q), c)))))
            sp = res.get('species')
            out.append(('species of the selected atoms, in order', z3.And(to_z3(sp.length) == sel.L, z3.ForAll([q], z3.Implies(
                z3.And(q >= 0, q < sel.L), sp.fn(q).get('symbol').get('code') == sym(sel.pos(q)))))))
            out.append(('lattice, time step, metadata kept; position mode', z3.BoolVal(
                b.get('lattice') is st['lat'] and b.get('time_step') is st['dt'] and b.get('metadata') is st['tr'].get('metadata') and not b.get('coords_are_displacement', False))))
            return out
        u.prove_function('gemdat.trajectory', 'Trajectory.filter', setup, post, raises=(), label=f'gemdat.trajectory.Trajectory.filter[species: {variant}]',
                         replay={'fn': 'verif.props.c13:replay_drift', 'sizes': lambda st: [], 'concretise': lambda m, st, ob: {'seed': 3}})
    return u


def _filter_contract(u, rec):
    """Callee contract of Trajectory.filter (unit C13.filter) + Trajectory.displacements on the result (per-atom)."""
    def contract(interp, self, species):
        ctx = interp.ctx
        st = ctx.ghost['st']
        N, sym = st['N'], st['sym']
        if isinstance(species, str):
            pred = lambda code: code == name_code(species)  # noqa: E731
        elif isinstance(species, (list, tuple, set)) and all(isinstance(x, str) for x in species):
            pred = lambda code: V.to_z3(V.z_or(*[code == name_code(x) for x in species]))  # noqa: E731
        elif isinstance(species, SObj) and species._cls == 'SymSet':
            pred = species.get('pred')
        elif isinstance(species, (list, set)) and not species:
            pred = lambda code: z3.BoolVal(False)  # noqa: E731
        else:
            # a collection of non-string objects: `symbol in collection` is False for every atom
            pred = lambda code: z3.BoolVal(False)  # noqa: E731
            rec['nonstring_collection'] = species
        sel = SIdx(ctx, N, lambda a: pred(sym(a)), base='kept')
        rec.setdefault('filters', []).append({'species': species, 'sel': sel, 'pred': pred})
        ctx.use('contract of Trajectory.filter (unit C13.filter): the atoms whose symbol is in `species`, in order')
        return SObj('Trajectory', _sel=sel, _of=self, _filtered=True)
    return contract


def _disp_contract(interp, self):
    """Trajectory.displacements: per-atom minimum-image steps D(t,a,c) (C01); filtering commutes with it."""
    ctx = interp.ctx
    st = ctx.ghost['st']
    D = st['D']
    ctx.use('contract of Trajectory.displacements (C01): per-atom minimum-image steps; selecting atoms commutes with it')
    if self.has('_sel'):
        sel = self.get('_sel')
        return STensor((st['T'], sel.L, 3), lambda t, q, c: D(to_z3(t), sel.pos(to_z3(q)), to_z3(c)), 'real')
    # `displacements` hands out the trajectory's own coords array (no copy): every call returns the same array object, so that an in-place
    # update through it is an update of the receiver
    own = st.setdefault('own_displacements', {})
    if id(self) not in own:
        t_ = STensor((st['T'], st['N'], 3), lambda t, a, c: D(to_z3(t), to_z3(a), to_z3(c)), 'real')
        own[id(self)] = (t_, t_.fn, self)
    return own[id(self)][0]


def _receiver_unchanged(st):
    """frame: no array handed out by `displacements` was updated in place"""
    own = st.get('own_displacements', {})
    return [('the receiver\'s own coordinate array is not updated in place', z3.BoolVal(all(t_.fn is fn0 for t_, fn0, _ in own.values())))]


def _drift_unit(u, rec):
    install_common(u)
    _install_symbols(u)
    u.contracts['gemdat.trajectory.Trajectory.filter'] = _filter_contract(u, rec)
    u.contracts['gemdat.trajectory.Trajectory.displacements'] = _disp_contract

    # python set grown in the loop: tracked as a predicate over symbol codes
    def construct_set(interp, line, *a):
        return SObj('SymSet', pred=lambda code: z3.BoolVal(False), items=[])
    u.lib['builtins.set'] = construct_set


def unit_drift(tier):
    u = Unit('C13.drift')
    rec = {}
    _drift_unit(u, rec)
    FN = 'gemdat.trajectory.Trajectory.drift'

    def setup_common(interp, cls_tag):
        ctx = interp.ctx
        rec.clear()
        tr, st = traj_object(ctx, 'positions')
        # species objects as produced by the loaders: Element (from_lammps/gromacs) or Species
        sym = st['sym']
        tr.set('species', SSeq(st['N'], lambda k: SObj(cls_tag, symbol=SObj('Symbol', code=sym(to_z3(k))), __isa__=(cls_tag,))))
        st['D'] = z3.Function('D', z3.IntSort(), z3.IntSort(), z3.IntSort(), z3.RealSort())
        ctx.ghost['st'] = st
        return tr, st

    # symbolic set built by the floating-species loop
    def set_add(interp, line, base, item):
        old = base.get('pred')
        if isinstance(item, SObj) and item._cls == 'Symbol':
            code = item.get('code')
            base.set('pred', lambda c, old=old, code=code: z3.Or(old(c), c == code))
        else:
            base.get('items').append(item)
            rec['nonstring_member'] = item
        return None
    u.obj_attrs[('SymSet', 'add')] = lambda i, o, l: PyFn(lambda ii, ll, item: set_add(ii, ll, o, item))

    def maker(interp, env, k):
        ctx = interp.ctx
        st = ctx.ghost['st']
        inset = ctx.fresh_fun('in_species_set', z3.IntSort(), z3.BoolSort())
        s = SObj('SymSet', pred=lambda c: inset(c), items=[])
        s.set('_ghost', inset)
        return s

    def invariant(interp, env, k):
        ctx = interp.ctx
        st = ctx.ghost['st']
        s = env.get('species', interp)
        if isinstance(s, set):
            return [('empty at entry', z3.BoolVal(len(s) == 0))]
        if not (isinstance(s, SObj) and s._cls == 'SymSet'):
            return [('species accumulator is a set', z3.BoolVal(False))]
        c, j = z3.Ints('ic ij')
        G = st['G']
        return [('no non-symbol members', z3.BoolVal(len(s.get('items')) == 0)),
                ('set = symbols of the processed atoms that are not floating', z3.ForAll([c], to_z3(s.get('pred')(c)) == z3.Exists(
                    [j], z3.And(j >= 0, j < k, st['sym'](j) == c, z3.Not(G(c))))))]
    u.loops[(FN, 0)] = LoopSpec({'species': maker}, invariant)

    def mean_post(interp, st, res, pred):
        """drift[t,0,c] = (1/|S|) sum_{a in S} D[t,a,c] with S = {a : pred(sym(a))} (or all atoms)."""
        ctx = interp.ctx
        out = []
        sums = ctx.ghost.get('sums', [])
        if len(sums) != 1:
            return [('one mean over the atom axis', z3.BoolVal(False))]
        S, f = sums[0]['S'], sums[0]['f']
        T, N, D, sym = st['T'], st['N'], st['D'], st['sym']
        t, c, q, a = z3.Ints('pt pc pq pa')
        if pred is None:
            L = N
            out.append(('summand = displacement of every atom', z3.ForAll([t, c, q], z3.Implies(z3.And(t >= 0, t < T, c >= 0, c < 3, q >= 0, q < N), f(t, c, q) == D(t, q, c)))))
        else:
            fl = rec.get('filters', [])
            if len(fl) != 1:
                return [('exactly one filter call', z3.BoolVal(False))]
            sel = fl[0]['sel']
            L = sel.L
            out.append(('reference set = the named atoms', z3.ForAll([a], z3.Implies(z3.And(a >= 0, a < N), to_z3(sel.member(a)) == pred(sym(a))))))
            out.append(('summand = displacement of the q-th reference atom', z3.ForAll([t, c, q], z3.Implies(
                z3.And(t >= 0, t < T, c >= 0, c < 3, q >= 0, q < L), f(t, c, q) == D(t, sel.pos(q), c)))))
        out.append(('shape (T,1,3)', z3.And(res.shape[0] == T, res.shape[1] == 1, res.shape[2] == 3)))
        out.append(('drift = sum / count', z3.ForAll([t, c], z3.Implies(z3.And(t >= 0, t < T, c >= 0, c < 3, L >= 1), res.at(t, 0, c) == S(t, c, L) / z3.ToReal(L)))))
        return out

    for cls_tag in ('Species', 'Element'):
        # fixed species
        def setup_fixed(interp, cls_tag=cls_tag):
            tr, st = setup_common(interp, cls_tag)
            return [tr], {'fixed_species': ['O', 'P']}, st
        u.prove_function('gemdat.trajectory', 'Trajectory.drift', setup_fixed,
                         lambda i, st, r: mean_post(i, st, r, lambda code: z3.Or(code == name_code('O'), code == name_code('P'))), raises=(),
                         label=f'gemdat.trajectory.Trajectory.drift[fixed, {cls_tag}]',
                         replay={'fn': 'verif.props.c13:replay_drift', 'sizes': lambda st: [], 'concretise': lambda m, st, ob, c=cls_tag: {'seed': 3, 'species_cls': c}})

        # floating species (collection and bare string)
        for fl_arg, tag in ((['Li'], 'list'), ('Li', 'str')):
            def setup_float(interp, cls_tag=cls_tag, fl_arg=fl_arg):
                tr, st = setup_common(interp, cls_tag)
                st['G'] = lambda code: code == name_code('Li')
                return [tr], {'floating_species': fl_arg}, st
            u.prove_function('gemdat.trajectory', 'Trajectory.drift', setup_float,
                             lambda i, st, r: mean_post(i, st, r, lambda code: z3.Not(code == name_code('Li'))), raises=(),
                             label=f'gemdat.trajectory.Trajectory.drift[floating:{tag}, {cls_tag}]',
                             replay={'fn': 'verif.props.c13:replay_drift', 'sizes': lambda st: [], 'concretise': lambda m, st, ob, c=cls_tag: {'seed': 3, 'species_cls': c}})

        def setup_all(interp, cls_tag=cls_tag):
            tr, st = setup_common(interp, cls_tag)
            return [tr], {}, st
        u.prove_function('gemdat.trajectory', 'Trajectory.drift', setup_all, lambda i, st, r: mean_post(i, st, r, None), raises=(),
                         label=f'gemdat.trajectory.Trajectory.drift[all atoms, {cls_tag}]',
                         replay={'fn': 'verif.props.c13:replay_drift', 'sizes': lambda st: [], 'concretise': lambda m, st, ob, c=cls_tag: {'seed': 3, 'species_cls': c}})
    return u


def unit_apply(tier):
    """apply_drift_correction: Trajectory(species, coords = displacements - drift, lattice, metadata, coords_are_displacement=True,
    base_positions = self.base_positions, time_step)."""
    u = Unit('C13.apply')
    install_common(u)
    rec = {}
    _construct_trajectory(u, rec)

    def drift_contract(interp, self, fixed_species=None, floating_species=None):
        st = interp.ctx.ghost['st']
        rec['drift_args'] = (fixed_species, floating_species)
        dr = st['drift']
        return STensor((st['T'], 1, 3), lambda t, o, c: dr(to_z3(t), to_z3(c)), 'real')
    u.contracts['gemdat.trajectory.Trajectory.drift'] = drift_contract
    u.contracts['gemdat.trajectory.Trajectory.displacements'] = _disp_contract

    def setup(interp):
        ctx = interp.ctx
        rec.clear()
        tr, st = traj_object(ctx, 'positions')
        st['D'] = z3.Function('D', z3.IntSort(), z3.IntSort(), z3.IntSort(), z3.RealSort())
        st['drift'] = z3.Function('drift', z3.IntSort(), z3.IntSort(), z3.RealSort())
        ctx.ghost['st'] = st
        fx = ['O']
        st['fx'] = fx
        return [tr], {'fixed_species': fx}, st

    def post(interp, st, res):
        b = res.get('_built')
        T, N, D, dr = st['T'], st['N'], st['D'], st['drift']
        t, a, c = z3.Ints('pt pa pc')
        co = b.get('coords')
        tr = st['tr']
        return [('drift computed for the same selection', z3.BoolVal(rec.get('drift_args') == (st['fx'], None))),
                ('coords = displacements - drift (broadcast over atoms)', z3.ForAll([t, a, c], z3.Implies(
                    z3.And(t >= 0, t < T, a >= 0, a < N, c >= 0, c < 3), co.at(t, a, c) == D(t, a, c) - dr(t, c)))),
                ('shape', z3.And(co.shape[0] == T, co.shape[1] == N, co.shape[2] == 3)),
                ('displacement mode with the same base positions (first frame unchanged)', z3.BoolVal(b.get('coords_are_displacement') is True and b.get('base_positions') is tr.get('base_positions'))),
                ('species, lattice, time step, metadata unchanged', z3.BoolVal(b.get('species') is tr.get('species') and b.get('lattice') is st['lat'] and b.get('time_step') is st['dt'] and b.get('metadata') is tr.get('metadata')))] \
            + _receiver_unchanged(st)
    u.prove_function('gemdat.trajectory', 'Trajectory.apply_drift_correction', setup, post, raises=(),
                     replay={'fn': 'verif.props.c13:replay_drift', 'sizes': lambda st: [], 'concretise': lambda m, st, ob: {'seed': 3}})
    return u


def unit_lemmas(tier):
    u = Unit('C13.lemmas')

    def zero_mean(ctx):
        """Induction on k of  sum_{q<k} (f(q) - m) = sum_{q<k} f(q) - k*m ; with m = (sum_{q<L} f)/L the corrected mean is zero."""
        f = z3.Function('f', z3.IntSort(), z3.RealSort())
        S = z3.Function('S', z3.IntSort(), z3.RealSort())
        S2 = z3.Function('S2', z3.IntSort(), z3.RealSort())
        m = z3.Real('m')
        k, L = z3.Ints('k L')
        ctx.assume(z3.And(k >= 0, L >= 1))
        ctx.assume(z3.And(S(0) == 0, S2(0) == 0, S(k + 1) == S(k) + f(k), S2(k + 1) == S2(k) + (f(k) - m)))
        ctx.assume(S2(k) == S(k) - z3.ToReal(k) * m)  # induction hypothesis
        return [('base', S2(0) == S(0) - z3.ToReal(z3.IntVal(0)) * m),
                ('step', S2(k + 1) == S(k + 1) - z3.ToReal(k + 1) * m)]
    u.lemma('C13.zero.sum-of-shifted(induction)', zero_mean)

    def zero_concl(ctx):
        S_L, S2_L, m = z3.Reals('S_L S2_L m')
        L = z3.Int('L')
        ctx.assume(z3.And(L >= 1, m == S_L / z3.ToReal(L), S2_L == S_L - z3.ToReal(L) * m))
        return [('mean of corrected displacements over the reference atoms is zero', S2_L / z3.ToReal(L) == 0)]
    u.lemma('C13.zero.conclusion', zero_concl)

    def idem(ctx):
        """second correction: drift of the corrected trajectory is zero, so d'' = d' (no re-wrap: |d - drift| < 1/2)"""
        d, dr2 = z3.Reals('d_corrected drift_second')
        ctx.assume(dr2 == 0)
        return [('unchanged', d - dr2 == d)]
    u.lemma('C13.idem', idem)

    def rigid(ctx):
        """x' = x + g(t) for all atoms: with strict minimum image for both, D' = D + dg for every atom, drift' = drift + dg,
        so D' - drift' = D - drift."""
        D, dg, drift = z3.Reals('D dg drift')
        Dp, driftp = z3.Reals('Dp driftp')
        ctx.assume(z3.And(Dp == D + dg, driftp == drift + dg))
        return [('corrected motion unchanged', Dp - driftp == D - drift)]
    u.lemma('C13.rigid.cancellation', rigid)

    def rigid_mean(ctx):
        """mean over S of (D + dg) = mean(D) + dg : induction step of sum_{q<k}(f(q)+g) = sum f + k g"""
        f = z3.Function('f', z3.IntSort(), z3.RealSort())
        S = z3.Function('S', z3.IntSort(), z3.RealSort())
        S2 = z3.Function('S2', z3.IntSort(), z3.RealSort())
        g = z3.Real('g')
        k = z3.Int('k')
        ctx.assume(k >= 0)
        ctx.assume(z3.And(S(0) == 0, S2(0) == 0, S(k + 1) == S(k) + f(k), S2(k + 1) == S2(k) + (f(k) + g)))
        ctx.assume(S2(k) == S(k) + z3.ToReal(k) * g)
        return [('base', S2(0) == S(0)), ('step', S2(k + 1) == S(k + 1) + z3.ToReal(k + 1) * g)]
    u.lemma('C13.rigid.mean-shifts(induction)', rigid_mean)
    return u


# ---------------------------------------------------------------------------------------------------------------

def replay_drift(inputs):
    import numpy as np
    from verif.native.synth import hopping_system
    seed = inputs['seed']
    cls = inputs.get('species_cls', 'Element')
    traj, sites, info = hopping_system(seed, n_frames=20, n_diff=3, n_frame_atoms=4, frame_symbols=('O', 'P', 'N'), species_cls=cls, vib=0.05, hop_prob=0.05,
                                       interleave=bool(seed % 2))
    rng = np.random.default_rng(seed + 1)
    # add a rigid random-walk drift to everything
    g = np.cumsum(rng.normal(scale=0.01, size=(len(traj), 1, 3)), axis=0)
    base_pos = np.array(traj.positions)
    if inputs.get('tiny'):
        # reference atoms that barely move: a rigid drift of 1e-7 per frame and nothing else (the correction must still remove it exactly)
        g = np.cumsum(np.full((len(traj), 1, 3), 1e-7) * np.array([1.0, -2.0, 0.5]), axis=0)
        frame_cols = [k for k, sp_ in enumerate(traj.species) if sp_.symbol != 'Li']
        base_pos[:, frame_cols] = base_pos[0, frame_cols]
    if inputs.get('closed_loop'):
        # the reference (framework) atoms only follow a rigid drift that returns to its starting point: per-frame drift is non-zero, its
        # sum over time is zero
        ph = 2 * np.pi * np.arange(len(traj)) / (len(traj) - 1)
        g = (0.04 * np.stack([np.sin(ph), np.sin(2 * ph), 1 - np.cos(ph)], axis=-1))[:, None, :]
        frame_cols = [k for k, sp_ in enumerate(traj.species) if sp_.symbol != 'Li']
        base_pos[:, frame_cols] = base_pos[0, frame_cols]
    from gemdat.trajectory import Trajectory
    tr = Trajectory(species=traj.species, coords=base_pos + g, lattice=traj.get_lattice().matrix, time_step=traj.time_step, metadata={'temperature': 300, 'tag': 'x'})
    symbols = [s.symbol for s in tr.species]
    bad = []

    def ref_drift(mask):
        d = tr.displacements
        return d[:, mask].mean(axis=1)[:, None, :]
    # selecting several species keeps the atoms (and their coordinates) in source order
    for sel in (['O', 'Li'], ['N', 'P', 'O'], 'Li', ('O', 'Li'), frozenset(['P', 'N']), {'O': 1, 'Li': 2}.keys(), ('Li',)):
        try:
            ft = tr.filter(sel)
            want = [k for k, s_ in enumerate(symbols) if s_ in ([sel] if isinstance(sel, str) else list(sel))]
            if [s_.symbol for s_ in ft.species] != [symbols[k] for k in want] or not np.allclose(ft.positions, tr.positions[:, want], atol=1e-12):
                bad.append(f'filter({sel}) does not return the selected atoms in source order')
        except Exception as e:
            bad.append(f'filter({sel}) raised {type(e).__name__}: {e}')
    fixed = ['O', 'P', 'N']
    mask_fixed = np.array([s in fixed for s in symbols])
    for label, kw, mask in (("fixed=['O','P','N']", {'fixed_species': fixed}, mask_fixed), ("floating='Li'", {'floating_species': 'Li'}, mask_fixed),
                            ("floating=['Li']", {'floating_species': ['Li']}, mask_fixed), ("floating={'Li'}", {'floating_species': {'Li'}}, mask_fixed),
                            ("fixed='O'", {'fixed_species': 'O'}, np.array([s == 'O' for s in symbols])), ('all', {}, np.ones(len(symbols), dtype=bool))):
        try:
            got = tr.drift(**kw)
        except Exception as e:
            bad.append(f'drift({label}) raised {type(e).__name__}: {e}')
            continue
        exp = ref_drift(mask)
        if got.shape != exp.shape or not np.allclose(got, exp, atol=1e-12, equal_nan=False):
            bad.append(f'drift({label}) differs from the mean displacement of the reference atoms (nan={bool(np.isnan(got).any())})')
    if 'N' in symbols:
        # bare string 'Na' must not select nitrogen 'N' by substring
        try:
            got = tr.drift(floating_species='Na')
            if not np.allclose(got, ref_drift(np.ones(len(symbols), dtype=bool)), atol=1e-12):
                bad.append("drift(floating_species='Na') treats 'N' atoms as floating (substring match)")
        except Exception as e:
            bad.append(f"drift(floating_species='Na') raised {type(e).__name__}")
    try:
        c = tr.apply_drift_correction(fixed_species=fixed)
        dc = c.displacements
        if np.abs(dc[:, mask_fixed].mean(axis=1)).max() > (1e-12 if not inputs.get('tiny') else 1e-15):
            bad.append('mean displacement of the reference species is not zero after correction')
        if not np.allclose(c.positions[0], tr.positions[0], atol=1e-12) or c.species != tr.species or c.time_step != tr.time_step or c.metadata != tr.metadata \
                or not np.allclose(c.get_lattice().matrix, tr.get_lattice().matrix):
            bad.append('first frame / species / lattice / time step / metadata changed')
        well_sampled = np.abs(tr.displacements).max() < 0.45 and np.abs(dc).max() < 0.45  # strict minimum image with margin (precondition)
        c2 = c.apply_drift_correction(fixed_species=fixed)
        if well_sampled and not np.allclose(c2.displacements, dc, atol=1e-12):
            bad.append('second correction changes the motion')
        # rigid translation invariance
        g2 = np.cumsum(rng.normal(scale=0.01, size=(len(traj), 1, 3)), axis=0)
        tr2 = Trajectory(species=traj.species, coords=base_pos + g + g2, lattice=traj.get_lattice().matrix, time_step=traj.time_step, metadata={'temperature': 300, 'tag': 'x'})
        c3 = tr2.apply_drift_correction(fixed_species=fixed)
        if well_sampled and np.abs(tr2.displacements).max() < 0.45 and not np.allclose(c3.displacements, dc, atol=1e-9):
            bad.append('adding a rigid time-dependent translation changes the corrected motion')
        cf = tr.apply_drift_correction(floating_species=['Li'])
        if not np.allclose(cf.displacements, dc, atol=1e-12, equal_nan=False):
            bad.append('floating=Li is not equivalent to fixed=all others')
        # a trajectory obtained from this one (the later frames / the second half): corrected like any other trajectory - its own first frame is
        # kept, the reference atoms of the result do not move on average
        for name, sub, k0 in (('[3:]', tr[3:], 3), ('split(2)[1]', tr.split(2)[1], int(np.linspace(0, len(tr) - 1, 3, dtype=int)[1]))):
            cs = sub.apply_drift_correction(fixed_species=fixed)
            own = np.mod(base_pos[k0] + g[k0], 1)
            if not np.allclose(((np.asarray(cs.positions[0]) - own) + 0.5) % 1 - 0.5, 0, atol=1e-9):
                bad.append(f'correction of trajectory{name}: the first frame of the result is not the first frame of that trajectory')
            if np.abs(np.asarray(cs.displacements)[:, mask_fixed].mean(axis=1)).max() > 1e-12:
                bad.append(f'correction of trajectory{name}: the reference species still drift')
    except Exception as e:
        bad.append(f'apply_drift_correction raised {type(e).__name__}: {e}')
    return {'reproduced': bool(bad), 'detail': f'seed={seed} species class={cls} symbols={symbols}: ' + '; '.join(bad[:5])}


def bounded_drift(tier, seed):
    import numpy as np
    n = 12 if tier == 'quick' else 300
    st = Stand('C13.drift.random', f'{n} synthetic multi-species trajectories (Species and Element objects, 20 frames, 7 atoms, random-walk rigid drift; every fourth case a closed-loop drift whose time sum is zero), '
               'str / list / set selections', 'seeded random; every case non-trivial (non-zero drift); distinct by seed')
    rng = np.random.default_rng(seed + 1313)
    for c in range(n):
        inp = {'seed': int(rng.integers(1, 10 ** 6)), 'species_cls': ['Element', 'Species', 'SpeciesOx'][c % 3], 'closed_loop': c % 4 == 1, 'tiny': c % 4 == 3}
        r = st.guard(replay_drift, inp)
        if r is None:
            continue
        st.case(inp, nontrivial=True, sample=inp)
        if r['reproduced']:
            st.violation('drift', r['detail'], 'verif.props.c13:replay_drift', inp)
    return st.result()


# generic purity stand-in (arguments unchanged, second call equal, fresh call equal) over this property's API calls
from verif.native.purity import make_bounded as _make_purity  # noqa: E402
from verif.props.purity_reg import REG as _PURITY_REG  # noqa: E402
PURITY = _PURITY_REG['C13']
bounded_purity = _make_purity('C13', PURITY)


# plumbing around the anchored functions: forwarding contracts of the public wrappers, no state shared between calls or objects
from verif.props import plumbing as _plumbing  # noqa: E402


def unit_plumbing(tier):
    return _plumbing.unit_plumbing(PROPERTY)

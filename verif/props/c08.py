"""C08 — density volumes conserve every sample and use a consistent voxel mapping."""
from __future__ import annotations

import z3

from verif.bounded import Stand
from verif.engine.unit import Unit
from verif.engine.values import SObj, STensor
from verif.props.common import install_common, positions_contract, sym_trajectory

PROPERTY = 'C08'
MANIFEST = {
    'level_text': 'Proved for all frame/atom counts, lattices and resolutions 0 < res <= cell length (floats as reals): grid size per axis '
                  'g = floor(L/res) >= 1, the in-function asserts follow from the positions contract, np.digitize on linspace(0,1,g+1)[1:] '
                  'equals floor(x*g) in [0,g), every cell of the volume equals Count(samples binned there) with all fancy-assignment indices '
                  'in range, voxel edge res <= L/g < 2res, and the voxel->frac->voxel round trip is the identity both in real arithmetic and '
                  'under the standard floating-point error model. Total sum = frames x atoms follows from the cell-by-cell count clause by the L-partition lemma (two nested inductions, unit C08.partition).',
    'level_note': 'Trusted: numpy contracts (linspace, digitize, unique(axis=0,return_counts), fancy assignment, reshape as an abstract C-order '
                  'bijection, astype(int) truncation), the Trajectory.positions contract (proved in C01), pymatgen Lattice.lengths, standard '
                  'model fl(x op y)=(x op y)(1+d), |d|<=2^-53 for the FP round-trip obligation, pyvc itself.',
    'technique': 'deductive: VCs from the real AST of trajectory_to_volume and the Volume voxel methods, z3 (NIRA); finite-scope counter-models '
                 'replayed natively; exhaustive voxel round trip and random-trajectory oracle as bounded stand-ins',
}
UNITS = ['unit_volume', 'unit_voxel_size', 'unit_roundtrip', 'unit_roundtrip_fp', 'unit_partition', 'unit_plumbing']
BOUNDED = ['bounded_roundtrip', 'bounded_volume', 'bounded_purity', 'bounded_plumbing']
META = {
    'clauses': {'C08.n': 'P', 'C08.edge': 'P', 'C08.bin': 'P', 'C08.count': 'P (cell = Count over the digitised samples; total = T*N by the L-partition lemma)',
                'C08.pre': 'P (asserts discharged from the positions contract)', 'C08.rt.real': 'P', 'C08.rt.fp': 'P under the standard FP model'},
    'not_decided': ['np.digitize on float bin edges k*(1/g) versus floor(x*g) within one ulp of an edge (A-REAL): measured by the stand-in only'],
}


def _volume_unit(u):
    install_common(u)
    u.contracts['gemdat.trajectory.Trajectory.positions'] = positions_contract
    orig_unique = u.unique

    def unique(interp, t, return_counts, axis, line):
        interp.ctx.ghost['unique_input'] = t
        return orig_unique(interp, t, return_counts, axis, line)
    u.unique = unique
    orig_digitize = u.digitize

    def digitize(interp, x, bins, right, line):
        """cut: every binned coordinate lies in [0, len(bins)) - proved at the call from the digitize contract, the
        exact end point of linspace and the positions contract, then available to the index obligations below."""
        res = orig_digitize(interp, x, bins, right, line)
        from verif.engine.values import as_tensor
        m = as_tensor(bins).shape[0]
        if isinstance(res, STensor) and res.ndim == 1:
            r = z3.Int(interp.ctx.name('cut_r'))
            interp.ctx.cut(f'{interp.cur_func}.cut.digitized-in-grid@{line}',
                           z3.ForAll([r], z3.Implies(z3.And(r >= 0, r < res.shape[0]), z3.And(res.at(r) >= 0, res.at(r) < m))), line=line)
        return res
    u.digitize = digitize


def unit_volume(tier):
    u = Unit('C08.volume')
    _volume_unit(u)

    def setup(interp):
        ctx = interp.ctx
        traj, st = sym_trajectory(ctx)
        res = z3.Real('resolution')
        ctx.assume(res > 0)
        for L in st['lat'].get('lengths'):
            ctx.assume(res <= L)
        st['res'] = res
        return [traj], {'resolution': res}, st

    def post(interp, st, vol):
        ctx = interp.ctx
        out = []
        data = vol.get('data')
        dims = vol.get('dims')
        lengths = st['lat'].get('lengths')
        res = st['res']
        g = [data.shape[ax] for ax in range(3)]
        for ax in range(3):
            out.append((f'n.axis{ax}', z3.And(g[ax] >= 1, g[ax] == z3.ToInt(lengths[ax] / res))))
        out.append(('dims-are-data-shape', z3.BoolVal(isinstance(dims, tuple) and all(z3.eq(a, b) for a, b in zip(dims, data.shape)))))
        dig = ctx.ghost.get('unique_input')
        if dig is None or dig.ndim != 2:
            return out + [('binned-table', z3.BoolVal(False))]
        pos, T, N = st['pos'], st['T'], st['N']
        merged = ctx.ghost.get('merged', {})
        if len(merged) != 1:
            return out + [('single reshape bijection', z3.BoolVal(False))]
        uq, ur, fl, AB = list(merged.values())[0]
        r = z3.Int('sample')
        out.append(('every-sample-is-binned', dig.shape[0] == AB))
        for ax in range(3):
            x = pos(uq(r), ur(r), ax)
            out.append((f'bin.axis{ax}', z3.ForAll([r], z3.Implies(z3.And(r >= 0, r < AB),
                                                                   z3.And(dig.at(r, ax) == z3.ToInt(x * z3.ToReal(g[ax])),
                                                                          dig.at(r, ax) >= 0, dig.at(r, ax) < g[ax])))))
        cnt = u.rowcount(ctx, dig)
        a, b, c = z3.Ints('va vb vc')
        out.append(('count', z3.ForAll([a, b, c], z3.Implies(z3.And(a >= 0, a < g[0], b >= 0, b < g[1], c >= 0, c < g[2]),
                                                             data.at(a, b, c) == cnt(a, b, c)))))
        out.append(('lattice-kept', z3.BoolVal(vol.get('lattice') is st['lat'])))
        return out

    def restrict(st):
        # replayable sub-space: an orthogonal, axis-aligned cell (lengths free)
        m = st['lat'].get('_m')
        L = st['lat'].get('lengths')
        return [m[i][j] == (L[i] if i == j else 0) for i in range(3) for j in range(3)]

    def concretise(model, st, ob):
        def rv(x):
            v = model.eval(x, model_completion=True)
            return float(v.numerator_as_long()) / float(v.denominator_as_long()) if z3.is_rational_value(v) else float(v.approx(20).numerator_as_long()) / float(v.approx(20).denominator_as_long())
        T = model.eval(st['T'], model_completion=True).as_long()
        N = model.eval(st['N'], model_completion=True).as_long()
        if T * N > 64:
            raise ValueError('model too large')
        pos = [[[rv(st['pos'](t, a, c)) for c in range(3)] for a in range(N)] for t in range(T)]
        return {'explicit': True, 'lengths': [rv(x) for x in st['lat'].get('lengths')], 'res': rv(st['res']), 'positions': pos}

    u.prove_function('gemdat.volume', 'trajectory_to_volume', setup, post, raises=(),
                     replay={'fn': 'verif.props.c08:replay_volume', 'sizes': lambda st: [st['T'], st['N']],
                             'concretise': concretise, 'restrict': restrict})
    return u


def _vol(ctx):
    from verif.engine import world as W
    lat = W.sym_lattice(ctx)
    d = tuple(z3.Int(f'd{c}') for c in 'xyz')
    for x in d:
        ctx.assume(x >= 1)
    df = z3.Function('data', z3.IntSort(), z3.IntSort(), z3.IntSort(), z3.IntSort())
    data = STensor(d, lambda a, b, c: df(a, b, c), 'int')
    vol = SObj('Volume', data=data, lattice=lat, dims=d)
    return vol, {'d': d, 'lat': lat}


def unit_voxel_size(tier):
    """voxel_size[ax] = L_ax / dims_ax; with dims = floor(L/res) >= 1 (C08.n): res <= edge < 2 res."""
    u = Unit('C08.voxel_size')
    install_common(u)

    def setup(interp):
        vol, st = _vol(interp.ctx)
        res = z3.Real('resolution')
        interp.ctx.assume(res > 0)
        for L, d in zip(st['lat'].get('lengths'), st['d']):
            interp.ctx.assume(z3.And(res <= L, d == z3.ToInt(L / res)))
        st['res'] = res
        return [vol], {}, st

    def post(interp, st, vs):
        out = []
        for ax in range(3):
            e = vs.at(ax)
            L = st['lat'].get('lengths')[ax]
            out.append((f'edge.axis{ax}', z3.And(e == L / z3.ToReal(st['d'][ax]), e >= st['res'], e < 2 * st['res'])))
        return out
    u.prove_function('gemdat.volume', 'Volume.voxel_size', setup, post,
                     replay={'fn': 'verif.props.c08:replay_volume', 'sizes': lambda st: [],
                             'concretise': lambda model, st, ob: {'seed': 11, 'res': 0.9, 'family': 'orthorhombic'}})
    return u


def unit_roundtrip(tier):
    """frac_coords_to_voxel(voxel_to_frac_coords(v)) == v for every integer voxel 0 <= v < dims (real arithmetic);
    the centre lies strictly inside the voxel's fractional interval."""
    u = Unit('C08.roundtrip')
    install_common(u)

    def setup(interp):
        vol, st = _vol(interp.ctx)
        v = [z3.Int(f'v{c}') for c in 'xyz']
        for x, d in zip(v, st['d']):
            interp.ctx.assume(z3.And(x >= 0, x < d))
        st['v'] = v
        return [vol, list(v)], {}, st

    def post_frac(interp, st, fr):
        out = []
        for ax in range(3):
            f = fr.at(ax)
            d = z3.ToReal(st['d'][ax])
            out.append((f'centre.axis{ax}', z3.And(f == (z3.ToReal(st['v'][ax]) + z3.RealVal('1/2')) / d, f > 0, f < 1)))
        return out
    u.prove_function('gemdat.volume', 'Volume.voxel_to_frac_coords', setup, post_frac,
                     replay={'fn': 'verif.props.c08:replay_roundtrip', 'sizes': lambda st: list(st['d']),
                             'concretise': lambda model, st, ob: {
                                 'dims': [model.eval(x, model_completion=True).as_long() for x in st['d']],
                                 'voxel': [model.eval(x, model_completion=True).as_long() for x in st['v']]}})

    def setup2(interp):
        vol, st = _vol(interp.ctx)
        v = [z3.Int(f'v{c}') for c in 'xyz']
        for x, d in zip(v, st['d']):
            interp.ctx.assume(z3.And(x >= 0, x < d))
        st['v'] = v
        st['vol'] = vol
        return [vol, list(v)], {}, st

    def chain(interp, vol, v):
        fr = interp.call_qual('gemdat.volume', 'Volume.voxel_to_frac_coords', [v], {}, bound_self=vol)
        return interp.call_qual('gemdat.volume', 'Volume.frac_coords_to_voxel', [fr], {}, bound_self=vol)
    u.contracts['verif.chain'] = chain

    def post_rt(interp, st, back):
        return [(f'roundtrip.axis{ax}', back.at(ax) == st['v'][ax]) for ax in range(3)]
    _prove_chain(u, setup2, post_rt, 'Volume.frac_coords_to_voxel∘voxel_to_frac_coords')
    return u


def _prove_chain(u, setup, post, label, fp=False):
    """Run voxel_to_frac_coords then frac_coords_to_voxel (both real bodies) as one path."""
    from verif.engine.core import explore
    from verif.engine.interp import Interp, _Raise
    import time

    def run(ctx):
        interp = Interp(ctx, u.sources, u)
        ctx.func = label
        interp.cur_func = label
        if fp:
            ctx.ghost['fp_standard_model'] = True
        args, kwargs, st = setup(interp)
        ctx.ghost['requires_len'] = len(ctx.hyps)
        ctx.ghost['state'] = st
        vol, v = args
        fr = interp.call_qual('gemdat.volume', 'Volume.voxel_to_frac_coords', [v], {}, bound_self=vol)
        back = interp.call_qual('gemdat.volume', 'Volume.frac_coords_to_voxel', [fr], {}, bound_self=vol)
        for lab, f in post(interp, st, back):
            ctx.oblige(f'{label}.post.{lab}', f, kind='post')
        return 'return', back
    t0 = time.time()
    paths = explore(run, func=label)
    u._collect(label, paths, time.time() - t0, {})
    u.results[-1]['replay'] = {'fn': 'verif.props.c08:replay_roundtrip', 'sizes': lambda st: list(st['d']),
                               'concretise': lambda model, st, ob: {
                                   'dims': [model.eval(x, model_completion=True).as_long() for x in st['d']],
                                   'voxel': [model.eval(x, model_completion=True).as_long() for x in st['v']]}}


def unit_roundtrip_fp(tier):
    """Same composition with every float multiplication/division perturbed by a relative error |delta| <= 2^-53 (standard
    model of IEEE-754 binary64, no over/underflow) for dims <= 2^40: the truncation still returns v."""
    u = Unit('C08.roundtrip_fp')
    install_common(u)

    def setup(interp):
        vol, st = _vol(interp.ctx)
        v = [z3.Int(f'v{c}') for c in 'xyz']
        for x, d in zip(v, st['d']):
            interp.ctx.assume(z3.And(x >= 0, x < d, d <= 2 ** 40))
        st['v'] = v
        return [vol, list(v)], {}, st

    def post_rt(interp, st, back):
        return [(f'roundtrip.axis{ax}', back.at(ax) == st['v'][ax]) for ax in range(3)]
    _prove_chain(u, setup, post_rt, 'Volume.frac_coords_to_voxel∘voxel_to_frac_coords[FP standard model]', fp=True)
    return u


# ---------------------------------------------------------------------------------------------------------------

def unit_partition(tier):
    """sum of all voxels = frames x atoms (voxels = bins, (frame, atom) pairs = samples): spec-level lemma over the proved cell-by-cell count postcondition."""
    from verif.props.common import partition_lemmas
    u = Unit('C08.partition')
    partition_lemmas(u, 'C08', 'sum of all voxels = frames x atoms (voxels = bins, (frame, atom) pairs = samples)')
    return u


def replay_roundtrip(inputs):
    import numpy as np
    from gemdat.volume import Volume
    from pymatgen.core import Lattice
    dims = tuple(inputs['dims'])
    vol = Volume(data=np.zeros(dims, dtype=int), lattice=Lattice.cubic(5.0))
    v = np.array(inputs['voxel'])
    fr = vol.voxel_to_frac_coords(v)
    back = vol.frac_coords_to_voxel(fr)
    ok = (back == v).all() and (fr > 0).all() and (fr < 1).all()
    return {'reproduced': not ok, 'detail': f'dims={dims} voxel={v.tolist()} -> frac {fr.tolist()} -> voxel {back.tolist()}'}


def bounded_roundtrip(tier, seed):
    import numpy as np
    from gemdat.volume import Volume
    from pymatgen.core import Lattice
    dmax = 512 if tier == 'quick' else 4096
    st = Stand('C08.roundtrip.exhaustive', f'every voxel index 0 <= v < d for every grid size d <= {dmax} (real Volume methods, vectorised per d)',
               'exhaustive; each (d, v) pair is distinct and non-trivial', exhaustive=True)
    lat = Lattice.cubic(3.0)
    n = 0
    for d in range(1, dmax + 1):
        vol = Volume(data=np.zeros((d, 1, 1), dtype=int), lattice=lat)
        v = np.stack([np.arange(d), np.zeros(d, dtype=int), np.zeros(d, dtype=int)], axis=1)
        back = vol.frac_coords_to_voxel(vol.voxel_to_frac_coords(v))
        bad = np.nonzero((back != v).any(axis=1))[0]
        n += d
        if len(bad):
            inp = {'dims': [d, 1, 1], 'voxel': [int(bad[0]), 0, 0]}
            st.violation('roundtrip', replay_roundtrip(inp)['detail'], 'verif.props.c08:replay_roundtrip', inp)
    st.evaluations = n
    st.keys = set(range(n))
    st.sample = {'dims': [7, 1, 1], 'voxel': [6, 0, 0]}
    return st.result()


def replay_volume(inputs):
    import numpy as np
    from verif.native.synth import hopping_system
    bad = []
    if inputs.get('explicit'):
        from gemdat.trajectory import Trajectory
        from pymatgen.core import Element
        coords = np.array(inputs['positions'], dtype=float)
        traj = Trajectory(species=[Element('Li')] * coords.shape[1], coords=coords, lattice=np.diag(inputs['lengths']),
                          time_step=1e-15)
        seed, res = 'explicit', inputs['res']
        exact_edges = True
    else:
        seed, res = inputs['seed'], inputs['res']
        traj, sites, info = hopping_system(seed, n_frames=inputs.get('n_frames', 30), family=inputs.get('family'))
        exact_edges = False
    lat = __import__('pymatgen.core', fromlist=['Lattice']).Lattice(__import__('numpy').array(traj.lattice, dtype=float).reshape(3, 3))  # the raw cell, not the library's get_lattice()
    try:
        vol = traj.to_volume(resolution=res)
    except AssertionError as e:
        return {'reproduced': True, 'detail': f'seed={seed} res={res}: to_volume assertion failed {e}'}
    L = np.array(lat.lengths)
    g = np.floor(L / res).astype(int)
    if tuple(vol.data.shape) != tuple(g) or tuple(vol.dims) != tuple(g):
        bad.append(f'grid {vol.data.shape}, expected floor(L/res) = {tuple(g)}')
    pos = traj.positions.reshape(-1, 3)
    if vol.data.sum() != pos.shape[0]:
        bad.append(f'voxel sum {vol.data.sum()} != frames x atoms {pos.shape[0]}')
    if tuple(vol.data.shape) == tuple(g):
        ref = np.zeros(g, dtype=int)
        idx = np.floor(pos * g).astype(int)
        # positions within 1e-9 of a bin edge are excluded from the cell-wise comparison (A-REAL)
        edge = (np.abs(pos * g - np.round(pos * g)) < 1e-9).any(axis=1)
        if exact_edges and all(float(x).is_integer() for x in (L / res)) and all((gg & (gg - 1)) == 0 for gg in g.tolist()):
            edge[:] = False  # power-of-two grids: k/g is exact in binary64, so edge samples are decided exactly
        np.add.at(ref, tuple(idx[~edge].T), 1)
        got = vol.data.copy()
        if edge.any():
            tmp = np.zeros(g, dtype=int)
            np.add.at(tmp, tuple(np.clip(idx[edge], 0, g - 1).T), 1)
            if np.abs(got - ref).sum() > 2 * edge.sum():
                bad.append('cells differ from floor(x*g) histogram beyond edge cases')
        elif (got != ref).any():
            bad.append(f'cells differ from the floor(x*g) histogram at {np.argwhere(got != ref)[:3].tolist()}')
    vs = vol.voxel_size
    if (vs < res - 1e-12).any() or (vs >= 2 * res).any():
        bad.append(f'voxel edge {vs.tolist()} outside [res, 2res) for res={res}')
    return {'reproduced': bool(bad), 'detail': f'seed={seed} res={res} lattice={np.round(lat.parameters, 3).tolist()}: ' + '; '.join(bad)}


def bounded_volume(tier, seed):
    import numpy as np
    n = 20 if tier == 'quick' else 300
    st = Stand('C08.volume.random', f'{n} synthetic trajectories (30 frames, 5 atoms, all lattice families, integer-shifted coordinates) x '
               'random resolution in (0.2, min cell length]', 'seeded random; non-trivial = non-cubic lattice; distinct by (seed,res)')
    rng = np.random.default_rng(seed + 808)
    # samples exactly on voxel faces of a power-of-two grid (exactly representable edges)
    for gsz in (2, 4, 8):
        pts = [[[k / gsz, ((k + 1) % gsz) / gsz, 0.0] for k in range(gsz)], [[0.5, 0.25, 0.75 if gsz > 2 else 0.5] for k in range(gsz)]]
        inp = {'explicit': True, 'lengths': [float(gsz), float(gsz), float(gsz)], 'res': 1.0, 'positions': pts}
        r = st.guard(replay_volume, inp)
        if r is not None:
            st.case(inp, nontrivial=True, sample=None)
            if r['reproduced']:
                st.violation('volume-edge', r['detail'], 'verif.props.c08:replay_volume', inp)
    # long thin cells with more than 256 and more than 65536 voxels along one axis (index types narrower than the grid would wrap)
    for big, res_ in ((300, 1.0), (70000, 1.0)):
        fr = [[[(k + 0.5) / big, 0.25, 0.75] for k in (0, 1, 255, 256, 257, big // 2, big - 2, big - 1)], [[(big - 1 + 0.25) / big, 0.75, 0.25]] * 8]
        inp = {'explicit': True, 'lengths': [float(big), 2.0, 2.0], 'res': res_, 'positions': fr}
        r = st.guard(replay_volume, inp)
        if r is not None:
            st.case(inp, nontrivial=True, sample=None)
            if r['reproduced']:
                st.violation('volume-long-axis', r['detail'], 'verif.props.c08:replay_volume', inp)
    fams = ['cubic', 'orthorhombic', 'hexagonal', 'monoclinic', 'triclinic']
    for c in range(n):
        fam = fams[c % 5]
        s = int(rng.integers(1, 10 ** 6))
        res = float(np.round(rng.uniform(0.25, 3.5), 3))
        inp = {'seed': s, 'res': res, 'family': fam}
        r = st.guard(replay_volume, inp)
        if r is None:
            continue
        st.case(inp, nontrivial=fam != 'cubic', sample=inp)
        if r['reproduced']:
            st.violation('volume', r['detail'], 'verif.props.c08:replay_volume', inp)
    return st.result()


# generic purity stand-in (arguments unchanged, second call equal, fresh call equal) over this property's API calls
from verif.native.purity import make_bounded as _make_purity  # noqa: E402
from verif.props.purity_reg import REG as _PURITY_REG  # noqa: E402
PURITY = _PURITY_REG['C08']
bounded_purity = _make_purity('C08', PURITY)


# plumbing around the anchored functions: forwarding contracts of the public wrappers, no state shared between calls or objects
from verif.props import plumbing as _plumbing  # noqa: E402


def unit_plumbing(tier):
    return _plumbing.unit_plumbing(PROPERTY)


bounded_plumbing = _plumbing.make_bounded(PROPERTY)

"""C06 — mean squared displacement and tracer diffusivity equal their definitions."""
from __future__ import annotations

import z3

from verif.bounded import Stand
from verif.engine import values as V
from verif.engine.core import Unsupported
from verif.engine.interp import PyFn
from verif.engine.unit import Unit
from verif.engine.values import SObj, STensor, as_tensor, is_sym, to_z3
from verif.props.common import install_common, traj_object

PROPERTY = 'C06'
MANIFEST = {
    'level_text': 'Proved for all frame counts n >= 1 and atom counts, every cell (floats as reals; the FFT autocorrelation theorem is the assumed contract of '
                  'numpy.fft, its side conditions are obligations): mean_squared_displacement() transposes the Cartesian image of the cumulative '
                  '(unwrapped) displacements, pads the FFT to 2n >= 2n-1, keeps the real part of the first n lags, and its result is '
                  '(2 Sum D - CumSum(insert(D)+flip(D)))[m]/(n-m) - 2 Sum_c AC_c[m]/(n-m); by induction lemmas (prefix sums, shift, flip, per-term '
                  '(u-v)^2 = u^2+v^2-2uv) that equals (1/(n-m)) Sum_{t<n-m} |r(t+m)-r(t)|^2, and is zero at lag 0.  Distance from the start = Cartesian '
                  'length of the unwrapped displacement (units of C01, re-run here); tracer diffusivity = mean_i dist[i,last]^2 A^2/(2 d T dt) (unit of C14, re-run here).',
    'level_note': 'Trusted: numpy.fft Wiener-Khinchin contract (ifft(|fft(x, 2n)|^2)[m] = Sum_t x[t] x[t+m] for m < n when the padded length >= 2n-1), '
                  'pymatgen Lattice.get_cartesian_coords = f . M, numpy sum/cumsum as recursive spec functions, floats as reals (FFT round-off not modelled), pyvc itself.',
    'technique': 'deductive: VCs from the real AST of Trajectory.mean_squared_displacement, induction lemmas over the proved algebraic form; z3/cvc5; '
                 'native replay; brute-force double loop on random triclinic trajectories as bounded stand-in',
}
UNITS = ['unit_msd', 'unit_lemmas', 'unit_dependencies', 'unit_plumbing']
BOUNDED = ['bounded_msd', 'bounded_purity', 'bounded_plumbing']
META = {'clauses': {'C06.pad': 'P', 'C06.S2': 'A (FFT theorem) + P (bookkeeping)', 'C06.S1': 'P', 'C06.msd': 'P', 'C06.cart': 'P', 'C06.tracer': 'P (C14 unit re-run)', 'C06.dist': 'P (C01 units re-run)'},
        'not_decided': ['round-off of the FFT route against the direct sum (A-REAL): bounded comparison with tolerance only']}


def unit_msd(tier):
    u = Unit('C06.msd')
    install_common(u)
    rec = {}
    cum = z3.Function('cum', z3.IntSort(), z3.IntSort(), z3.IntSort(), z3.RealSort())
    R = z3.Function('cart', z3.IntSort(), z3.IntSort(), z3.IntSort(), z3.RealSort())  # r[t,i,c]: Cartesian unwrapped displacement
    junk = z3.Function('fft_tail', z3.IntSort(), z3.IntSort(), z3.IntSort(), z3.RealSort())

    def setup(interp):
        ctx = interp.ctx
        rec.clear()
        tr, st = traj_object(ctx, 'displacements')
        T, N = st['T'], st['N']
        cum_t = STensor((T, N, 3), lambda t, a, c: cum(to_z3(t), to_z3(a), to_z3(c)), 'real')
        u.contracts['gemdat.trajectory.Trajectory.cumulative_displacements'] = lambda ii, self: cum_t
        u.contracts['gemdat.trajectory.Trajectory.get_lattice'] = lambda ii, self: st['lat']

        def cart(interp2, obj, line):
            def call(i3, l3, f):
                rec['cart_of'] = f
                rec['cart_lat'] = obj
                i3.ctx.use('pymatgen Lattice.get_cartesian_coords(f) = f . matrix (opaque here; its result is r[t,i,c])')
                ft = as_tensor(f)
                return STensor(ft.shape, lambda t, a, c: R(to_z3(t), to_z3(a), to_z3(c)), 'real')
            return PyFn(call)
        u.obj_attrs[('Lattice', 'get_cartesian_coords')] = cart
        st['cum_t'] = cum_t
        return [tr], {}, st

    def fft(interp, line, x, n=None, axis=-1):
        rec['fft'] = {'x': x, 'n': n, 'axis': axis % as_tensor(x).ndim}
        return SObj('Spectrum', of=x)

    def np_abs(interp, line, x):
        if isinstance(x, SObj) and x._cls == 'Spectrum':
            return Power('AbsSpectrum', of=x.get('of'))
        return u.np.f_abs(interp, line, x)

    class Power(SObj):
        hooked = True

    def binary_hook(interp, op, a, b, line):
        if isinstance(a, Power) and a._cls == 'AbsSpectrum' and op == '**' and not is_sym(b) and b == 2:
            return Power('PowerSpectrum', of=a.get('of'))
        if isinstance(a, Power) or isinstance(b, Power):
            raise Unsupported(f'{op} on a spectrum', line)
        return NotImplemented

    def ifft(interp, line, p, n=None, axis=-1):
        ctx = interp.ctx
        if not (isinstance(p, SObj) and p._cls == 'PowerSpectrum') or n is not None:
            raise Unsupported('ifft of something that is not |fft|^2', line)
        x = as_tensor(p.get('of'))
        f = rec['fft']
        ax = axis % x.ndim
        nt = x.shape[f['axis']]
        ctx.use('numpy.fft (Wiener-Khinchin): ifft(|fft(x, n=L, axis)|^2, axis)[m] = Sum_{t<n-m} x[t] x[t+m] for 0 <= m < n, real, provided L >= 2n-1 and both transforms run along the same axis')
        ctx.oblige(f'{interp.cur_func}.fft-and-ifft-along-the-same-axis@{line}', z3.BoolVal(ax == f['axis']), kind='pre', line=line)
        ctx.oblige(f'{interp.cur_func}.fft-padding>=2n-1@{line}', to_z3(f['n']) >= 2 * to_z3(nt) - 1, kind='pre', line=line)
        if x.ndim != 3 or ax != 1:
            raise Unsupported('autocorrelation model: (atoms, time, xyz) with time on axis 1', line)
        xf = x.fn
        AC = u.sum_fn(ctx, lambda i, c, m, k: V.to_real(xf(i, k, c)) * V.to_real(xf(i, k + m, c)), nt, 'real', nparams=3, label='AC')
        rec['AC'] = AC
        rec['x'] = x
        shape = list(x.shape)
        shape[ax] = f['n']
        return STensor(tuple(shape), lambda i, m, c: z3.If(z3.And(to_z3(m) >= 0, to_z3(m) < to_z3(nt)),
                                                           AC(to_z3(i), to_z3(c), to_z3(m), to_z3(nt) - to_z3(m)), junk(to_z3(i), to_z3(m), to_z3(c))), 'real')
    u.lib['numpy.fft.fft'] = fft
    u.lib['numpy.fft.ifft'] = ifft
    u.lib['numpy.abs'] = np_abs
    u.binary_hook = binary_hook

    def post(interp, st, msd):
        ctx = interp.ctx
        T, N = st['T'], st['N']
        out = [('r = Cartesian image of the cumulative (unwrapped) displacements in the trajectory lattice',
                z3.BoolVal(rec.get('cart_of') is st['cum_t'] and rec.get('cart_lat') is st['lat']))]
        sums = ctx.ghost.get('sums', [])
        if len(sums) != 5 or 'AC' not in rec:
            return out + [('five reductions: AC, sum over xyz of AC, D, total of D, cumulative sum', z3.BoolVal(False))]
        AC, S2, S3, S4, S5 = [s['S'] for s in sums]
        f1, f2, f3, f4, f5 = [s['f'] for s in sums]
        i, t, m, c, k = z3.Ints('pi pt pm pc pk')
        ri = z3.And(i >= 0, i < N)
        Dext = lambda ii, tt: z3.If(tt < T, S3(ii, tt, 3), z3.RealVal(0))  # noqa: E731
        out += [
            ('shape (N, n)', z3.And(msd.shape[0] == N, msd.shape[1] == T)),
            ('pos = transpose of r: autocorrelation summand is r[t,i,c] r[t+m,i,c]', z3.ForAll([i, c, m, k], z3.Implies(
                z3.And(ri, c >= 0, c < 3, m >= 0, k >= 0, k + m < T), f1(i, c, m, k) == R(k, i, c) * R(k + m, i, c)))),
            ('S2 sums the first n lags of the autocorrelation over xyz', z3.ForAll([i, m, c], z3.Implies(
                z3.And(ri, m >= 0, m < T, c >= 0, c < 3), f2(i, m, c) == AC(i, c, m, T - m)))),
            ('D[i,t] = sum over xyz of r^2', z3.ForAll([i, t, c], z3.Implies(z3.And(ri, t >= 0, t < T, c >= 0, c < 3), f3(i, t, c) == R(t, i, c) * R(t, i, c)))),
            ('total is over D extended by one zero', z3.And(to_z3(sums[3]['n']) == T + 1, z3.ForAll([i, t], z3.Implies(z3.And(ri, t >= 0, t <= T), f4(i, t) == Dext(i, t))))),
            ('cumulative-sum summand = (0, D[0..n-1])[j] + reversed(D, 0)[j]', z3.And(to_z3(sums[4]['n']) == T + 1, z3.ForAll([i, t], z3.Implies(
                z3.And(ri, t >= 0, t <= T), f5(i, t) == z3.If(t == 0, z3.RealVal(0), Dext(i, t - 1)) + Dext(i, T - t))))),
            ('msd[i,m] = (2 total - cumsum[m]) / (n-m) - 2 (sum_c AC_c[m]) / (n-m)', z3.ForAll([i, m], z3.Implies(
                z3.And(ri, m >= 0, m < T), msd.at(i, m) == (2 * S4(i, T + 1) - S5(i, m + 1)) / z3.ToReal(T - m) - 2 * (S2(i, m, 3) / z3.ToReal(T - m))))),
        ]
        return out
    u.prove_function('gemdat.trajectory', 'Trajectory.mean_squared_displacement', setup, post, raises=(),
                     replay={'fn': 'verif.props.c06:replay_msd', 'sizes': lambda st: [], 'concretise': lambda mm, st, ob: {'seed': 7}})
    return u


def unit_lemmas(tier):
    """From the algebraic form proved in unit C06.msd to the definition, for one atom; n frames, lag m."""
    u = Unit('C06.lemmas')
    r = [z3.Function(f'r{c}', z3.IntSort(), z3.RealSort()) for c in range(3)]
    D = lambda t: sum(r[c](t) * r[c](t) for c in range(3))  # noqa: E731
    PS = z3.Function('PS', z3.IntSort(), z3.RealSort())  # prefix sums of D
    n, m, k = z3.Ints('n m k')

    def ps_ax(ctx, *pts):
        ctx.assume(PS(0) == 0)
        for p in pts:
            ctx.assume(z3.Implies(p >= 0, PS(p + 1) == PS(p) + D(p)))

    def total(ctx):
        """Sum over D extended by a zero: S4(k) = PS(k) for k <= n (induction), S4(n+1) = PS(n)."""
        S4 = z3.Function('S4', z3.IntSort(), z3.RealSort())
        Dext = lambda t: z3.If(t < n, D(t), z3.RealVal(0))  # noqa: E731
        ctx.assume(z3.And(n >= 1, k >= 0, k < n))
        ps_ax(ctx, k)
        ctx.assume(z3.And(S4(0) == 0, S4(k + 1) == S4(k) + Dext(k), S4(n + 1) == S4(n) + Dext(n)))
        ctx.assume(S4(k) == PS(k))
        return [('base', S4(0) == PS(0)), ('step', S4(k + 1) == PS(k + 1)), ('last element is the appended zero', z3.Implies(S4(n) == PS(n), S4(n + 1) == PS(n)))]
    u.lemma('C06.S1.total(induction)', total)

    def cums(ctx):
        """S5(m+1) = PS(m) + PS(n) - PS(n-m) for 0 <= m <= n: induction on m."""
        S5 = z3.Function('S5', z3.IntSort(), z3.RealSort())
        Dext = lambda t: z3.If(t < n, D(t), z3.RealVal(0))  # noqa: E731
        A = lambda j: z3.If(j == 0, z3.RealVal(0), Dext(j - 1)) + Dext(n - j)  # noqa: E731
        ctx.assume(z3.And(n >= 1, m >= 0, m + 1 <= n))
        ps_ax(ctx, m, n - m - 1)
        ctx.assume(z3.And(S5(0) == 0, S5(1) == S5(0) + A(0), S5(m + 2) == S5(m + 1) + A(m + 1)))
        ctx.assume(S5(m + 1) == PS(m) + PS(n) - PS(n - m))
        return [('base', S5(1) == PS(0) + PS(n) - PS(n - 0)), ('step', S5(m + 2) == PS(m + 1) + PS(n) - PS(n - (m + 1)))]
    u.lemma('C06.S1.cumsum-of-insert-plus-flip(induction)', cums)

    def shift(ctx):
        """SH(k) = sum_{t<k} D(t+m) = PS(k+m) - PS(m): induction on k."""
        SH = z3.Function('SH', z3.IntSort(), z3.RealSort())
        ctx.assume(z3.And(m >= 0, k >= 0))
        ps_ax(ctx, k + m)
        ctx.assume(z3.And(SH(0) == 0, SH(k + 1) == SH(k) + D(k + m)))
        ctx.assume(SH(k) == PS(k + m) - PS(m))
        return [('base', SH(0) == PS(0 + m) - PS(m)), ('step', SH(k + 1) == PS(k + 1 + m) - PS(m))]
    u.lemma('C06.S1.shift(induction)', shift)

    def square(ctx):
        """MS(k) = sum_{t<k} |r(t+m)-r(t)|^2 = PS(k) + SH(k) - 2 sum_c AC_c(k): induction on k with (u-v)^2 = u^2 + v^2 - 2uv per coordinate."""
        MS, SH = z3.Function('MS', z3.IntSort(), z3.RealSort()), z3.Function('SH', z3.IntSort(), z3.RealSort())
        AC = [z3.Function(f'AC{c}', z3.IntSort(), z3.RealSort()) for c in range(3)]
        ctx.assume(z3.And(m >= 0, k >= 0))
        ps_ax(ctx, k)
        sq = sum((r[c](k + m) - r[c](k)) * (r[c](k + m) - r[c](k)) for c in range(3))
        ctx.assume(z3.And(MS(0) == 0, MS(k + 1) == MS(k) + sq, SH(0) == 0, SH(k + 1) == SH(k) + D(k + m)))
        for c in range(3):
            ctx.assume(z3.And(AC[c](0) == 0, AC[c](k + 1) == AC[c](k) + r[c](k) * r[c](k + m)))
        tot = lambda kk: PS(kk) + SH(kk) - 2 * (AC[0](kk) + AC[1](kk) + AC[2](kk))  # noqa: E731
        ctx.assume(MS(k) == tot(k))
        return [('base', MS(0) == tot(0)), ('step', MS(k + 1) == tot(k + 1))]
    u.lemma('C06.msd.per-term-square(induction)', square)

    def final(ctx):
        """Putting the lemmas together at k = n-m: the value returned by the code is the definition."""
        msd, tot, cs, sh, ms, ac, psn, psm, psnm = z3.Reals('msd total cumsum SH MS ACsum PSn PSm PSnm')
        ctx.assume(z3.And(n >= 1, m >= 0, m < n))
        ctx.assume(msd == (2 * tot - cs) / z3.ToReal(n - m) - 2 * (ac / z3.ToReal(n - m)))  # C06.msd unit
        ctx.assume(tot == psn)  # lemma total
        ctx.assume(cs == psm + psn - psnm)  # lemma cumsum
        ctx.assume(sh == psn - psm)  # lemma shift at k = n-m
        ctx.assume(ms == psnm + sh - 2 * ac)  # lemma square at k = n-m
        return [('msd = MS(n-m) / (n-m)', msd == ms / z3.ToReal(n - m))]
    u.lemma('C06.msd.definition', final)

    def lag0(ctx):
        MS = z3.Function('MS0', z3.IntSort(), z3.RealSort())
        ctx.assume(k >= 0)
        sq = sum((r[c](k + 0) - r[c](k)) * (r[c](k + 0) - r[c](k)) for c in range(3))
        ctx.assume(z3.And(MS(0) == 0, MS(k + 1) == MS(k) + sq, MS(k) == 0))
        return [('base', MS(0) == 0), ('step', MS(k + 1) == 0)]
    u.lemma('C06.msd.zero-at-lag-0(induction)', lag0)
    return u


def unit_dependencies(tier):
    """The clauses shared with C01 (distance from the start = Cartesian length of the unwrapped displacement) and C14 (tracer diffusivity formula)
    are re-run here from the same source, so that a change breaking them is reported under C06 as well."""
    from verif.props import c01, c14
    from verif.props.common import merge_units
    f = c14.unit_formulas(tier)
    f.results = [r for r in f.results if 'tracer_diffusivity' in r.get('label', '') and 'center_of_mass' not in r.get('label', '')]
    return merge_units('C06.dependencies', [c01.unit_lengths(tier), c01.unit_distances(tier), f])


# ---------------------------------------------------------------------------------------------------------------

def replay_msd(inputs):
    import warnings
    import numpy as np
    from gemdat.trajectory import Trajectory
    from pymatgen.core import Element
    from verif.native.synth import random_lattice
    warnings.filterwarnings('ignore')
    rng = np.random.default_rng(inputs['seed'])
    lat = random_lattice(rng)
    T, N = int(inputs.get('T', rng.integers(2, 25))), int(inputs.get('N', rng.integers(1, 5)))
    scale = float(inputs.get('step', 0.2))
    steps = rng.normal(scale=scale, size=(T, N, 3))
    steps = np.clip(steps, -0.45, 0.45)  # each step below half a cell so that unwrapping is defined
    steps[0] = 0
    base = rng.random((N, 3))
    unwrapped = base + np.cumsum(steps, axis=0)
    coords = np.mod(unwrapped, 1)  # the user hands in wrapped positions: atoms cross faces many times
    tr = Trajectory(species=[Element('Li')] * N, coords=coords, lattice=lat.matrix, time_step=1e-15, metadata={'temperature': 300})
    cart = (unwrapped - unwrapped[0]) @ lat.matrix
    msd = np.asarray(tr.mean_squared_displacement())
    bad = []
    if msd.shape != (N, T):
        bad.append(f'shape {msd.shape} != {(N, T)}')
    elif np.iscomplexobj(msd):
        bad.append('complex result')
    else:
        ref = np.zeros((N, T))
        for i in range(N):
            for m in range(T):
                d = cart[m:, i] - cart[:T - m, i]
                ref[i, m] = np.mean(np.sum(d * d, axis=-1))
        if not np.allclose(msd, ref, rtol=1e-7, atol=1e-9 * max(1.0, ref.max())):
            w = np.unravel_index(np.argmax(np.abs(msd - ref)), ref.shape)
            bad.append(f'msd[{w}] = {msd[w]} but the definition gives {ref[w]}')
        if not np.allclose(msd[:, 0], 0, atol=1e-9 * max(1.0, ref.max())):
            bad.append(f'msd at lag 0 = {msd[:, 0]}')
    dist = np.asarray(tr.distances_from_base_position())
    refd = np.linalg.norm(cart, axis=-1).T
    if dist.shape != refd.shape or not np.allclose(dist, refd, rtol=1e-8, atol=1e-10):
        bad.append('distances_from_base_position != |unwrapped Cartesian displacement|')
    for d in (1, 2, 3):
        D = float(tr.metrics().tracer_diffusivity(dimensions=d))
        Dref = np.mean(refd[:, -1] ** 2) * 1e-20 / (2 * d * T * 1e-15)
        if not np.isclose(D, Dref, rtol=1e-8, atol=0):
            bad.append(f'tracer_diffusivity(d={d}) = {D} != {Dref}')
    # the same motion handed over as displacements (coords_are_displacement=True, as the result of a drift correction is), and the drift-corrected
    # trajectory of a system whose drift is zero: same MSD, same distances
    if msd.shape == (N, T) and not np.iscomplexobj(msd):
        trd = Trajectory(species=[Element('Li')] * N, coords=steps.copy(), lattice=lat.matrix, time_step=1e-15, metadata={'temperature': 300},
                         coords_are_displacement=True, base_positions=base.copy())
        for name, other in (('a trajectory given as displacements', trd),):
            m2 = np.asarray(other.mean_squared_displacement())
            d2 = np.asarray(other.distances_from_base_position())
            if m2.shape != msd.shape or not np.allclose(m2, ref, rtol=1e-7, atol=1e-9 * max(1.0, ref.max())):
                bad.append(f'MSD of {name} differs from the definition')
            if d2.shape != refd.shape or not np.allclose(d2, refd, rtol=1e-8, atol=1e-10):
                bad.append(f'distances of {name} differ from |unwrapped Cartesian displacement|')
        # two species: correcting for the drift of a species that does not move leaves the other one's MSD as it was
        if N >= 1:
            sp2 = [Element('Li')] * N + [Element('O')]
            c2 = np.concatenate([coords, np.broadcast_to(np.array([[0.3, 0.4, 0.5]]), (T, 1, 3))], axis=1)
            corr = Trajectory(species=sp2, coords=c2, lattice=lat.matrix, time_step=1e-15, metadata={'temperature': 300}).apply_drift_correction(fixed_species='O')
            m3 = np.asarray(corr.filter('Li').mean_squared_displacement())
            if m3.shape != ref.shape or not np.allclose(m3, ref, rtol=1e-7, atol=1e-9 * max(1.0, ref.max())):
                bad.append('MSD of the diffusing atoms after correcting for the (zero) drift of a static species differs from the definition')
            m4 = np.asarray(corr.mean_squared_displacement())[:N]
            if m4.shape != ref.shape or not np.allclose(m4, ref, rtol=1e-7, atol=1e-9 * max(1.0, ref.max())):
                bad.append('MSD taken directly on the drift-corrected trajectory differs from the definition')
    # the same object asked again, and asked again after it was extended in place: the answers belong to the current frames
    msd_again = np.asarray(tr.mean_squared_displacement())
    dist_again = np.asarray(tr.distances_from_base_position())
    if msd_again.shape != msd.shape or not np.allclose(msd_again, msd, rtol=1e-9, atol=1e-12) or not np.allclose(dist_again, dist, rtol=1e-9, atol=1e-12):
        bad.append('a second MSD / distance query on the same object gives a different answer')
    more = rng.normal(scale=scale, size=(3, N, 3)).clip(-0.45, 0.45)
    unwrapped2 = np.concatenate([unwrapped, unwrapped[-1] + np.cumsum(more, axis=0)])
    tail = Trajectory(species=[Element('Li')] * N, coords=np.mod(unwrapped2[T:], 1), lattice=lat.matrix, time_step=1e-15, metadata={'temperature': 300})
    try:
        tr.extend(tail)
        dist_ext = np.asarray(tr.distances_from_base_position())
        ref_ext = np.linalg.norm((unwrapped2 - unwrapped2[0]) @ lat.matrix, axis=-1).T
        if dist_ext.shape != ref_ext.shape or not np.allclose(dist_ext, ref_ext, rtol=1e-8, atol=1e-10):
            bad.append('after extend() the distances from the start are not those of the extended trajectory')
    except Exception as e:
        tb_ = __import__('traceback').extract_tb(e.__traceback__)
        if any('/src/gemdat/' in f.filename for f in tb_):
            bad.append(f'extend / query after extend raised {type(e).__name__}: {e}')
        else:
            raise
    return {'reproduced': bool(bad), 'detail': f'seed={inputs["seed"]} T={T} N={N} lattice={np.round(lat.matrix, 3).tolist()}: ' + '; '.join(bad[:3])}


def bounded_msd(tier, seed):
    import numpy as np
    n = 30 if tier == 'quick' else 6000
    st = Stand('C06.msd.bruteforce', f'{n} random trajectories: 2-24 frames (plus T=2,3 forced), 1-4 atoms, all lattice families incl. triclinic, steps up to 0.45 of the cell (many face crossings)',
               'seeded random vs brute-force double loop over time origins on independently unwrapped Cartesian positions; rtol 1e-7')
    rng = np.random.default_rng(seed + 606)
    for c in range(n):
        inp = {'seed': int(rng.integers(1, 10 ** 6)), 'step': float(rng.choice([0.05, 0.2, 0.4]))}
        if c % 10 == 0:
            inp['T'] = 2 + (c // 10) % 2
        if c % 10 == 1:
            inp['N'] = 1
        r = st.guard(replay_msd, inp)
        if r is None:
            continue
        st.case(inp, nontrivial=True, sample=inp)
        if r['reproduced']:
            st.violation('msd', r['detail'], 'verif.props.c06:replay_msd', inp)
    return st.result()


# generic purity stand-in (arguments unchanged, second call equal, fresh call equal) over this property's API calls
from verif.native.purity import make_bounded as _make_purity  # noqa: E402
from verif.props.purity_reg import REG as _PURITY_REG  # noqa: E402
PURITY = _PURITY_REG['C06']
bounded_purity = _make_purity('C06', PURITY)


# plumbing around the anchored functions: forwarding contracts of the public wrappers, no state shared between calls or objects
from verif.props import plumbing as _plumbing  # noqa: E402


def unit_plumbing(tier):
    return _plumbing.unit_plumbing(PROPERTY)


bounded_plumbing = _plumbing.make_bounded(PROPERTY)

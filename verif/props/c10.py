"""C10 — optimal and percolating paths are valid, correctly reported and cost-minimal."""
from __future__ import annotations

import z3

from verif.bounded import Stand
from verif.engine.core import Unsupported
from verif.engine.interp import PyFn, _Raise
from verif.engine.unit import Unit
from verif.engine.values import SObj, SSeq, STensor, is_sym

PROPERTY = 'C10'
MANIFEST = {
    'level_text': 'Proved for all path lengths / grid sizes: wrapped_sites and frac_sites use the modulus of the matching axis and land in the '
                  'grid (C10.wrap); optimal_path passes for every method literal the weight key and networkx algorithm the criterion '
                  'requires, converts start/stop, reports energy[k] = F[sites[k]] and rejects unknown methods (C10.dispatch, C10.valid glue); '
                  'optimal_percolating_path asks for stop = start + dims*mask in the tiled grid, keeps the first strictly cheapest peak and '
                  'restores dims (C10.perc). Path validity/minimality themselves are networkx contracts (assumed) and are cross-checked only '
                  'by the bounded brute-force stand-in on small grids; free_energy_graph is bounded only in this round. '
                  'method="minmax-energy" is the recorded known finding C10-minmax-dead; the four corner directions absent from the diagonal '
                  'movement list are the recorded known finding C10-corner-moves (the stand-in checks the edge set against the full periodic '
                  '26-neighbourhood of the property minus exactly these directions).',
    'level_note': 'Trusted: networkx shortest_path contract (returns a minimal-cost simple path for non-negative weights or raises NetworkXNoPath), '
                  'numpy tile/array contracts, dataclass construction of Pathway, integers unbounded, pyvc itself.',
    'technique': 'deductive: VCs from the real AST of Pathway.wrapped_sites/frac_sites, optimal_path, optimal_percolating_path with a loop '
                 'invariant; z3; finite-scope counter-models replayed natively; bounded brute-force all-simple-paths oracle as stand-in',
}
UNITS = ['unit_wrap', 'unit_frac', 'unit_dispatch', 'unit_percolate', 'unit_plumbing']
BOUNDED = ['bounded_wrap', 'bounded_paths', 'bounded_purity', 'bounded_plumbing']
META = {
    'clauses': {'C10.wrap': 'P', 'C10.dispatch': 'P (minmax-energy: known finding)', 'C10.valid': 'A (networkx) + P (glue)',
                'C10.minimal': 'A (networkx) + B', 'C10.perc.stop/min': 'P + A per peak', 'C10.graph': 'B (this round)'},
    'not_decided': ['correctness of networkx Dijkstra/Bellman-Ford (assumed contract; brute-force oracle on small grids is bounded)',
                    'free_energy_graph node/edge/weight spec: bounded stand-in only in this round'],
}


# ---------------------------------------------------------------------------------------------------------------
# C10.wrap
# ---------------------------------------------------------------------------------------------------------------

def _pathway(ctx):
    L = z3.Int('n_steps')
    ctx.assume(L >= 0)
    sx = [z3.Function(f'site_{c}', z3.IntSort(), z3.IntSort()) for c in 'xyz']
    dims = tuple(z3.Int(f'dim_{c}') for c in 'xyz')
    for d in dims:
        ctx.assume(d >= 1)
    sites = SSeq(L, lambda k: (sx[0](k), sx[1](k), sx[2](k)))
    p = SObj('Pathway', sites=sites, dims=dims, energy=SSeq(L, lambda k: z3.RealVal(0)))
    return p, {'L': L, 'sx': sx, 'dims': dims}


def _conc_path(model, st, ob):
    L = model.eval(st['L'], model_completion=True).as_long()
    if L > 40:
        raise ValueError('too long')
    dims = [model.eval(d, model_completion=True).as_long() for d in st['dims']]
    sites = [[model.eval(f(k), model_completion=True).as_long() for f in st['sx']] for k in range(L)]
    return {'dims': dims, 'sites': sites}


def unit_wrap(tier):
    u = Unit('C10.wrap')

    def setup(interp):
        p, st = _pathway(interp.ctx)
        return [p], {}, st

    def post(interp, st, res):
        k = z3.Int('k')
        L, sx, dims = st['L'], st['sx'], st['dims']
        if not isinstance(res, SSeq):
            return [('result is the per-site list', z3.BoolVal(False))]
        item = res.fn(k)
        conds = [res.length == L]
        for c in range(3):
            conds.append(z3.ForAll([k], z3.Implies(z3.And(k >= 0, k < L),
                                                   z3.And(item[c] == sx[c](k) % dims[c], item[c] >= 0, item[c] < dims[c]))))
        return [('length', conds[0]), ('x', conds[1]), ('y', conds[2]), ('z', conds[3])]

    u.prove_function('gemdat.path', 'Pathway.wrapped_sites', setup, post, raises=(),
                     replay={'fn': 'verif.props.c10:replay_wrap', 'concretise': _conc_path,
                             'sizes': lambda st: [st['L']] + list(st['dims'])})
    return u


def unit_frac(tier):
    u = Unit('C10.frac')

    def setup(interp):
        p, st = _pathway(interp.ctx)
        return [p], {}, st

    def post(interp, st, res):
        k, c = z3.Ints('k c')
        L, sx, dims = st['L'], st['sx'], st['dims']
        out = []
        for ax in range(3):
            v = res.at(k, ax)
            out.append((f'axis{ax}', z3.ForAll([k], z3.Implies(z3.And(k >= 0, k < L),
                                                               z3.And(v >= 0, v < 1,
                                                                      v == (z3.ToReal(sx[ax](k) % dims[ax]) + z3.RealVal('1/2')) / z3.ToReal(dims[ax]))))))
        return out

    u.prove_function('gemdat.path', 'Pathway.frac_sites', setup, post, raises=(),
                     replay={'fn': 'verif.props.c10:replay_wrap', 'concretise': _conc_path,
                             'sizes': lambda st: [st['L']] + list(st['dims'])})
    return u


def replay_wrap(inputs):
    import numpy as np
    from gemdat.path import Pathway
    dims = tuple(inputs['dims'])
    sites = [tuple(s) for s in inputs['sites']]
    p = Pathway(sites=sites, energy=[0.0] * len(sites), dims=dims)
    bad = []
    try:
        w = p.wrapped_sites()
        f = p.frac_sites() if sites else np.zeros((0, 3))
    except Exception as e:
        return {'reproduced': True, 'detail': f'raised {type(e).__name__}: {e} for dims={dims} sites={sites}'}
    for k, s in enumerate(sites):
        exp = tuple(s[c] % dims[c] for c in range(3))
        if tuple(w[k]) != exp:
            bad.append(f'wrapped_sites[{k}] = {tuple(w[k])}, expected {exp}')
        ef = [(exp[c] + 0.5) / dims[c] for c in range(3)]
        if any(abs(f[k][c] - ef[c]) > 1e-12 or not (0 <= f[k][c] < 1) for c in range(3)):
            bad.append(f'frac_sites[{k}] = {list(f[k])}, expected {ef}')
    return {'reproduced': bool(bad), 'detail': f'dims={dims} sites={sites}: ' + '; '.join(bad[:4])}


def bounded_wrap(tier, seed):
    import itertools
    st = Stand('C10.wrap.exhaustive', 'dims in {1..4}^3, one site with coordinates in [-5, 9]^3 (quick: coordinates on a 4-value grid per axis)',
               'exhaustive over the stated grid; non-trivial = unequal dims; distinct by (dims, site)', exhaustive=True)
    coords = [-5, -1, 3, 7] if tier == 'quick' else list(range(-5, 10))
    for dims in itertools.product(range(1, 5), repeat=3):
        for s in itertools.product(coords, repeat=3):
            inp = {'dims': list(dims), 'sites': [list(s)]}
            r = replay_wrap(inp)
            st.case((dims, s), nontrivial=len(set(dims)) > 1, sample=inp)
            if r['reproduced']:
                st.violation('wrap', r['detail'], 'verif.props.c10:replay_wrap', inp)
    return st.result()


# ---------------------------------------------------------------------------------------------------------------
# C10.dispatch  (optimal_path)
# ---------------------------------------------------------------------------------------------------------------
SPEC_DISPATCH = {
    'simple': (None, 'dijkstra'),
    'dijkstra': ('weight', 'dijkstra'),
    'bellman-ford': ('weight', 'bellman-ford'),
    'dijkstra-exp': ('weight_exp', 'dijkstra'),
}


def _graph(ctx):
    energy = z3.Function('node_energy', z3.IntSort(), z3.IntSort(), z3.IntSort(), z3.RealSort())
    return SObj('Graph', _energy=energy)


def _install_nx(u, record):
    """networkx.shortest_path contract: records how it was called; returns an abstract simple path from source to target."""
    def shortest_path(interp, line, G, source=None, target=None, weight=None, method='dijkstra'):
        ctx = interp.ctx
        ctx.use('networkx.shortest_path(G,s,t,weight,method): minimal-cost simple path of existing edges from s to t for '
                'non-negative weights, or NetworkXNoPath')
        record.append({'G': G, 'source': source, 'target': target, 'weight': weight, 'method': method})
        if method not in ('dijkstra', 'bellman-ford'):
            raise _Raise('ValueError', line=line)
        nopath = ctx.fresh_bool('nx_no_path')
        if interp.ctx.branch(nopath, line):
            raise _Raise('nx.NetworkXNoPath', line=line)
        L = ctx.fresh_int('path_len')
        ctx.assume(L >= 1)
        nx_ = [ctx.fresh_fun(f'path_{c}', z3.IntSort(), z3.IntSort()) for c in 'xyz']
        for c in range(3):
            ctx.assume(nx_[c](0) == source[c])
            ctx.assume(nx_[c](L - 1) == target[c])
        p = SSeq(L, lambda k: (nx_[0](k), nx_[1](k), nx_[2](k)))
        p.nx_call = record[-1]
        return p
    u.lib['networkx.shortest_path'] = shortest_path

    prev = u.subscript_hook

    def subscript_hook(interp, base, idx, line):
        # F_graph.nodes[node]['energy']
        if isinstance(base, SObj) and base._cls == 'NodeView':
            return SObj('NodeData', node=idx, graph=base.get('graph'))
        if isinstance(base, SObj) and base._cls == 'NodeData':
            if idx != 'energy':
                raise _Raise('KeyError', line=line)
            n = base.get('node')
            return base.get('graph').get('_energy')(*[z3.IntVal(x) if isinstance(x, int) else x for x in n])
        return prev(interp, base, idx, line)
    u.subscript_hook = subscript_hook
    u.obj_attrs[('Graph', 'nodes')] = lambda interp, obj, line: SObj('NodeView', graph=obj)


def unit_dispatch(tier):
    """optimal_path: for every method literal the call into networkx carries the weight key / algorithm the criterion
    demands; unknown methods raise ValueError; result sites are the returned path, energy[k] = energy(sites[k])."""
    u = Unit('C10.dispatch')
    methods = list(SPEC_DISPATCH) + ['minmax-energy', 'no-such-method']
    for method in methods:
        record = []
        _install_nx(u, record)
        minmax_called = []

        def minmax_contract(interp, F_graph, start=None, stop=None, optimal_path=None, _mc=minmax_called):
            _mc.append(True)
            L = interp.ctx.fresh_int('mm_len')
            interp.ctx.assume(L >= 1)
            f = [interp.ctx.fresh_fun(f'mm_{c}', z3.IntSort(), z3.IntSort()) for c in 'xyz']
            p = SSeq(L, lambda k: (f[0](k), f[1](k), f[2](k)))
            p.minmax = True
            return p
        u.contracts['gemdat.path._optimal_path_minmax_energy'] = minmax_contract

        def setup(interp, method=method):
            ctx = interp.ctx
            G = _graph(ctx)
            s = [z3.Int(f'start_{c}') for c in 'xyz']
            t = [z3.Int(f'stop_{c}') for c in 'xyz']
            return [G], {'start': list(s), 'stop': list(t), 'method': method}, {'G': G, 's': s, 't': t}

        def post(interp, st, res, method=method, record=record, minmax_called=minmax_called):
            out = []
            if method == 'no-such-method':
                return [('unknown method must raise ValueError', z3.BoolVal(False))]
            call = record[-1] if record else None
            if method == 'minmax-energy':
                # known finding C10-minmax-dead: outside the recorded region nothing is claimed for this literal
                return [('reached (recorded finding region, nothing claimed)', z3.BoolVal(True))]
            want_w, want_m = SPEC_DISPATCH[method]
            out.append(('weight-key', z3.BoolVal(call is not None and call['weight'] == want_w)))
            out.append(('algorithm', z3.BoolVal(call is not None and call['method'] == want_m)))
            out.append(('endpoints-are-tuples', z3.BoolVal(call is not None and isinstance(call['source'], tuple) and isinstance(call['target'], tuple))))
            sites, energy = res.get('sites'), res.get('energy')
            out.append(('sites-are-the-networkx-path', z3.BoolVal(getattr(sites, 'nx_call', None) is call)))
            k = z3.Int('k')
            e = st['G'].get('_energy')
            if isinstance(energy, SSeq) and isinstance(sites, SSeq):
                out.append(('energy-length', energy.length == sites.length))
                sk = sites.fn(k)
                out.append(('energy[k]=F[sites[k]]', z3.ForAll([k], z3.Implies(z3.And(k >= 0, k < sites.length),
                                                                              energy.fn(k) == e(*sk)))))
                out.append(('starts-at-start', z3.And(*[sites.fn(0)[c] == st['s'][c] for c in range(3)])))
                out.append(('ends-at-stop', z3.And(*[sites.fn(sites.length - 1)[c] == st['t'][c] for c in range(3)])))
            else:
                out.append(('energy-list', z3.BoolVal(False)))
            return out
        raises = ('NetworkXNoPath',) if method != 'no-such-method' else ('ValueError', 'NetworkXNoPath')
        u.prove_function('gemdat.path', 'optimal_path', setup, post, raises=raises,
                         label=f'gemdat.path.optimal_path[method={method}]',
                         replay={'fn': 'verif.props.c10:replay_dispatch', 'sizes': lambda st: [],
                                 'concretise': lambda model, st, ob, method=method: {'method': method}})
    return u


def replay_dispatch(inputs):
    """Spy on networkx.shortest_path through the real optimal_path on a small graph."""
    import networkx as nx
    import numpy as np
    from gemdat import path as gpath
    method = inputs['method']
    F = np.array([[[0.1, 0.2], [0.3, 5.0]], [[0.2, 0.1], [0.4, 0.2]]])
    G = gpath.free_energy_graph(F, max_energy_threshold=1e7, diagonal=False)
    calls = []
    real = nx.shortest_path

    def spy(G_, source=None, target=None, weight=None, method='dijkstra'):
        calls.append((weight, method))
        return real(G_, source=source, target=target, weight=weight, method=method)
    nx.shortest_path = spy
    try:
        try:
            p = gpath.optimal_path(G, start=(0, 0, 0), stop=(1, 1, 1), method=method)
        except ValueError as e:
            if method == 'no-such-method':
                return {'reproduced': False, 'detail': 'ValueError for unknown method (expected)'}
            return {'reproduced': True, 'detail': f'method={method} raised ValueError: {e}'}
    finally:
        nx.shortest_path = real
    if method == 'no-such-method':
        return {'reproduced': True, 'detail': 'unknown method did not raise'}
    if method == 'minmax-energy':
        # minimal maximum over all simple paths
        best = min(max(G.nodes[n]['energy'] for n in q) for q in nx.all_simple_paths(G, (0, 0, 0), (1, 1, 1)))
        got = max(p.energy)
        return {'reproduced': got > best + 1e-12, 'detail': f'minmax-energy: returned path maximum {got}, minimal possible maximum {best}; networkx calls {calls}'}
    want = SPEC_DISPATCH[method]
    bad = []
    if calls[0] != want:
        bad.append(f'networkx called with (weight, method) = {calls[0]}, required {want}')
    if p.sites[0] != (0, 0, 0) or p.sites[-1] != (1, 1, 1):
        bad.append('endpoints differ')
    if any(abs(G.nodes[n]['energy'] - e) > 0 for n, e in zip(p.sites, p.energy)) or len(p.sites) != len(p.energy):
        bad.append('energy list is not F[sites]')
    return {'reproduced': bool(bad), 'detail': f'method={method}: ' + '; '.join(bad)}


CORNER_REGION = {(1, 1, -1), (-1, -1, 1), (1, -1, 1), (-1, 1, -1)}


def replay_corner_moves(inputs):
    """With diagonal moves every face, edge and corner neighbour is a neighbour: the returned path must not cost more than the cheapest path of
    the full periodic 26-neighbourhood graph (independent oracle built here)."""
    import itertools
    import networkx as nx
    import numpy as np
    from gemdat import path as gpath
    F = np.array(inputs['F'], dtype=float)
    start, stop = tuple(inputs['start']), tuple(inputs['stop'])
    thr = 1e7
    G = gpath.free_energy_graph(F, max_energy_threshold=thr, diagonal=True)
    p = gpath.optimal_path(G, start=start, stop=stop, method='dijkstra')
    got = sum(0.5 * (F[a] + F[b]) for a, b in zip(p.sites, p.sites[1:]))
    H = nx.Graph()
    nodes = [idx for idx in np.ndindex(*F.shape) if 0 <= F[idx] < thr]
    H.add_nodes_from(nodes)
    for u_ in nodes:
        for m in itertools.product((-1, 0, 1), repeat=3):
            w = tuple(int(x) for x in (np.array(u_) + m) % F.shape)
            if m != (0, 0, 0) and w in H and w != u_:
                H.add_edge(u_, w, weight=0.5 * (F[u_] + F[w]))
    best = nx.shortest_path_length(H, start, stop, weight='weight')
    return {'reproduced': got > best + 1e-9,
            'detail': f'diagonal=True, F.shape={F.shape}: returned path {p.sites} costs {got}; the corner step {tuple(np.subtract(stop, start))} is admissible and costs {best}'}


def replay_minmax(inputs):
    """method='minmax-energy' must return a path whose maximal voxel energy is minimal over all admissible paths."""
    import networkx as nx
    import numpy as np
    from gemdat import path as gpath
    F = np.array(inputs['F'], dtype=float)
    start, stop = tuple(inputs['start']), tuple(inputs['stop'])
    G = gpath.free_energy_graph(F, max_energy_threshold=1e7, diagonal=False)
    try:
        p = gpath.optimal_path(G, start=start, stop=stop, method='minmax-energy')
    except Exception as e:
        return {'reproduced': True, 'detail': f'minmax-energy raised {type(e).__name__}: {e}'}
    best = min(max(G.nodes[n]['energy'] for n in q) for q in nx.all_simple_paths(G, start, stop))
    got = max(p.energy)
    return {'reproduced': got > best + 1e-12,
            'detail': f'minmax-energy on F={F.tolist()}: returned path {p.sites} has maximum {got}; minimal possible maximum {best}'}


# ---------------------------------------------------------------------------------------------------------------
# C10.perc  (optimal_percolating_path)
# ---------------------------------------------------------------------------------------------------------------

def unit_percolate(tier):
    """For each of the 7 non-empty direction sets: every optimal_path request is (start = peak, stop = peak + dims*mask)
    in the grid tiled by (1+mask); the returned path is the first peak whose cost is strictly minimal among the peaks
    that have a path; its dims are the original grid's; None iff no peak has a path."""
    from verif.engine.interp import LoopSpec
    u = Unit('C10.percolate')
    INF = z3.Real('INF')  # float('inf'): larger than every cost
    for percolate in ('x', 'y', 'z', 'xy', 'xz', 'yz', 'xyz', 'zyx', ''):
        mask = [c in percolate for c in 'xyz']
        calls = {}

        def setup(interp, percolate=percolate):
            ctx = interp.ctx
            dims = tuple(z3.Int(f'dim_{c}') for c in 'xyz')
            for d in dims:
                ctx.assume(d >= 1)
            Ff = z3.Function('F', z3.IntSort(), z3.IntSort(), z3.IntSort(), z3.RealSort())
            data = STensor(dims, lambda a, b, c: Ff(a, b, c), 'real')
            F = SObj('FreeEnergyVolume', data=data, dims=dims)
            P = z3.Int('n_peaks')
            ctx.assume(P >= 0)
            pk = z3.Function('peak', z3.IntSort(), z3.IntSort(), z3.IntSort())
            peaks = STensor((P, 3), lambda i, c: pk(i, c), 'int')
            # abstract per-peak outcome of optimal_path (assumed networkx contract): has-path flag and cost
            has = z3.Function('peak_has_path', z3.IntSort(), z3.BoolSort())
            cost = z3.Function('peak_cost', z3.IntSort(), z3.RealSort())
            jj = z3.Int('cj')
            ctx.assume(z3.ForAll([jj], cost(jj) < INF, patterns=[cost(jj)]), tag="float('inf') exceeds every path cost")
            st = {'dims': dims, 'P': P, 'pk': pk, 'has': has, 'cost': cost, 'F': F, 'data': data}
            ctx.ghost['st'] = st
            return [F], {'peaks': peaks, 'percolate': percolate}, st

        def fe_graph(interp, F_data, max_energy_threshold=None, diagonal=True):
            interp.ctx.ghost['graph_of'] = (F_data, max_energy_threshold, diagonal)
            return SObj('Graph', _data=F_data)
        u.contracts['gemdat.path.free_energy_graph'] = fe_graph

        def optimal_path_contract(interp, F_graph, start=None, stop=None, method='dijkstra'):
            ctx = interp.ctx
            st = ctx.ghost['st']
            k = ctx.ghost.get('cur_peak')
            ctx.ghost.setdefault('requests', []).append({'start': start, 'stop': stop, 'graph': F_graph, 'method': method, 'k': k})
            if k is None:
                raise Unsupported('optimal_path called outside the peak loop')
            if ctx.branch(z3.Not(st['has'](k))):
                raise _Raise('nx.NetworkXNoPath')
            p = SObj('Pathway', sites=SSeq(ctx.fresh_int('plen'), lambda q: None), energy=None, dims=None,
                     total_energy=st['cost'](k), _peak=k)
            return p
        u.contracts['gemdat.path.optimal_path'] = optimal_path_contract

        def carried_cost(interp, env, k):
            interp.ctx.ghost['cur_peak'] = k
            return interp.ctx.fresh_real('best_cost')

        def carried_path(interp, env, k):
            ctx = interp.ctx
            st = ctx.ghost['st']
            none = ctx.fresh_bool('best_none')
            idx = ctx.fresh_int('best_idx')
            from verif.engine.values import SOpt
            p = SObj('Pathway', sites=None, energy=None, dims=None, total_energy=st['cost'](idx), _peak=idx)
            o = SOpt(none, p)
            ctx.ghost['best_opt'] = (none, idx)
            return o

        def invariant(interp, env, k):
            ctx = interp.ctx
            st = ctx.ghost['st']
            bc = env.get('best_cost', interp)
            bp = env.get('best_path', interp)
            from verif.engine.values import SOpt
            has, cost = st['has'], st['cost']
            j = z3.Int('inv_j')
            if bp is None:
                none, idx = z3.BoolVal(True), z3.IntVal(-1)
            elif isinstance(bp, SOpt):
                none, idx = bp.is_none, bp.payload.get('_peak')
            else:
                none, idx = z3.BoolVal(False), bp.get('_peak')
            bcz = INF if (isinstance(bc, float) and bc == float('inf')) else bc
            return [
                ('no-path-so-far', z3.Implies(none, z3.And(bcz == INF, z3.ForAll([j], z3.Implies(z3.And(j >= 0, j < k), z3.Not(has(j))))))),
                ('best-is-first-strict-minimum', z3.Implies(z3.Not(none), z3.And(
                    idx >= 0, idx < k, has(idx), bcz == cost(idx),
                    z3.ForAll([j], z3.Implies(z3.And(j >= 0, j < k, has(j)), cost(idx) <= cost(j))),
                    z3.ForAll([j], z3.Implies(z3.And(j >= 0, j < idx, has(j)), cost(idx) < cost(j)))))),
            ]
        spec = LoopSpec({'best_cost': carried_cost, 'best_path': carried_path}, invariant)
        u.loops[('gemdat.path.optimal_percolating_path', 0)] = spec

        # iteration hook: remember which peak the body is processing
        orig_assign_target = None

        def iterate_hook(interp, v, line):
            return NotImplemented
        u.iterate_hook = iterate_hook

        def lib_float(interp, line, x):
            if x == 'inf':
                return float('inf')
            return float(x)
        u.lib['builtins.float'] = lib_float

        def post(interp, st, res, mask=mask, percolate=percolate):
            ctx = interp.ctx
            out = []
            if not any(mask):
                return [('empty direction set must raise ValueError', z3.BoolVal(False))]
            has, cost, P = st['has'], st['cost'], st['P']
            j = z3.Int('post_j')
            from verif.engine.values import SOpt
            if res is None:
                out.append(('none-iff-no-peak-has-path', z3.ForAll([j], z3.Implies(z3.And(j >= 0, j < P), z3.Not(has(j))))))
                return out
            if isinstance(res, SOpt):
                # the path condition fixes is_none (truth test `if best_path:` precedes the return)
                out.append(('none-iff-no-peak-has-path', z3.Implies(res.is_none, z3.ForAll([j], z3.Implies(z3.And(j >= 0, j < P), z3.Not(has(j)))))))
                payload = res.payload
                idx = payload.get('_peak')
                out.append(('minimal', z3.Implies(z3.Not(res.is_none), z3.And(idx >= 0, idx < P, has(idx),
                                                  z3.ForAll([j], z3.Implies(z3.And(j >= 0, j < P, has(j)), cost(idx) <= cost(j)))))))
                d = payload.get('dims')
                restored = isinstance(d, tuple) and all(z3.eq(a, b) for a, b in zip(d, st['dims']))
                out.append(('dims-restored', z3.Implies(z3.Not(res.is_none), z3.BoolVal(bool(restored)))))
                return out
            idx = res.get('_peak')
            out.append(('minimal', z3.And(idx >= 0, idx < P, has(idx),
                                          z3.ForAll([j], z3.Implies(z3.And(j >= 0, j < P, has(j)), cost(idx) <= cost(j))))))
            d = res.get('dims')
            out.append(('dims-restored', z3.BoolVal(isinstance(d, tuple) and all(z3.eq(a, b) for a, b in zip(d, st['dims'])))))
            return out

        def on_step_requests(interp):
            pass

        # wrap the contract so requests are checked as obligations at call time
        def optimal_path_checked(interp, F_graph, start=None, stop=None, method='dijkstra', mask=mask):
            ctx = interp.ctx
            st = ctx.ghost['st']
            k = ctx.ghost.get('cur_peak')
            dims = st['dims']
            g = ctx.ghost.get('graph_of')
            ok_graph = g is not None and isinstance(F_graph, SObj) and F_graph.get('_data') is g[0]
            ctx.oblige('optimal_percolating_path.request.graph-is-the-tiled-grid', z3.BoolVal(bool(ok_graph)), kind='pre-call')
            if g is not None:
                tiled = g[0]
                shape_ok = z3.And(*[tiled.shape[c] == dims[c] * (2 if mask[c] else 1) for c in range(3)])
                ctx.oblige('optimal_percolating_path.request.tiling-shape', shape_ok, kind='pre-call')
                a, b, c = z3.Ints('ta tb tc')
                Fd = st['data']
                ctx.oblige('optimal_percolating_path.request.tiling-content',
                           z3.ForAll([a, b, c], z3.Implies(z3.And(a >= 0, a < tiled.shape[0], b >= 0, b < tiled.shape[1], c >= 0, c < tiled.shape[2]),
                                                            tiled.at(a, b, c) == Fd.at(a % dims[0], b % dims[1], c % dims[2]))), kind='pre-call')
                ctx.oblige('optimal_percolating_path.request.threshold', z3.BoolVal(g[1] == 1e7), kind='pre-call')
            pk = st['pk']
            startv = [start.at(c) if isinstance(start, STensor) else start[c] for c in range(3)]
            stopv = [stop.at(c) if isinstance(stop, STensor) else stop[c] for c in range(3)]
            ctx.oblige('optimal_percolating_path.request.start-is-peak', z3.And(*[startv[c] == pk(k, c) for c in range(3)]), kind='pre-call')
            ctx.oblige('optimal_percolating_path.request.stop-is-image-one-cell-away',
                       z3.And(*[stopv[c] == pk(k, c) + (dims[c] if mask[c] else 0) for c in range(3)]), kind='pre-call')
            return optimal_path_contract(interp, F_graph, start=start, stop=stop, method=method)
        u.contracts['gemdat.path.optimal_path'] = optimal_path_checked
        raises = ('ValueError',) if not any(mask) else ()
        u._cur_mask = mask
        default = {'F': [[[0.2, 0.9, 0.1], [0.4, 0.3, 2.0]], [[0.7, 0.1, 0.6], [0.2, 1.1, 0.5]]], 'diagonal': False,
                   'start': [0, 0, 0], 'stop': [1, 1, 2], 'peaks': [[0, 0, 0], [1, 0, 1], [0, 1, 1]],
                   'percolate': ['x', 'y', 'z', 'xy', 'xz', 'yz', 'xyz']}
        u.prove_function('gemdat.path', 'optimal_percolating_path', setup, post, raises=raises,
                         label=f'gemdat.path.optimal_percolating_path[percolate={percolate!r}]',
                         replay={'fn': 'verif.props.c10:replay_paths', 'sizes': lambda st: [],
                                 'concretise': lambda model, st, ob, default=default: default})
    return u


# ---------------------------------------------------------------------------------------------------------------
# bounded: brute force over all simple paths on small grids
# ---------------------------------------------------------------------------------------------------------------

def replay_paths(inputs):
    import itertools
    import networkx as nx
    import numpy as np
    from gemdat import path as gpath
    from gemdat.volume import FreeEnergyVolume
    from pymatgen.core import Lattice
    F = np.array(inputs['F'], dtype=float)
    diagonal = inputs['diagonal']
    thr = 1e7
    bad = []
    shape = F.shape
    G = gpath.free_energy_graph(F, max_energy_threshold=thr, diagonal=diagonal)
    # graph spec
    moves = [m for m in itertools.product((-1, 0, 1), repeat=3) if m != (0, 0, 0)]
    if not diagonal:
        moves = [m for m in moves if sum(abs(x) for x in m) == 1]
    else:
        # the property's neighbourhood is the full 26-neighbourhood (face, edge and corner neighbours).  The code lists only 4 of the 8
        # corner directions: steps along +-(1,1,-1) and +-(1,-1,1) are missing - the recorded known finding C10-corner-moves, whose
        # region (exactly these 4 directions) is excluded here and replayed separately by replay_corner_moves
        moves = [m for m in moves if m not in CORNER_REGION]
    nodes = {idx for idx in np.ndindex(*shape) if 0 <= F[idx] < thr}
    if set(G.nodes) != nodes:
        bad.append('node set differs from {v: 0 <= F[v] < threshold}')
    exp_edges = set()
    for u_ in nodes:
        for m in moves:
            w = tuple((np.array(u_) + m) % shape)
            if w in nodes:
                exp_edges.add(frozenset((u_, w)))
    got_edges = {frozenset(e) for e in G.edges}
    if got_edges != exp_edges:
        bad.append(f'edge set differs: missing {list(exp_edges - got_edges)[:2]} extra {list(got_edges - exp_edges)[:2]}')
    for a, b, dct in G.edges(data=True):
        if abs(dct['weight'] - 0.5 * (F[a] + F[b])) > 1e-12 or dct['weight'] < 0:
            bad.append(f'weight of {a}-{b}')
            break
        if abs(dct['weight_exp'] - min(np.exp(dct['weight']), thr)) > 1e-9 * max(1.0, dct['weight_exp']):
            bad.append(f'weight_exp of {a}-{b}')
            break
    start, stop = tuple(inputs['start']), tuple(inputs['stop'])
    if start in nodes and stop in nodes and start != stop:
        for method in ('simple', 'dijkstra', 'bellman-ford', 'dijkstra-exp'):
            try:
                p = gpath.optimal_path(G, start=start, stop=stop, method=method)
            except nx.NetworkXNoPath:
                if nx.has_path(G, start, stop):
                    bad.append(f'{method}: NoPath although connected')
                continue
            if p.sites[0] != start or p.sites[-1] != stop:
                bad.append(f'{method}: endpoints')
            if any(frozenset((a, b)) not in exp_edges for a, b in zip(p.sites, p.sites[1:])):
                bad.append(f'{method}: step between non-neighbours')
            if [F[s] for s in p.sites] != list(p.energy):
                bad.append(f'{method}: energies')
            key = {'simple': None, 'dijkstra': 'weight', 'bellman-ford': 'weight', 'dijkstra-exp': 'weight_exp'}[method]

            def cost(q):
                return len(q) - 1 if key is None else sum(G[a][b][key] for a, b in zip(q, q[1:]))
            if G.number_of_nodes() <= 8 or (not diagonal and G.number_of_nodes() <= 12):
                best = min(cost(q) for q in nx.all_simple_paths(G, start, stop))
            else:  # all-simple-paths explodes on dense graphs: fall back to an independent Bellman-Ford length
                best = (nx.shortest_path_length(G, start, stop) if key is None else
                        nx.bellman_ford_path_length(G, start, stop, weight=key))
            if cost(p.sites) > best + 1e-9 * max(1.0, abs(best)):
                bad.append(f'{method}: cost {cost(p.sites)} > minimal {best}')
    # percolation
    vol = FreeEnergyVolume(data=F, lattice=Lattice.cubic(4.0))
    peaks = np.array(inputs['peaks'], dtype=int)
    for perc in inputs['percolate']:
        mask = np.array([c in perc for c in 'xyz'])
        res = gpath.optimal_percolating_path(vol, peaks=peaks, percolate=perc)
        tiled = np.tile(F, tuple(1 + mask))
        Gt = gpath.free_energy_graph(tiled, max_energy_threshold=1e7)
        costs = []
        for pk in peaks:
            s, t = tuple(pk), tuple(pk + np.array(shape) * mask)
            if s in Gt and t in Gt and nx.has_path(Gt, s, t):
                q = nx.shortest_path(Gt, s, t, weight='weight')
                costs.append(sum(tiled[x] for x in q))
        if not costs:
            if res is not None:
                bad.append(f'percolate={perc}: path returned although no peak percolates')
            continue
        if res is None:
            bad.append(f'percolate={perc}: None although a peak percolates')
            continue
        if res.total_energy > min(costs) + 1e-9:
            bad.append(f'percolate={perc}: returned cost {res.total_energy} but a supplied peak percolates at cost {min(costs)}')
        if tuple(res.dims) != tuple(shape):
            bad.append(f'percolate={perc}: dims {res.dims}')
        delta = np.array(res.sites[-1]) - np.array(res.sites[0])
        if tuple(delta) != tuple(np.array(shape) * mask):
            bad.append(f'percolate={perc}: end - start = {tuple(delta)}')
        w = res.wrapped_sites()
        if any(not (0 <= s[c] < shape[c]) for s in w for c in range(3)):
            bad.append(f'percolate={perc}: wrapped site outside the grid')
        fs = res.frac_sites()
        if (fs < 0).any() or (fs >= 1).any():
            bad.append(f'percolate={perc}: fractional site outside [0,1)')
        if any(tuple(np.array(s) % shape) != tuple(ws) for s, ws in zip(res.sites, w)):
            bad.append(f'percolate={perc}: wrapped_sites are not the sites modulo the grid')
    return {'reproduced': bool(bad), 'detail': f'F shape {shape} diagonal={diagonal}: ' + '; '.join(bad[:5])}


def bounded_paths(tier, seed):
    import numpy as np
    n = 25 if tier == 'quick' else 300
    st = Stand('C10.paths.bruteforce', f'{n} random grids with shapes in {{1..3}}^3 (<= 12 voxels), blocked voxels, both neighbourhoods, '
               '4 methods, all 7 direction sets, all-simple-paths oracle',
               'seeded random grids; non-trivial = grid with unequal dims and >= 1 blocked voxel; distinct by grid')
    rng = np.random.default_rng(seed + 1010)
    for c in range(n):
        while True:
            shape = tuple(int(x) for x in rng.integers(1, 4, size=3))
            if 2 <= np.prod(shape) <= 12:
                break
        F = rng.uniform(0.0, 3.0, size=shape).round(3)
        blocked = rng.random(shape) < 0.2
        F[blocked] = 1.7976931348623157e308
        if c % 2 == 0:
            F[rng.random(shape) < 0.3] = 0.0  # exactly-zero free energy (the most probable voxel of a single-site density)
            F[blocked] = 1.7976931348623157e308
        idxs = list(np.ndindex(*shape))
        s = idxs[int(rng.integers(len(idxs)))]
        t = idxs[int(rng.integers(len(idxs)))]
        npk = int(rng.integers(1, 5))
        if c % 5 == 3:
            F[rng.random(shape) < 0.15] = float('nan')  # NaN is not below the threshold: such voxels are blocked too
            blocked = blocked | np.isnan(F)
        free = [i for i in idxs if not blocked[i]]
        if not free:
            continue
        peaks = [list(free[int(rng.integers(len(free)))]) for _ in range(npk)]
        inp = {'F': F.tolist(), 'diagonal': bool(rng.random() < 0.5), 'start': list(s), 'stop': list(t), 'peaks': peaks,
               'percolate': ['x', 'y', 'z', 'xy', 'xz', 'yz', 'xyz']}
        r = st.guard(replay_paths, inp)
        if r is None:
            continue
        st.case(inp, nontrivial=len(set(shape)) > 1 and bool(blocked.any()), sample={'shape': shape, 'diagonal': inp['diagonal']})
        if r['reproduced']:
            st.violation('paths', r['detail'], 'verif.props.c10:replay_paths', inp)
    # fully open grids with two or three axes of length >= 3 (diagonal steps through two periodic faces at once), both neighbourhoods
    for shp in ((3, 3, 1), (3, 3, 3), (3, 4, 2), (4, 3, 3)):
        Fo = (np.arange(int(np.prod(shp))).reshape(shp) % 7) * 0.25
        for dg in (True, False):
            inp = {'F': Fo.tolist(), 'diagonal': dg, 'start': [shp[0] - 1, 0, 0], 'stop': [0, shp[1] - 1, 0], 'peaks': [[0, 0, 0]], 'percolate': ['x']}
            r = st.guard(replay_paths, inp)
            if r is None:
                continue
            st.case(inp, nontrivial=True, sample=None)
            if r['reproduced']:
                st.violation('open-grid', r['detail'], 'verif.props.c10:replay_paths', inp)
    # structured percolation cases: an enclosed (non-percolating) peak listed first, then two percolating channels of different cost, in every order
    import itertools
    big = 1.7976931348623157e308
    Fs = np.full((3, 5, 5), big)
    Fs[:, 0, 0] = 0.1   # cheap channel along x
    Fs[:, 2, 2] = 0.5   # expensive channel along x
    Fs[1, 0, 2] = 0.2   # isolated pocket: not adjacent (even diagonally, periodically) to either channel
    for order in itertools.permutations([[1, 0, 2], [0, 2, 2], [0, 0, 0]]):
        inp = {'F': Fs.tolist(), 'diagonal': True, 'start': [0, 0, 0], 'stop': [2, 0, 0], 'peaks': [list(o) for o in order], 'percolate': ['x', 'y', 'xy']}
        r = st.guard(replay_paths, inp)
        if r is None:
            continue
        st.case(inp, nontrivial=True, sample=None)
        if r['reproduced']:
            st.violation('percolation-order', r['detail'], 'verif.props.c10:replay_paths', inp)
    return st.result()


# generic purity stand-in (arguments unchanged, second call equal, fresh call equal) over this property's API calls
from verif.native.purity import make_bounded as _make_purity  # noqa: E402
from verif.props.purity_reg import REG as _PURITY_REG  # noqa: E402
PURITY = _PURITY_REG['C10']
bounded_purity = _make_purity('C10', PURITY)


# plumbing around the anchored functions: forwarding contracts of the public wrappers, no state shared between calls or objects
from verif.props import plumbing as _plumbing  # noqa: E402


def unit_plumbing(tier):
    return _plumbing.unit_plumbing(PROPERTY)


bounded_plumbing = _plumbing.make_bounded(PROPERTY)

"""Plumbing around the anchored functions: forwarding contracts of the public wrappers and frame conditions on state shared between calls.

(1) Forwarding contract (decided on the real AST on every run): a thin public wrapper W(self, p1, ..., **kwargs) of a callee C is transparent - its
    body is one call of C in which `self` is passed in the designated place, EVERY parameter of W is passed on under its own name and unchanged, and
    nothing else is passed.  The expectation is derived from the wrapper's own signature and the property (the wrapper gives what the function gives),
    not from the current call expression.  Native replay: wrapper and direct call on a synthetic system with every argument at a non-default value.
(2) Shared-state frame conditions (AST): no function of the library has a mutable default argument, no class carries a mutable container as a class
    attribute, and no function updates a module-level container in place - state of that kind is shared between calls and between objects, which
    is exactly what 'the result is a function of the inputs' excludes.
(3) Native equivalences for the forwarding methods that are not thin (Jumps.split, Jumps.collective, FreeEnergyVolume.optimal_path,
    TrajectoryMetricsStd): bounded stand-in only."""
from __future__ import annotations

import ast

import z3

# property -> wrappers it relies on: (module, qualname, callee as written in the source, how self is handed over)
WRAPPERS = {
    'Trajectory.transitions_between_sites': ('gemdat.trajectory', 'Trajectory.transitions_between_sites', 'Transitions.from_trajectory', ('kw', 'trajectory', 'self')),
    'Trajectory.to_volume': ('gemdat.trajectory', 'Trajectory.to_volume', 'trajectory_to_volume', ('pos', 'self')),
    'Trajectory.metrics': ('gemdat.trajectory', 'Trajectory.metrics', 'TrajectoryMetrics', ('kw', 'trajectory', 'self')),
    'Trajectory.radial_distribution_between_species': ('gemdat.trajectory', 'Trajectory.radial_distribution_between_species', 'rdf.radial_distribution_between_species', ('kw', 'trajectory', 'self')),
    'Transitions.jumps': ('gemdat.transitions', 'Transitions.jumps', 'Jumps', ('pos', 'self')),
    'Transitions.radial_distribution': ('gemdat.transitions', 'Transitions.radial_distribution', 'radial_distribution', ('kw', 'transitions', 'self')),
    'FreeEnergyVolume.free_energy_graph': ('gemdat.volume', 'FreeEnergyVolume.free_energy_graph', 'free_energy_graph', ('pos', 'self.data')),
    'FreeEnergyVolume.optimal_percolating_path': ('gemdat.volume', 'FreeEnergyVolume.optimal_percolating_path', 'optimal_percolating_path', ('pos', 'self')),
}
BY_PROPERTY = {
    'C02': ['Trajectory.transitions_between_sites'], 'C03': ['Trajectory.transitions_between_sites'], 'C04': ['Trajectory.transitions_between_sites', 'Transitions.jumps'],
    'C05': ['Trajectory.transitions_between_sites', 'Transitions.jumps'], 'C07': ['Trajectory.transitions_between_sites', 'Transitions.jumps', 'Trajectory.to_volume'],
    'C08': ['Trajectory.to_volume'], 'C09': ['FreeEnergyVolume.free_energy_graph'], 'C10': ['FreeEnergyVolume.free_energy_graph', 'FreeEnergyVolume.optimal_percolating_path'],
    'C11': ['Trajectory.radial_distribution_between_species', 'Transitions.radial_distribution'], 'C12': ['Transitions.jumps'], 'C14': ['Trajectory.metrics'],
    'C19': ['Transitions.jumps'],
}
LIB_MODULES = ('gemdat.trajectory', 'gemdat.transitions', 'gemdat.jumps', 'gemdat.collective', 'gemdat.rdf', 'gemdat.volume', 'gemdat.path', 'gemdat.metrics',
               'gemdat.shape', 'gemdat.orientations', 'gemdat.utils', 'gemdat.caching')


def _forwarding_goals(sources, key):
    module, qual, callee, self_as = WRAPPERS[key]
    fi = sources.function(module, qual)
    if fi is None:
        return [(f'{qual}: the wrapper exists', z3.BoolVal(False))]
    node = fi.node
    a = node.args
    params = [x.arg for x in a.posonlyargs + a.args + a.kwonlyargs if x.arg not in ('self', 'cls', 'module')]
    body = [b for b in node.body if not (isinstance(b, ast.Expr) and isinstance(b.value, ast.Constant)) and not isinstance(b, (ast.Import, ast.ImportFrom))]
    single = len(body) == 1 and isinstance(body[0], ast.Return) and isinstance(body[0].value, ast.Call)
    goals = [(f'{qual}: the body is one `return {callee}(...)`', z3.BoolVal(bool(single and ast.unparse(body[0].value.func) == callee)))]
    if not single:
        return goals
    call = body[0].value
    kws = {k.arg: k.value for k in call.keywords if k.arg is not None}
    stars = [k.value for k in call.keywords if k.arg is None]
    pos = list(call.args)
    if self_as[0] == 'kw':
        ok_self = self_as[1] in kws and ast.unparse(kws[self_as[1]]) == self_as[2]
        rest_pos, own_kw = pos, {self_as[1]}
    else:
        ok_self = bool(pos) and ast.unparse(pos[0]) == self_as[1]
        rest_pos, own_kw = pos[1:], set()
    goals.append((f'{qual}: the object itself is handed to {callee} ({"=".join(self_as[1:])})', z3.BoolVal(bool(ok_self))))
    missing = []
    for i, p in enumerate(params):
        as_kw = p in kws and isinstance(kws[p], ast.Name) and kws[p].id == p
        as_pos = i < len(rest_pos) and isinstance(rest_pos[i], ast.Name) and rest_pos[i].id == p
        if not (as_kw or as_pos):
            missing.append(p)
    goals.append((f'{qual}: every parameter {params} is passed on under its own name, unchanged (not passed on: {missing})', z3.BoolVal(not missing)))
    kwname = a.kwarg.arg if a.kwarg is not None else None
    ok_star = (kwname is None and not stars) or (kwname is not None and len(stars) == 1 and isinstance(stars[0], ast.Name) and stars[0].id == kwname)
    goals.append((f'{qual}: further keyword arguments are passed on as they are (**{kwname})', z3.BoolVal(bool(ok_star))))
    extra = sorted(set(kws) - set(params) - own_kw) + [ast.unparse(x) for x in rest_pos[len(params):]]
    goals.append((f'{qual}: nothing else is passed (extra: {extra})', z3.BoolVal(not extra and a.vararg is None)))
    return goals


def forwarding_lemmas(u, prop):
    """One lemma per wrapper the property relies on; replay = wrapper against the direct call."""
    for key in BY_PROPERTY.get(prop, []):
        def build(ctx, key=key):
            ctx.use('AST forwarding contract: a thin wrapper passes itself and every one of its parameters, unchanged and under its own name, to the one function it wraps')
            return _forwarding_goals(u.sources, key)
        u.lemma(f'{prop}.plumbing.forwarding.{key}', build)
        u.results[-1]['replay'] = {'fn': 'verif.props.plumbing:replay_wrapper', 'sizes': lambda st: [], 'concretise': (lambda key: (lambda m, st, ob: {'wrapper': key, 'seed': 11}))(key)}


MUTABLE_CALLS = {'dict', 'list', 'set', 'defaultdict', 'OrderedDict', 'Counter', 'deque', 'WeakValueDictionary', 'WeakKeyDictionary'}
INPLACE_METHODS = {'update', 'append', 'extend', 'insert', 'add', 'setdefault', 'pop', 'popitem', 'clear', 'remove', 'discard', 'sort', 'reverse'}


def _is_mutable_display(v):
    if isinstance(v, (ast.Dict, ast.List, ast.Set, ast.ListComp, ast.DictComp, ast.SetComp)):
        return True
    if isinstance(v, ast.Call):
        f = v.func
        name = f.id if isinstance(f, ast.Name) else (f.attr if isinstance(f, ast.Attribute) else None)
        return name in MUTABLE_CALLS
    return False


def _shared_state_goals(sources):
    goals = []
    n_fun = n_cls = 0
    for module in LIB_MODULES:
        info = sources.load(module)
        if not info:
            continue
        tree = info.get('ast')
        if tree is None:
            goals.append((f'{module}: source available', z3.BoolVal(False)))
            continue
        # module-level containers
        glob = set()
        for st_ in tree.body:
            if isinstance(st_, (ast.Assign, ast.AnnAssign)) and st_.value is not None and _is_mutable_display(st_.value):
                for t in (st_.targets if isinstance(st_, ast.Assign) else [st_.target]):
                    if isinstance(t, ast.Name):
                        glob.add(t.id)
        hits_default, hits_class, hits_glob = [], [], []
        for node in ast.walk(tree):
            if isinstance(node, (ast.FunctionDef, ast.AsyncFunctionDef)):
                n_fun += 1
                for d in list(node.args.defaults) + [d for d in node.args.kw_defaults if d is not None]:
                    if _is_mutable_display(d):
                        hits_default.append(f'{node.name} (line {node.lineno}): default {ast.unparse(d)}')
                local = {x.arg for x in node.args.posonlyargs + node.args.args + node.args.kwonlyargs}
                alias = set()  # local names bound to a module-level container itself (x = GLOBAL): updating x updates the shared object
                for sub in ast.walk(node):
                    if isinstance(sub, ast.Assign):
                        for t in sub.targets:
                            if isinstance(t, ast.Name):
                                if isinstance(sub.value, ast.Name) and sub.value.id in glob and sub.value.id not in local:
                                    alias.add(t.id)
                                else:
                                    local.add(t.id)
                local -= alias
                glob_here = glob | alias
                for sub in ast.walk(node):
                    tgt = None
                    if isinstance(sub, (ast.Assign, ast.AugAssign, ast.AnnAssign)):
                        for t in (sub.targets if isinstance(sub, ast.Assign) else [sub.target]):
                            if isinstance(t, ast.Subscript) and isinstance(t.value, ast.Name):
                                tgt = t.value.id
                            elif isinstance(sub, ast.AugAssign) and isinstance(t, ast.Name):
                                tgt = t.id
                            if tgt in glob_here and tgt not in local:
                                hits_glob.append(f'{node.name} (line {sub.lineno}): {ast.unparse(sub)[:50]}')
                    elif isinstance(sub, ast.Call) and isinstance(sub.func, ast.Attribute) and sub.func.attr in INPLACE_METHODS \
                            and isinstance(sub.func.value, ast.Name) and sub.func.value.id in glob_here and sub.func.value.id not in local:
                        hits_glob.append(f'{node.name} (line {sub.lineno}): {ast.unparse(sub)[:50]}')
                    elif isinstance(sub, ast.Delete):
                        for t in sub.targets:
                            if isinstance(t, ast.Subscript) and isinstance(t.value, ast.Name) and t.value.id in glob_here and t.value.id not in local:
                                hits_glob.append(f'{node.name} (line {sub.lineno}): {ast.unparse(sub)[:50]}')
            elif isinstance(node, ast.ClassDef):
                n_cls += 1
                for st_ in node.body:
                    if isinstance(st_, (ast.Assign, ast.AnnAssign)) and st_.value is not None and _is_mutable_display(st_.value):
                        # dataclass fields with default_factory are calls of field(), not of a container: not matched here
                        hits_class.append(f'{node.name} (line {st_.lineno}): {ast.unparse(st_)[:50]}')
        goals.append((f'{module}: no function has a mutable default argument {hits_default}', z3.BoolVal(not hits_default)))
        goals.append((f'{module}: no class keeps a mutable container as a class attribute (shared by all objects) {hits_class}', z3.BoolVal(not hits_class)))
        goals.append((f'{module}: no function updates a module-level container in place {hits_glob}', z3.BoolVal(not hits_glob)))
    goals.append((f'{n_fun} functions and {n_cls} classes scanned', z3.BoolVal(n_fun >= 100 and n_cls >= 10)))
    return goals


def shared_state_lemma(u, prop):
    def build(ctx):
        ctx.use('AST frame condition: no state shared between calls or objects (mutable defaults, mutable class attributes, module-level containers updated in place)')
        return _shared_state_goals(u.sources)
    u.lemma(f'{prop}.plumbing.no-state-shared-between-calls-or-objects', build)
    u.results[-1]['replay'] = {'fn': 'verif.props.plumbing:replay_shared_state', 'sizes': lambda st: [], 'concretise': lambda m, st, ob: {'seed': 5}}


def unit_plumbing(prop):
    from verif.engine.unit import Unit
    u = Unit(f'{prop}.plumbing')
    forwarding_lemmas(u, prop)
    shared_state_lemma(u, prop)
    return u


# ---------------------------------------------------------------------------------------------------------------
# native
# ---------------------------------------------------------------------------------------------------------------

def _system(seed, **kw):
    from verif.native.synth import hopping_system
    args = dict(n_frames=40, n_diff=3, n_sites=4, n_frame_atoms=2, frame_symbols=('O', 'O'), hop_prob=0.35, labels=['A', 'B', 'A', 'C'], vib=0.2)
    args.update(kw)
    return hopping_system(seed, **args)


def _cmp(a, b, what, bad):
    from verif.native.purity import same, snap
    if not same(snap(a), snap(b), tol=1e-9):
        bad.append(what)


def replay_wrapper(inputs):
    """The wrapper with every argument at a non-default value against the direct call of the function it wraps."""
    import warnings
    import numpy as np
    warnings.filterwarnings('ignore')
    key, seed = inputs['wrapper'], int(inputs.get('seed', 1))
    bad = []
    traj, sites, info = _system(seed)
    if key == 'Trajectory.transitions_between_sites':
        from gemdat.transitions import Transitions
        for radius in ({'A': 0.9, 'B': 1.1, 'C': 1.0}, 0.8):
            kw = dict(sites=sites, floating_specie='Li', site_radius=radius, site_inner_fraction=0.6)
            w, d = traj.transitions_between_sites(**kw), Transitions.from_trajectory(trajectory=traj, **kw)
            _cmp(w.states, d.states, f'states differ (site_radius={radius})', bad)
            _cmp(w.inner_states, d.inner_states, f'inner states differ from those of the direct call (site_inner_fraction=0.6, site_radius={radius})', bad)
            _cmp(w.events, d.events, f'events differ (site_radius={radius})', bad)
            if (np.asarray(w.inner_states) == np.asarray(w.states)).all() and (np.asarray(d.inner_states) != np.asarray(d.states)).any():
                bad.append('the inner fraction did not reach the state computation')
    elif key == 'Trajectory.to_volume':
        from gemdat.volume import trajectory_to_volume
        li = traj.filter('Li')
        for res in (0.35, 0.9):
            _cmp(li.to_volume(resolution=res), trajectory_to_volume(li, resolution=res), f'to_volume(resolution={res}) differs from trajectory_to_volume', bad)
    elif key == 'Trajectory.metrics':
        if traj.metrics().trajectory is not traj:
            bad.append('metrics() is not about this trajectory')
    elif key == 'Trajectory.radial_distribution_between_species':
        from gemdat import rdf
        kw = dict(specie_1='Li', specie_2='O', max_dist=3.0, resolution=0.25)
        w, d = traj.radial_distribution_between_species(**kw), rdf.radial_distribution_between_species(trajectory=traj, **kw)
        _cmp(w, d, 'radial_distribution_between_species(max_dist=3, resolution=0.25) differs from the module-level function', bad)
        if len(w.x) != 12:
            bad.append(f'{len(w.x)} shells for max_dist=3.0, resolution=0.25 (12 requested)')
    elif key == 'Transitions.jumps':
        from gemdat.jumps import Jumps
        tr = traj.transitions_between_sites(sites, 'Li', site_radius=1.0, site_inner_fraction=0.6)
        for mres in (0, 2):
            try:
                w = tr.jumps(minimal_residence=mres).data
            except ValueError:
                w = None
            try:
                d = Jumps(tr, minimal_residence=mres).data
            except ValueError:
                d = None
            if (w is None) != (d is None):
                bad.append(f'jumps(minimal_residence={mres}) raises in one of the two routes only')
            elif w is not None:
                _cmp(w, d, f'jumps(minimal_residence={mres}) differs from Jumps(transitions, minimal_residence={mres})', bad)
    elif key == 'Transitions.radial_distribution':
        from gemdat import rdf
        tr = traj.transitions_between_sites(sites, 'Li', site_radius=1.0)
        kw = dict(floating_specie='Li', max_dist=3.0, resolution=0.5)
        w, d = tr.radial_distribution(**kw), rdf.radial_distribution(transitions=tr, **kw)
        flat = lambda r: {(k, x.label): np.asarray(x.y) for k, c in r.items() for x in c}  # noqa: E731
        _cmp(flat(w), flat(d), 'Transitions.radial_distribution differs from the module-level function', bad)
        if any(len(v) != 7 for v in flat(w).values()):
            bad.append('wrong number of shells for max_dist=3.0, resolution=0.5')
    elif key in ('FreeEnergyVolume.free_energy_graph', 'FreeEnergyVolume.optimal_percolating_path'):
        from gemdat import path as gpath
        vol = traj.filter('Li').to_volume(resolution=0.9)
        with np.errstate(divide='ignore'):
            F = vol.get_free_energy(temperature=600.0)
        if key == 'FreeEnergyVolume.free_energy_graph':
            for kw in (dict(), dict(max_energy_threshold=1e15, diagonal=False), dict(max_energy_threshold=0.2)):
                w, d = F.free_energy_graph(**kw), gpath.free_energy_graph(F.data, **kw)
                _cmp(w, d, f'free_energy_graph({kw}) differs from the module-level function on the same data', bad)
                thr = kw.get('max_energy_threshold', 1e20)
                exp_nodes = {tuple(int(v) for v in i) for i in np.argwhere(np.asarray(F.data) < thr)}
                if set(w.nodes) != exp_nodes:
                    bad.append(f'free_energy_graph({kw}): nodes are not exactly the voxels below the threshold ({len(w.nodes)} vs {len(exp_nodes)})')
        else:
            visited = np.argwhere(np.asarray(vol.data) > 0)[:6]
            for direction in ('x', 'yz'):
                kw = dict(peaks=visited, percolate=direction)
                w, d = F.optimal_percolating_path(**kw), gpath.optimal_percolating_path(F, **kw)
                if (w is None) != (d is None):
                    bad.append(f'optimal_percolating_path({direction}) exists in one route only')
                elif w is not None:
                    _cmp(w, d, f'optimal_percolating_path(percolate={direction}) differs from the module-level function', bad)
    else:
        return {'reproduced': False, 'detail': f'no native equivalence for {key}'}
    return {'reproduced': bool(bad), 'detail': f'{key} (seed {seed}): ' + '; '.join(bad[:4])}


def replay_shared_state(inputs):
    """Two independent objects of every kind, built and queried one after the other in two orders: the results must not depend on the order or on
    what the other object was asked (no state shared between calls or objects)."""
    import warnings
    import numpy as np
    warnings.filterwarnings('ignore')
    from gemdat.trajectory import Trajectory
    seed = int(inputs.get('seed', 1))
    bad = []

    def analyse(tj, st, temp, n_parts):
        out = {}
        if temp is not None:
            tj.metadata['temperature'] = temp
        out['temperature'] = tj.metadata.get('temperature')
        tr = tj.transitions_between_sites(st, 'Li', site_radius=1.0)
        try:
            j = tr.jumps()
            out['n_parts'] = [int(p.n_jumps) for p in j.split(n_parts)] if j.n_jumps >= n_parts else None
        except ValueError:
            out['n_parts'] = None
        m = tj.filter('Li').metrics()
        out['tracer'] = float(m.tracer_diffusivity(dimensions=3))
        return out

    def build(k, with_meta):
        t, s, _ = _system(seed + k, n_frames=60)
        if not with_meta:
            t = Trajectory(species=list(t.species), coords=np.asarray(t.positions), lattice=np.asarray(t.get_lattice().matrix), time_step=t.time_step)
        return t, s
    for with_meta in (False, True):
        # order 1: A then B;  order 2: B then A (fresh objects each time)
        (ta, sa), (tb, sb) = build(0, with_meta), build(1, with_meta)
        ra1, rb1 = analyse(ta, sa, 300.0, 2), analyse(tb, sb, 900.0, 2)
        ra_again = analyse(ta, sa, None, 2)
        (tb2, sb2), (ta2, sa2) = build(1, with_meta), build(0, with_meta)
        rb2, ra2 = analyse(tb2, sb2, 900.0, 2), analyse(ta2, sa2, 300.0, 2)
        if ra1 != ra2 or rb1 != rb2:
            bad.append(f'results of two independent objects depend on the order in which they were analysed ({ra1} vs {ra2}; {rb1} vs {rb2})')
        if ra_again != ra1:
            bad.append(f'the first object gives something else after a second, independent object was analysed ({ra1} -> {ra_again})')
    return {'reproduced': bool(bad), 'detail': f'seed {seed}: ' + '; '.join(bad[:3])}


def replay_forwarders(inputs):
    """Forwarding methods that are not thin: equivalence with what they are documented to forward to."""
    import warnings
    import numpy as np
    warnings.filterwarnings('ignore')
    which, seed = inputs['which'], int(inputs.get('seed', 1))
    bad = []
    traj, sites, info = _system(seed, n_frames=int(inputs.get('n_frames', 60)))
    if which == 'Jumps.split':
        from gemdat.jumps import Jumps
        traj, sites, info = _system(seed, n_frames=80, vib=0.4, hop_prob=0.3)  # strong vibrations: many short visits to the outer shell of a site
        tr = traj.transitions_between_sites(sites, 'Li', site_radius=1.0, site_inner_fraction=0.5)
        for mres in (0, 2, 4):
            try:
                j = tr.jumps(minimal_residence=mres)
            except ValueError:
                continue
            for n in (2, 3):
                if j.n_jumps < n or len(tr.events) < n:
                    continue
                try:
                    parts = j.split(n)
                except ValueError as e:
                    if 'No jumps' in str(e):
                        continue  # known finding C19-empty-part
                    raise
                for k, (p, tp) in enumerate(zip(parts, tr.split(n))):
                    if getattr(p, 'minimal_residence', mres) != mres or getattr(p, 'conversion_method', j.conversion_method) is not j.conversion_method:
                        bad.append(f'part {k} of Jumps(minimal_residence={mres}).split({n}) carries other settings (minimal_residence={getattr(p, "minimal_residence", None)})')
                    try:
                        d = Jumps(tp, conversion_method=j.conversion_method, minimal_residence=mres).data
                    except ValueError:
                        d = None
                    if d is None or len(p.data) != len(d) or not np.array_equal(p.data.to_numpy(), d.to_numpy()):
                        bad.append(f'part {k} of Jumps(minimal_residence={mres}).split({n}) is not the jumps of that time part analysed with the same settings')
    elif which == 'Jumps':
        # the class is its conversion method applied with the settings given: same table, same failure
        from gemdat.jumps import Jumps, _generic_transitions_to_jumps
        traj, sites, info = _system(seed, n_frames=60, vib=0.4, hop_prob=0.3)
        tr0 = traj.transitions_between_sites(sites, 'Li', site_radius=1.0, site_inner_fraction=0.5)
        # and state / inner-state histories in which atoms only pass through the outer shells now and then (for a long enough minimal residence
        # no jump is left, which the class reports by raising like its conversion method)
        from verif.native.purity import history
        from verif.native.synth import make_transitions
        rng_h = np.random.default_rng(seed)
        cases = [(tr0, mres) for mres in (0, 1, 3, 8, 30, 1000)]
        for h in range(40):
            st_h, in_h = history(int(rng_h.integers(1, 10 ** 6)), T=24, N=2, S=3)
            in_h = np.where(rng_h.random(in_h.shape) < (0.5 if h % 2 else 0.2), in_h, -1)
            trh = make_transitions(st_h, inner_states=in_h, n_sites=3)
            cases += [(trh, mres) for mres in (0, 2, 5, 12, 25)]
        for tr, mres in cases:
            def run(fn):
                try:
                    return fn()
                except ValueError as e:
                    return f'ValueError: {e}'
            d = run(lambda: _generic_transitions_to_jumps(tr, minimal_residence=mres))
            w = run(lambda: Jumps(tr, minimal_residence=mres))
            if isinstance(d, str) or isinstance(w, str):
                if not (isinstance(d, str) and isinstance(w, str)):
                    bad.append(f'minimal_residence={mres}: the conversion gives {d if isinstance(d, str) else "%d jumps" % len(d)}, Jumps(...) gives '
                               f'{w if isinstance(w, str) else "%d jumps" % len(w.data)}')
                continue
            if len(w.data) != len(d) or not np.array_equal(w.data.to_numpy(), d.to_numpy()):
                bad.append(f'Jumps(transitions, minimal_residence={mres}).data is not the table its conversion method returns for these settings')
            if w.minimal_residence != mres or w.transitions is not tr or w.sites is not tr.sites or w.trajectory is not tr.diff_trajectory:
                bad.append(f'Jumps(transitions, minimal_residence={mres}) does not keep its settings / transitions / sites / diffusing trajectory')
    elif which == 'Jumps.collective':
        from math import ceil
        from gemdat.collective import Collective
        from gemdat.metrics import TrajectoryMetrics
        # host atoms vibrating at a much lower frequency than the diffusing ones: the window comes from the diffusing species
        from gemdat.trajectory import Trajectory
        pos = np.array(traj.positions, copy=True)
        host = [k for k, sp_ in enumerate(traj.species) if sp_.symbol != 'Li']
        tt = np.arange(len(traj))[:, None]
        for k in host:
            pos[:, k] = pos[0, k] + 0.01 * np.sin(2 * np.pi * tt / 50.0 + k) * np.ones((1, 3))
        traj = Trajectory(species=list(traj.species), coords=pos, lattice=np.asarray(traj.get_lattice().matrix), time_step=traj.time_step, metadata=dict(traj.metadata))
        tr = traj.transitions_between_sites(sites, 'Li', site_radius=1.0)
        try:
            j = tr.jumps()
        except ValueError:
            return {'reproduced': False, 'detail': 'no jumps'}
        li = traj.filter('Li')
        f_li, _ = TrajectoryMetrics(li).attempt_frequency()
        steps = ceil(1.0 / (f_li * li.time_step))
        for md in (2.5, 4.5):
            w = j.collective(max_dist=md)
            d = Collective(jumps=j, sites=sites, lattice=li.get_lattice(), max_steps=steps, max_dist=md)
            if int(w.max_steps) != int(steps):
                bad.append(f'collective(max_dist={md}): window {w.max_steps} steps, the attempt frequency of the diffusing atoms gives {steps}')
            if (w.n_solo_jumps, w.n_coll_jumps, len(w.collective)) != (d.n_solo_jumps, d.n_coll_jumps, len(d.collective)) or float(w.max_dist) != md:
                bad.append(f'collective(max_dist={md}) differs from Collective(jumps, sites, simulation cell, window of the diffusing atoms, {md})')
    elif which == 'FreeEnergyVolume.optimal_path':
        import networkx as nx
        from gemdat import path as gpath
        from gemdat.volume import FreeEnergyVolume
        from pymatgen.core import Lattice
        rng = np.random.default_rng(seed)
        for wall in ([float(inputs['wall'])] if 'wall' in inputs else [float(np.finfo(float).max), 1e12, 5e7]):  # never visited, or merely far above the 1e7 threshold of the path search
            data = rng.random((4, 4, 4)) * 0.5
            data[2, :, :] = wall  # two walls of excluded voxels cut the (periodic) grid in two
            data[0, :, :] = wall
            F = FreeEnergyVolume(data=data, lattice=Lattice.cubic(4.0))
            G = gpath.free_energy_graph(F.data, max_energy_threshold=1e7)
            for start, stop in (((1, 0, 0), (1, 3, 2)), ((1, 1, 1), (3, 1, 1))):
                def run(fn):
                    try:
                        return fn()
                    except nx.NetworkXNoPath:
                        return 'no path'
                w = run(lambda: F.optimal_path(start=start, stop=stop))
                d = run(lambda: gpath.optimal_path(G, start=start, stop=stop))
                if isinstance(w, str) or isinstance(d, str):
                    if w != d and not (isinstance(w, str) and isinstance(d, str)):
                        bad.append(f'optimal_path {start}->{stop}: {"no path" if isinstance(d, str) else "a path"} on the graph of visited voxels, the method reports {"no path" if isinstance(w, str) else "a path of cost %g" % w.total_energy}')
                else:
                    if abs(float(w.total_energy) - float(d.total_energy)) > 1e-9 or list(w.sites) != list(d.sites):
                        bad.append(f'optimal_path {start}->{stop} differs from the module-level function on the thresholded graph')
                    if tuple(w.dims) != (4, 4, 4):
                        bad.append('path.dims is not the grid shape')
                    if any(data[tuple(s)] > 1e7 for s in w.sites):
                        bad.append('the path runs through a never-visited voxel')
    elif which == 'TrajectoryMetricsStd':
        from gemdat.metrics import TrajectoryMetrics, TrajectoryMetricsStd
        li = traj.filter('Li')
        parts = li.split(3)
        ms = TrajectoryMetricsStd(parts)
        for dim in (1, 2, 3):
            vals = [float(TrajectoryMetrics(p).tracer_diffusivity(dimensions=dim)) for p in parts]
            got = ms.tracer_diffusivity(dimensions=dim)
            if not np.isclose(got.n, np.mean(vals), rtol=1e-9) or not np.isclose(got.s, np.std(vals), rtol=1e-9, atol=1e-30):
                bad.append(f'TrajectoryMetricsStd.tracer_diffusivity(dimensions={dim}) = {got}, parts give {np.mean(vals)} +/- {np.std(vals)}')
            for z in (1, 2):
                cv = [float(TrajectoryMetrics(p).tracer_conductivity(z_ion=z, dimensions=dim)) for p in parts]
                gc_ = ms.tracer_conductivity(z_ion=z, dimensions=dim)
                if not np.isclose(gc_.n, np.mean(cv), rtol=1e-9):
                    bad.append(f'TrajectoryMetricsStd.tracer_conductivity(z_ion={z}, dimensions={dim}) = {gc_.n}, parts give {np.mean(cv)}')
    else:
        return {'reproduced': False, 'detail': f'unknown {which}'}
    return {'reproduced': bool(bad), 'detail': f'{which} (seed {seed}): ' + '; '.join(bad[:4])}


FORWARDERS = {'C04': ['Jumps'], 'C05': ['Jumps.split', 'Jumps'], 'C19': ['Jumps.split', 'Jumps'], 'C12': ['Jumps.collective'], 'C10': ['FreeEnergyVolume.optimal_path'],
              'C06': ['TrajectoryMetricsStd'], 'C14': ['TrajectoryMetricsStd']}


def make_bounded(prop, n_quick=2, n_thorough=25):
    def bounded_plumbing(tier, seed):
        import numpy as np
        from verif.bounded import Stand
        n = n_quick if tier == 'quick' else n_thorough
        keys = BY_PROPERTY.get(prop, [])
        fw = FORWARDERS.get(prop, [])
        st = Stand(f'{prop}.plumbing', f'{len(keys)} wrappers against their direct calls, {len(fw)} forwarding methods against what they forward to, shared-state order test; {n} synthetic systems each',
                   'seeded random systems; every argument at a non-default value; distinct by (call, seed)')
        rng = np.random.default_rng(seed + 7171)
        for c in range(n):
            for key in keys:
                inp = {'wrapper': key, 'seed': int(rng.integers(1, 10 ** 6))}
                r = st.guard(replay_wrapper, inp)
                if r is not None:
                    st.case(inp, nontrivial=True, sample=inp)
                    if r['reproduced']:
                        st.violation('wrapper', r['detail'], 'verif.props.plumbing:replay_wrapper', inp)
            for which in fw:
                inp = {'which': which, 'seed': int(rng.integers(1, 10 ** 6))}
                r = st.guard(replay_forwarders, inp)
                if r is not None:
                    st.case(inp, nontrivial=True, sample=inp)
                    if r['reproduced']:
                        st.violation('forwarder', r['detail'], 'verif.props.plumbing:replay_forwarders', inp)
            inp = {'seed': int(rng.integers(1, 10 ** 6))}
            r = st.guard(replay_shared_state, inp)
            if r is not None:
                st.case(inp, nontrivial=True, sample=inp)
                if r['reproduced']:
                    st.violation('shared-state', r['detail'], 'verif.props.plumbing:replay_shared_state', inp)
        return st.result()
    return bounded_plumbing

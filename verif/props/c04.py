"""C04 — jumps are exactly the changes of visited site; stricter settings only remove."""
from __future__ import annotations

import z3

from verif.bounded import Stand
from verif.engine import values as V
from verif.engine.core import Unsupported
from verif.engine.interp import LoopSpec, SymIter
from verif.engine.unit import Unit
from verif.engine.values import SFrame, SObj, SOpt, SRow, SSeq, STensor, to_z3
from verif.props.common import install_common

PROPERTY = 'C04'
MANIFEST = {
    'level_text': 'Proved with nested loop invariants over the real fromevent / candidate_jump machine of _generic_transitions_to_jumps, for every number of '
                  'atoms, events and frames, every inner-site history b with b[t] in {-1, a[t]} and every minimal_residence >= 0 (E2): each reported row '
                  '(atom, S, D, start, stop) has S != -1, D != -1, S != D, a[start] = S, a[stop] = D, the atom leaves S at start (a[start+1] != S) and D is the '
                  'first site it reaches afterwards - i.e. it is a default jump with the same atom, origin, destination and start time (lemma) - and '
                  'ValueError is raised only when nothing was collected.  Default settings (E1, b = a, residence 0): the collected list is, in order, '
                  'exactly one row per arrival event whose previous site differs, with start time = last frame at the origin and stop time = first frame '
                  'at the destination; a history-level lemma identifies that list with the set of default jumps DJ(a).  E3 (raising the residence never adds '
                  'rows) is decided by a product invariant over two runs of the real loop body on the same event (m <= m\').',
    'level_note': 'Trusted: the events table satisfies the C03 postcondition (rows = change times of (a, b), in time order per atom), pandas groupby / iterrows / '
                  'row-copy / DataFrame-from-rows / boolean-mask contracts (A-PANDAS), pyvc itself.',
    'technique': 'deductive: VCs from the real AST of _generic_transitions_to_jumps with nested loop invariants, product-program invariant for monotonicity, '
                 'history-level lemmas; z3/cvc5; native replay; exhaustive short histories and random long histories as bounded stand-in',
}
UNITS = ['unit_sound', 'unit_default', 'unit_monotone', 'unit_lemmas', 'unit_plumbing', 'unit_dep_from_trajectory']
BOUNDED = ['bounded_histories', 'bounded_purity', 'bounded_plumbing']
META = {'clauses': {'C04.E1': 'P', 'C04.E2': 'P', 'C04.E3': 'P (product invariant over the real loop body; DataFrame build + row-local filter preserve the subset relation: argued, A-PANDAS)', 'pandas row/groupby semantics': 'A'},
        'not_decided': []}

FN = 'gemdat.jumps._generic_transitions_to_jumps'
COLS = ['atom index', 'start site', 'destination site', 'start inner site', 'destination inner site', 'time']
ROWF = ['atom index', 'start site', 'destination site', 'start inner site', 'destination inner site', 'start time', 'stop time']


class World:
    """Symbolic events table grouped per atom, with the site / inner-site histories it was computed from (ghost)."""

    def __init__(self, ctx, default):
        self.ctx = ctx
        I = z3.IntSort()
        self.R, self.G, self.T = z3.Int('n_events'), z3.Int('n_groups'), z3.Int('n_frames')
        self.E = {c: z3.Function('E_' + c.replace(' ', '_'), I, I) for c in COLS}
        self.gi = z3.Function('group_row', I, I, I)  # (group, k) -> row of the events table
        self.NG = z3.Function('group_size', I, I)
        self.key = z3.Function('group_atom', I, I)
        self.a = z3.Function('site_of', I, I, I)  # a(frame, atom)
        self.b = z3.Function('inner_site_of', I, I, I) if not default else self.a
        self.default = default
        self.trig = z3.Function('never', I, I, z3.BoolSort())
        ctx.assume(z3.And(self.R >= 1, self.G >= 1, self.T >= 2))
        g, k, v, al = z3.Ints('qg qk qv qa')
        # the quantified requires (C03 postcondition + groupby contract); instantiated by hand at the loop indices (facts_at)
        ctx.assume(z3.ForAll([g, k], z3.And(*self.facts_at(g, k)), patterns=[self.trig(g, k)]), tag='requires: events = change times of (a,b) per atom in time order (C03 postcondition, groupby contract)')
        ctx.assume(z3.ForAll([v, al], z3.And(self.a(v, al) >= -1, z3.Or(self.b(v, al) == -1, self.b(v, al) == self.a(v, al))), patterns=[self.a(v, al)]),
                   tag='requires: inner site of a frame is -1 or the site (C02/C03)')

    def col(self, c, g, k):
        return self.E[c](self.gi(g, z3.simplify(k) if z3.is_expr(k) else k))

    def facts_at(self, g, k):
        a, b, T = self.a, self.b, self.T
        al = self.key(g)
        tm = self.col('time', g, k)
        st, ds, si, di = (self.col(c, g, k) for c in COLS[1:5])
        v = z3.Int('hv')
        inr = z3.And(g >= 0, g < self.G, k >= 0, k < self.NG(g))
        tmp, dsp, dip = self.col('time', g, k - 1), self.col('destination site', g, k - 1), self.col('destination inner site', g, k - 1)
        return [z3.Implies(z3.And(g >= 0, g < self.G), self.NG(g) >= 1),
                z3.Implies(inr, z3.And(self.gi(g, k) >= 0, self.gi(g, k) < self.R, self.col('atom index', g, k) == al,
                                       tm >= 0, tm < T - 1, st == a(tm, al), ds == a(tm + 1, al), si == b(tm, al), di == b(tm + 1, al),
                                       z3.Or(st != ds, si != di))),
                z3.Implies(z3.And(inr, k >= 1), z3.And(tmp < tm, self.gi(g, k - 1) < self.gi(g, k),
                                                       z3.ForAll([v], z3.Implies(z3.And(tmp < v, v <= tm), z3.And(a(v, al) == dsp, b(v, al) == dip)), patterns=[a(v, al)])))]

    def frame(self):
        cols = {c: STensor((self.R,), (lambda f: (lambda i: f(to_z3(i))))(self.E[c]), 'int') for c in COLS}
        return SFrame(cols, self.R)

    def groupby(self, interp, fr, by):
        """pandas groupby(by): groups in key order, rows of a group in table order (assumed contract)."""
        if by != 'atom index':
            raise Unsupported(f'groupby({by})')
        interp.ctx.use('DataFrame.groupby(key): one sub-frame per key value, keys ascending, rows in table order')
        w = self

        def item(g):
            gz = to_z3(g)
            sub = SFrame({c: STensor((w.NG(gz),), (lambda f: (lambda kk: f(w.gi(gz, to_z3(kk)))))(t.fn), t.dtype) for c, t in fr.columns.items()}, w.NG(gz))
            sub.group = gz
            return (w.key(gz), sub)
        return SymIter(self.G, item)

    # ---- the per-jump predicate -------------------------------------------------------------------------------
    def J(self, al, S, D, ts, stop):
        """(atom al) leaves site S after frame ts and D is the first site it is at afterwards, reached at or before `stop`, where it still is."""
        a = self.a
        v = z3.Int('jv')
        body = z3.Implies(z3.And(ts < v, v < stop), a(v, al) == -1)
        gap = z3.ForAll([v], body, patterns=[a(v, al)]) if 'If(' not in str(al) else z3.ForAll([v], body)
        return z3.And(S != -1, D != -1, ts >= 0, ts < stop, stop < self.T, a(ts, al) == S, a(ts + 1, al) != S, a(stop, al) == D,
                      z3.Or(a(ts + 1, al) == D, gap))


def _opt(v):
    """(is_none, fields) of a loop-carried optional row in whatever form the path left it."""
    if v is None:
        return z3.BoolVal(True), None
    if isinstance(v, SRow):
        return z3.BoolVal(False), v.fields
    if isinstance(v, SOpt):
        return to_z3(v.is_none), v.payload.fields
    raise Unsupported(f'optional row in form {type(v).__name__}')


def _row_maker(prefix):
    def maker(interp, env, k):
        ctx = interp.ctx
        none = ctx.fresh_bool(prefix + '_is_none')
        return SOpt(none, SRow({f: ctx.fresh_int(prefix + '_' + f.replace(' ', '_')) for f in ROWF}))
    return maker


def _jumps_maker(interp, env, k):
    ctx = interp.ctx
    fs = {f: ctx.fresh_fun('jump_' + f.replace(' ', '_'), z3.IntSort(), z3.IntSort()) for f in ROWF}
    L = ctx.fresh_int('n_collected')
    ctx.assume(L >= 0)  # a Python list has a non-negative length
    s = SSeq(L, lambda j: SRow({f: fs[f](to_z3(j)) for f in ROWF}))
    s.fields_fn = fs
    return s


def _install(u, holder):
    install_common(u)

    def frame_method_hook(interp, fr, meth, args, kwargs, line):
        if meth == 'groupby':
            return holder['w'].groupby(interp, fr, args[0])
        return NotImplemented
    u.frame_method_hook = frame_method_hook

    def frame_from_rows(interp, data, line):
        interp.ctx.use('pandas.DataFrame(list of row Series): one row per list element, in order, columns = the row fields')
        fn = data.fn
        fr = SFrame({f: STensor((data.length,), (lambda ff: (lambda i: fn(to_z3(i)).fields[ff]))(f), 'int') for f in ROWF}, data.length)
        fr.from_rows = data
        return fr
    u.frame_from_rows = frame_from_rows


def _seq(env, interp):
    j = env.get('jumps', interp)
    if isinstance(j, list):
        if j:
            raise Unsupported('concrete non-empty jumps list')
        return SSeq(0, lambda i: None)
    return j


def _jumps_inv(w, jumps):
    """every collected row is a jump of its atom in the sense of J, with stop = event time + 1 semantics checked by J itself"""
    j = z3.Int('ij')
    L = to_z3(jumps.length)
    if isinstance(jumps.length, int) and jumps.length == 0:
        return [('collected rows are jumps (empty)', z3.BoolVal(True)), ('length >= 0', z3.BoolVal(True))]
    r = jumps.fn(j).fields
    return [('length >= 0', L >= 0),
            ('every collected row is a jump of its atom: leaves S at start time, D is the first site reached, at D at stop time',
             z3.ForAll([j], z3.Implies(z3.And(j >= 0, j < L), w.J(to_z3(r['atom index']), to_z3(r['start site']), to_z3(r['destination site']), to_z3(r['start time']), to_z3(r['stop time'])))))]


def unit_sound(tier):
    """E2: every reported jump is a default jump (same atom, origin, destination, start time) and agrees with the recorded states; any b, any residence."""
    u = Unit('C04.sound')
    holder = {}
    _install(u, holder)

    def setup(interp):
        ctx = interp.ctx
        w = World(ctx, default=False)
        holder['w'] = w
        m = z3.Int('minimal_residence')
        ctx.assume(m >= 0)
        tr = SObj('Transitions', events=w.frame())
        return [tr], {'minimal_residence': m}, {'w': w, 'm': m}

    def outer_inv(interp, env, g):
        return _jumps_inv(holder['w'], _seq(env, interp))

    def inner_inv(interp, env, k):
        w = holder['w']
        ctx = interp.ctx
        grp = env.get('events', interp)
        g = grp.group
        al = w.key(g)
        if getattr(interp, 'inv_mode', 'prove') == 'assume':
            for kk in (k, k - 1):
                for f in w.facts_at(g, to_z3(kk)):
                    ctx.assume(f)
        out = list(_jumps_inv(w, _seq(env, interp)))
        kz = to_z3(k)
        now = w.col('time', g, kz - 1) + 1  # the frame after the last processed event (k >= 1)
        fn_, ff = _opt(env.get('fromevent', interp))
        cn_, cf = _opt(env.get('candidate_jump', interp))
        a = w.a
        v = z3.Int('iv')
        if ff is not None:
            S, F, ts = to_z3(ff['start site']), to_z3(ff['destination site']), to_z3(ff['start time'])
            out.append(('fromevent: the atom left site S after frame ts and has been at a(ts+1) != S ever since', z3.Implies(z3.Not(fn_), z3.And(
                kz >= 1, to_z3(ff['atom index']) == al, S != -1, ts >= 0, ts < now, a(ts, al) == S, F == a(ts + 1, al), F != S,
                z3.ForAll([v], z3.Implies(z3.And(ts < v, v <= now), a(v, al) == F), patterns=[a(v, al)])))))
        if cf is not None:
            S, D, ts, stop = (to_z3(cf[f]) for f in ('start site', 'destination site', 'start time', 'stop time'))
            out.append(('candidate_jump is a jump of this atom that is complete by now', z3.Implies(z3.Not(cn_), z3.And(
                kz >= 1, to_z3(cf['atom index']) == al, w.J(al, S, D, ts, stop), stop <= now))))
        return out
    u.loops[(FN, 0)] = LoopSpec({'jumps': _jumps_maker}, outer_inv)
    u.loops[(FN, 1)] = LoopSpec({'jumps': _jumps_maker, 'fromevent': _row_maker('fromevent'), 'candidate_jump': _row_maker('candidate')}, inner_inv)

    def post(interp, st, res):
        w = st['w']
        sel = getattr(res, 'selection', None)
        if sel is None:
            return [('result = the collected rows with start != destination', z3.BoolVal(False))]
        q = z3.Int('pq')
        cols = res.columns
        need = ['atom index', 'start site', 'destination site', 'start time', 'stop time']
        out = [('columns', z3.BoolVal(sorted(cols) == sorted(need)))]
        if sorted(cols) != sorted(need):
            return out
        al, S, D, ts, stop = (to_z3(cols[c].at(q)) for c in need)
        out.append(('every reported row is a jump of its atom (J) with distinct sites', z3.ForAll([q], z3.Implies(z3.And(q >= 0, q < to_z3(res.nrows)), z3.And(w.J(al, S, D, ts, stop), S != D)))))
        return out

    def on_raise(interp, st, exc):
        return [('ValueError only when nothing was collected', z3.BoolVal(exc == 'ValueError'))]
    u.prove_function('gemdat.jumps', '_generic_transitions_to_jumps', setup, post, raises=('ValueError',), on_raise=on_raise,
                     label='gemdat.jumps._generic_transitions_to_jumps[E2: any inner sites, any residence]', max_paths=2000,
                     replay={'fn': 'verif.props.c04:replay_history', 'sizes': lambda st: [], 'concretise': lambda mm, st, ob: {'seed': 11}})
    return u


def unit_default(tier):
    """E1: default settings (inner = outer, residence 0): the collected list is, in order, one row per arrival event whose previous site differs."""
    u = Unit('C04.default')
    holder = {}
    _install(u, holder)
    I = z3.IntSort()
    CNT = z3.Function('emitted_before', I, I, I)  # (group, k): number of emitting rows among the first k rows of the group
    OFF = z3.Function('emitted_before_group', I, I)

    def emit(w, g, k):
        st, ds = w.col('start site', g, k), w.col('destination site', g, k)
        return z3.And(ds != -1, z3.Or(st != -1, z3.And(k >= 1, w.col('start site', g, k - 1) != ds)))

    def JR(w, g, k):
        st = w.col('start site', g, k)
        direct = st != -1
        return {'atom index': w.key(g), 'start site': z3.If(direct, st, w.col('start site', g, k - 1)), 'destination site': w.col('destination site', g, k),
                'start time': z3.If(direct, w.col('time', g, k), w.col('time', g, k - 1)), 'stop time': w.col('time', g, k) + 1}

    def setup(interp):
        ctx = interp.ctx
        w = World(ctx, default=True)
        holder['w'] = w
        tr = SObj('Transitions', events=w.frame())
        return [tr], {}, {'w': w}

    def defs(ctx):
        """ghost definitions (not requires): recursive counters of emitting events"""
        if ctx.ghost.get('c04_defs'):
            return
        ctx.ghost['c04_defs'] = True
        w = holder['w']
        g, k = z3.Ints('cg ck')
        ctx.assume(z3.ForAll([g], CNT(g, 0) == 0, patterns=[CNT(g, 0)]), tag='definition: emitted_before(g,0) = 0')
        ctx.assume(z3.ForAll([g, k], z3.Implies(k >= 0, CNT(g, k + 1) == CNT(g, k) + z3.If(emit(w, g, k), 1, 0)), patterns=[CNT(g, k + 1)]), tag='definition: emitted_before(g,k+1)')
        ctx.assume(z3.And(OFF(0) == 0, z3.ForAll([g], z3.Implies(g >= 0, OFF(g + 1) == OFF(g) + CNT(g, w.NG(g))), patterns=[OFF(g + 1)])), tag='definition: emitted_before_group')

    def content(w, jumps, G_, K_):
        """rows of groups < G_ and rows < K_ of group G_ that emit sit at position OFF + CNT with the specified content."""
        g, k = z3.Ints('xg xk')
        row = jumps.fn(OFF(g) + CNT(g, k)).fields
        jr = JR(w, g, k)
        return z3.ForAll([g, k], z3.Implies(z3.And(g >= 0, k >= 0, k < w.NG(g), z3.Or(g < G_, z3.And(g == G_, k < K_)), g < w.G, emit(w, g, k)),
                                            z3.And(OFF(g) + CNT(g, k) < to_z3(jumps.length), *[to_z3(row[f]) == jr[f] for f in jr])), patterns=[CNT(g, k)])

    def distinct(jumps):
        j = z3.Int('dj')
        r = jumps.fn(j).fields
        return ('collected rows have distinct sites', z3.ForAll([j], z3.Implies(z3.And(j >= 0, j < to_z3(jumps.length)), to_z3(r['start site']) != to_z3(r['destination site']))))

    def outer_inv(interp, env, g):
        w = holder['w']
        defs(interp.ctx)
        jumps = _seq(env, interp)
        gz = to_z3(g)
        out = [('length = number of emitting rows of the groups done', to_z3(jumps.length) == OFF(gz))]
        if not (isinstance(jumps.length, int) and jumps.length == 0):
            out.append(('position and content of every emitted row so far', content(w, jumps, gz, z3.IntVal(0))))
            out.append(distinct(jumps))
        return out

    def inner_inv(interp, env, k):
        w = holder['w']
        ctx = interp.ctx
        grp = env.get('events', interp)
        g = grp.group
        kz = to_z3(k)
        if getattr(interp, 'inv_mode', 'prove') == 'assume':
            for kk in (kz, kz - 1, kz + 1):
                for f in w.facts_at(g, kk):
                    ctx.assume(f)
        jumps = _seq(env, interp)
        out = [('length = emitted so far', to_z3(jumps.length) == OFF(g) + CNT(g, kz))]
        if not (isinstance(jumps.length, int) and jumps.length == 0):
            out.append(('position and content of every emitted row so far', content(w, jumps, g, kz)))
            out.append(distinct(jumps))
        fn_, ff = _opt(env.get('fromevent', interp))
        cn_, cf = _opt(env.get('candidate_jump', interp))
        out.append(('no candidate in default mode', cn_))
        pending = z3.And(kz >= 1, w.col('destination site', g, kz - 1) == -1)
        out.append(('fromevent pending iff the last event went to no site', z3.Not(fn_) == pending))
        if ff is not None:
            out.append(('fromevent is the last event', z3.Implies(z3.Not(fn_), z3.And(
                to_z3(ff['start site']) == w.col('start site', g, kz - 1), to_z3(ff['start time']) == w.col('time', g, kz - 1),
                to_z3(ff['destination site']) == -1, to_z3(ff['atom index']) == w.key(g)))))
        return out
    u.loops[(FN, 0)] = LoopSpec({'jumps': _jumps_maker}, outer_inv)
    u.loops[(FN, 1)] = LoopSpec({'jumps': _jumps_maker, 'fromevent': _row_maker('fromevent'), 'candidate_jump': _row_maker('candidate')}, inner_inv)

    def post(interp, st, res):
        w = st['w']
        sel = getattr(res, 'selection', None)
        src = getattr(res, 'from_rows', None)
        if sel is None or src is None:
            return [('result = the collected rows with start != destination', z3.BoolVal(False))]
        q, j = z3.Ints('pq pj')
        need = ['atom index', 'start site', 'destination site', 'start time', 'stop time']
        if sorted(res.columns) != sorted(need):
            return [('columns', z3.BoolVal(False))]
        r = src.fn(j).fields
        return [('columns', z3.BoolVal(True)),
                ('number of collected rows = number of emitting events', to_z3(src.length) == OFF(w.G)),
                ('position and content of every collected row', content(w, src, w.G, z3.IntVal(0))),
                ('no collected row has start = destination, so the final filter keeps all of them', z3.ForAll([j], z3.Implies(z3.And(j >= 0, j < to_z3(src.length)), to_z3(sel.member(j))))),
                ('reported rows are the kept collected rows, in order', z3.ForAll([q], z3.Implies(z3.And(q >= 0, q < to_z3(res.nrows)), z3.And(*[
                    to_z3(res.columns[c].at(q)) == to_z3(src.fn(sel.pos(q)).fields[c]) for c in need]))))]

    def on_raise(interp, st, exc):
        w = st['w']
        return [('ValueError iff no event emits', z3.And(z3.BoolVal(exc == 'ValueError'), OFF(w.G) == 0))]
    u.prove_function('gemdat.jumps', '_generic_transitions_to_jumps', setup, post, raises=('ValueError',), on_raise=on_raise,
                     label='gemdat.jumps._generic_transitions_to_jumps[E1: default settings]', max_paths=2000,
                     replay={'fn': 'verif.props.c04:replay_history', 'sizes': lambda st: [], 'concretise': lambda mm, st, ob: {'seed': 12}})
    return u


def unit_monotone(tier):
    """E3 (2-safety): the real inner-loop body is executed twice on the same event row, with residences m1 <= m2, from states related by the
    product invariant  PHI:  fromevent identical; candidate of run 1 present => identical candidate in run 2; candidate of run 2 present and run 1's
    absent => that row is already collected in run 1; every row collected in run 2 is collected in run 1.  PHI holds at the start of every atom
    (both None, lists related) and is preserved by the body, so the rows collected (hence, after the row-local filter, reported) with m2 are a subset of
    those with m1.  No assumption on the event rows is needed."""
    import ast
    import time as _time
    from verif.engine.core import explore
    from verif.engine.interp import Env, Interp, _Continue
    u = Unit('C04.monotone')
    install_common(u)
    label = 'gemdat.jumps._generic_transitions_to_jumps[E3: product of two runs of the loop body, m1 <= m2]'
    info = {'n_return': 0, 'n_raise': 0, 'n_step': 0}

    def find_body():
        fi = u.sources.function('gemdat.jumps', '_generic_transitions_to_jumps')
        if fi is None:
            raise Unsupported('function not found')
        outer = [n for n in fi.node.body if isinstance(n, ast.For)]
        if len(outer) != 1:
            raise Unsupported('expected one outer loop over the per-atom event groups')
        inner = [n for n in outer[0].body if isinstance(n, ast.For)]
        pre = [n for n in outer[0].body if not isinstance(n, ast.For)]
        if len(inner) != 1:
            raise Unsupported('expected one inner loop over the events of an atom')
        return fi, outer[0], pre, inner[0]

    def eq_rows(f1, f2):
        return z3.And(*[to_z3(f1[f]) == to_z3(f2[f]) for f in ROWF])

    def run(ctx):
        interp = Interp(ctx, u.sources, u)
        fi, outer, pre, inner = find_body()
        ctx.func = FN
        interp.cur_func = FN
        m1, m2 = z3.Ints('m1 m2')
        ctx.assume(z3.And(m1 >= 0, m1 <= m2))
        ev = {f: ctx.fresh_int('event_' + f.replace(' ', '_')) for f in ROWF}
        st = []
        for r, m in ((1, m1), (2, m2)):
            env = Env(fi.module_env(interp))
            env.set('minimal_residence', m)
            env.set('jumps', _jumps_maker(interp, env, None))
            env.set('fromevent', _row_maker(f'run{r}_fromevent')(interp, env, None))
            env.set('candidate_jump', _row_maker(f'run{r}_candidate')(interp, env, None))
            st.append(env)
        e1, e2 = st
        # ---- PHI assumed before the body ---------------------------------------------------------------------
        j1, j2 = e1.get('jumps', interp), e2.get('jumps', interp)
        L1, L2 = to_z3(j1.length), to_z3(j2.length)
        W = ctx.fresh_fun('witness', z3.IntSort(), z3.IntSort())
        ci = ctx.fresh_int('candidate_index')
        j = z3.Int('pj')
        fn1, ff1 = _opt(e1.get('fromevent', interp))
        fn2, ff2 = _opt(e2.get('fromevent', interp))
        cn1, cf1 = _opt(e1.get('candidate_jump', interp))
        cn2, cf2 = _opt(e2.get('candidate_jump', interp))
        ctx.assume(z3.And(fn1 == fn2, z3.Implies(z3.Not(fn1), eq_rows(ff1, ff2))))
        ctx.assume(z3.Implies(z3.Not(cn1), z3.And(z3.Not(cn2), eq_rows(cf1, cf2))))
        ctx.assume(z3.Implies(z3.And(z3.Not(cn2), cn1), z3.And(ci >= 0, ci < L1, eq_rows(j1.fn(ci).fields, cf2))))
        ctx.assume(z3.ForAll([j], z3.Implies(z3.And(j >= 0, j < L2), z3.And(W(j) >= 0, W(j) < L1, eq_rows(j1.fn(W(j)).fields, j2.fn(j).fields))), patterns=[W(j)]))
        ctx.ghost['requires_len'] = len(ctx.hyps)
        # ---- the real loop body, once per run, on copies of the same event row --------------------------------
        for env in (e1, e2):
            interp.assign(inner.target, (ctx.fresh_int('label'), SRow(dict(ev))), env)
            try:
                interp.exec_block(inner.body, env)
            except _Continue:
                pass
        # ---- PHI after the body -------------------------------------------------------------------------------
        j1n, j2n = e1.get('jumps', interp), e2.get('jumps', interp)
        L1n, L2n = to_z3(j1n.length), to_z3(j2n.length)
        fn1, ff1 = _opt(e1.get('fromevent', interp))
        fn2, ff2 = _opt(e2.get('fromevent', interp))
        cn1, cf1 = _opt(e1.get('candidate_jump', interp))
        cn2, cf2 = _opt(e2.get('candidate_jump', interp))
        ctx.oblige(f'{label}.fromevent identical in both runs', z3.And(fn1 == fn2, z3.Implies(z3.Not(fn1), eq_rows(ff1, ff2)) if ff1 is not None and ff2 is not None else z3.BoolVal(True)), kind='inv-step')
        if cf1 is not None:
            ctx.oblige(f'{label}.candidate of run 1 is the candidate of run 2', z3.Implies(z3.Not(cn1), z3.And(z3.Not(cn2), eq_rows(cf1, cf2) if cf2 is not None else z3.BoolVal(False))), kind='inv-step')
        wit = [ci, L1, L1 + 1]
        if cf2 is not None:
            ctx.oblige(f'{label}.a candidate only run 2 still holds is already collected in run 1', z3.Implies(z3.And(z3.Not(cn2), cn1), z3.Or(*[
                z3.And(i >= 0, i < L1n, eq_rows(j1n.fn(i).fields, cf2)) for i in wit])), kind='inv-step')
        ctx.oblige(f'{label}.every row collected with the larger residence is collected with the smaller one', z3.ForAll([j], z3.Implies(z3.And(j >= 0, j < L2n), z3.Or(*[
            z3.And(i >= 0, i < L1n, eq_rows(j1n.fn(i).fields, j2n.fn(j).fields)) for i in [W(j)] + wit]))), kind='inv-step')
        ctx.oblige(f'{label}.lists only grow', z3.And(L1n >= L1, L2n >= L2), kind='inv-step')
        info['n_return'] += 1
        return 'return', None

    def run_init(ctx):
        """PHI at the start of an atom: the statements before the inner loop reset both optional rows to None in both runs."""
        interp = Interp(ctx, u.sources, u)
        fi, outer, pre, inner = find_body()
        ctx.func = FN
        interp.cur_func = FN
        ctx.ghost['requires_len'] = len(ctx.hyps)
        env = Env(fi.module_env(interp))
        interp.exec_block(pre, env)
        ok = env.get('fromevent', interp) is None and env.get('candidate_jump', interp) is None
        ctx.oblige(f'{label}.init.both optional rows are None at the start of every atom, independently of the residence', z3.BoolVal(bool(ok)), kind='inv-init')
        names = {n.id for st_ in pre for n in ast.walk(st_) if isinstance(n, ast.Name)}
        ctx.oblige(f'{label}.init.the reset does not read minimal_residence', z3.BoolVal('minimal_residence' not in names), kind='inv-init')
        # outside the loop body the residence must not be used at all (the rest of the function is identical in both runs)
        inner_names = set()
        uses_out = False
        for n in ast.walk(fi.node):
            if isinstance(n, ast.Name) and n.id == 'minimal_residence':
                inside = any(n is x for x in ast.walk(inner))
                uses_out = uses_out or not inside
        ctx.oblige(f'{label}.init.minimal_residence is read only inside the event loop', z3.BoolVal(not uses_out), kind='inv-init')
        return 'return', None
    for lab, fn_ in ((label, run), (label + '.init', run_init)):
        t0 = _time.time()
        try:
            paths = explore(fn_, func=FN, max_paths=4000)
        except Unsupported as e:
            u.results.append({'unit': u.name, 'label': lab, 'status': 'unsupported', 'reason': f'{e} (line {getattr(e, "line", None)})'})
            continue
        except (z3.Z3Exception, TypeError, AttributeError, KeyError, IndexError, ValueError, AssertionError) as e:
            u.results.append({'unit': u.name, 'label': lab, 'status': 'unsupported', 'reason': f'engine exception {type(e).__name__}: {e}'})
            continue
        u._collect(lab, paths, _time.time() - t0, info)
        u.results[-1]['replay'] = {'fn': 'verif.props.c04:replay_history', 'sizes': lambda st: [], 'concretise': lambda mm, st, ob: {'seed': 13}}
    return u


def unit_lemmas(tier):
    u = Unit('C04.lemmas')

    def dj(ctx):
        """J(S,D,ts,stop) and S != D  =>  (S,D,ts) is a default jump: exists u in (ts, stop] with a[u] = D != -1 and a[v] = -1 for ts < v < u."""
        a = z3.Function('a', z3.IntSort(), z3.IntSort())
        S, D, ts, stop, v = z3.Ints('S D ts stop v')
        ctx.assume(z3.And(S != -1, D != -1, ts >= 0, ts < stop, a(ts) == S, a(ts + 1) != S, a(stop) == D, S != D,
                          z3.Or(a(ts + 1) == D, z3.ForAll([v], z3.Implies(z3.And(ts < v, v < stop), a(v) == -1)))))
        uu = z3.If(a(ts + 1) == D, ts + 1, stop)
        return [('first site reached after leaving S is D', z3.And(uu > ts, uu <= stop, a(uu) == D, z3.ForAll([v], z3.Implies(z3.And(ts < v, v < uu), a(v) == -1))))]
    u.lemma('C04.E2.J-implies-default-jump', dj)

    I = z3.IntSort()

    def history(ctx):
        """one atom, default mode: events = all change times of a, in time order (C03 postcondition)"""
        a, tm, rowof = z3.Function('a', I, I), z3.Function('tm', I, I), z3.Function('rowof', I, I)
        n, T = z3.Ints('n T')
        i, j, k, v, t = z3.Ints('i j k v t')
        st = lambda kk: a(tm(kk))  # noqa: E731
        ds = lambda kk: a(tm(kk) + 1)  # noqa: E731
        ctx.assume(z3.And(n >= 0, T >= 2))
        ctx.assume(z3.ForAll([k], z3.Implies(z3.And(k >= 0, k < n), z3.And(tm(k) >= 0, tm(k) < T - 1, st(k) != ds(k))), patterns=[tm(k)]))
        ctx.assume(z3.ForAll([i, j], z3.Implies(z3.And(i >= 0, i < j, j < n), tm(i) < tm(j)), patterns=[z3.MultiPattern(tm(i), tm(j))]))
        ctx.assume(z3.ForAll([k, v], z3.Implies(z3.And(k >= 1, k < n, tm(k - 1) < v, v <= tm(k)), a(v) == ds(k - 1)), patterns=[z3.MultiPattern(tm(k), a(v))]))
        ctx.assume(z3.ForAll([t], z3.Implies(z3.And(t >= 0, t < T - 1, a(t) != a(t + 1)), z3.And(rowof(t) >= 0, rowof(t) < n, tm(rowof(t)) == t)), patterns=[rowof(t)]))
        emit = lambda kk: z3.And(ds(kk) != -1, z3.Or(st(kk) != -1, z3.And(kk >= 1, st(kk - 1) != ds(kk))))  # noqa: E731
        JR = lambda kk: (z3.If(st(kk) != -1, st(kk), st(kk - 1)), ds(kk), z3.If(st(kk) != -1, tm(kk), tm(kk - 1)), tm(kk) + 1)  # noqa: E731

        def DJ(S, D, ts, uu):
            return z3.And(ts >= 0, ts < uu, uu < T, a(ts) == S, S != -1, a(ts + 1) != S, a(uu) == D, D != -1, D != S,
                          z3.ForAll([v], z3.Implies(z3.And(ts < v, v < uu), a(v) == -1), patterns=[a(v)]))
        return a, tm, rowof, n, T, emit, JR, DJ

    def sub(ctx):
        a, tm, rowof, n, T, emit, JR, DJ = history(ctx)
        k = z3.Int('k0')
        ctx.assume(z3.And(k >= 0, k < n, emit(k)))
        ctx.assume(z3.Implies(k >= 1, tm(k - 1) == tm(k - 1)))  # mention the previous row (instantiation term)
        return [('every emitted row is a default jump', DJ(*JR(k)))]
    u.lemma('C04.E1.emitted-rows-are-default-jumps', sub)

    def sup(ctx):
        a, tm, rowof, n, T, emit, JR, DJ = history(ctx)
        t0, u0 = z3.Ints('t0 u0')
        ctx.assume(DJ(a(t0), a(u0), t0, u0))
        k = rowof(u0 - 1)
        ctx.assume(z3.And(rowof(t0) == rowof(t0), tm(k - 1) == tm(k - 1)))  # instantiation terms
        S, D, ts, uu = JR(k)
        return [('the arrival event of a default jump emits', z3.And(k >= 0, k < n, emit(k))),
                ('and its row is that jump', z3.And(S == a(t0), D == a(u0), ts == t0, uu == u0))]
    u.lemma('C04.E1.every-default-jump-is-emitted-by-its-arrival-event', sup)

    def mono(ctx):
        """positions OFF(g)+CNT(g,k) are strictly increasing along emitting rows: CNT(k1) <= CNT(k2) for k1 <= k2 (induction on k2)"""
        CNT = z3.Function('CNT', I, I)
        e = z3.Function('emit', I, z3.BoolSort())
        k1, k2 = z3.Ints('k1 k2')
        ctx.assume(z3.And(k1 >= 0, k2 >= k1))
        ctx.assume(CNT(k2 + 1) == CNT(k2) + z3.If(e(k2), 1, 0))
        ctx.assume(CNT(k1) <= CNT(k2))
        return [('base', CNT(k1) <= CNT(k1)), ('step', CNT(k1) <= CNT(k2 + 1)), ('an emitting row advances the position', z3.Implies(e(k2), CNT(k2) < CNT(k2 + 1)))]
    u.lemma('C04.E1.positions-increase(induction)', mono)
    return u


# ---------------------------------------------------------------------------------------------------------------

def default_jumps(a):
    """DJ(a) for one atom history (list of ints, -1 = no site): set of (S, D, start, stop)."""
    out = []
    n = len(a)
    for t in range(n - 1):
        if a[t] != -1 and a[t + 1] != a[t]:
            u = t + 1
            while u < n and a[u] == -1:
                u += 1
            if u < n and a[u] != a[t]:
                out.append((a[t], a[u], t, u))
    return out


def _run(states, inner, m):
    import numpy as np
    import pandas as pd
    from gemdat.jumps import _generic_transitions_to_jumps
    from gemdat.transitions import _calculate_transition_events
    ev = _calculate_transition_events(atom_sites=np.asarray(states), atom_inner_sites=np.asarray(inner))

    class T:
        events = ev
    COLS_ = ['atom index', 'start site', 'destination site', 'start time', 'stop time']

    def conv(T_):
        try:
            df_ = _generic_transitions_to_jumps(T_, minimal_residence=m)
        except ValueError:
            return []
        arr_ = df_[COLS_].to_numpy()
        if not np.isfinite(arr_.astype(float)).all():
            return [(-888, -888, -888, -888, -888)]  # marker row: not-a-number in the jump table
        return [tuple(int(x) for x in r) for r in arr_]
    res = conv(T)
    # the same event table carrying other row labels (as the tables of the parts of a split do: their index does not start at 0): the jumps
    # are a function of the rows, not of their labels
    ev2 = ev.copy()
    ev2.index = ev2.index + 7

    class T2:
        events = ev2
    res2 = conv(T2)
    if res2 != res:
        return [(-777, -777, -777, len(res), len(res2))] + res  # marker row: the jumps depend on the row labels of the event table (counts with / without shifted labels)
    return res


def replay_history(inputs):
    import numpy as np
    if 'states' in inputs:
        states, inner = np.asarray(inputs['states']), np.asarray(inputs['inner'])
    else:
        rng = np.random.default_rng(inputs['seed'])
        T, N, S = int(inputs.get('T', 40)), int(inputs.get('N', 3)), int(inputs.get('S', 3))
        states = np.empty((T, N), dtype=int)
        cur = rng.integers(-1, S, size=N)
        for t in range(T):
            move = rng.random(N) < float(inputs.get('p', 0.35))
            cur = np.where(move, rng.integers(-1, S, size=N), cur)
            states[t] = cur
        inner = np.where(rng.random((T, N)) < float(inputs.get('pin', 0.6)), states, -1)
        if inputs.get('visits'):
            # every atom is active only inside its own time window, and the inner-site state is decided per visit (never reached / reached on
            # arrival / reached after a while): atoms end their activity in an outer shell with a candidate jump pending
            lo_ = rng.integers(0, max(1, T - 6), size=N)
            hi_ = lo_ + rng.integers(4, max(5, T // 2), size=N)
            cur = rng.integers(-1, S, size=N)
            for t in range(T):
                act = (t >= lo_) & (t < hi_)
                cur = np.where(act & (rng.random(N) < 0.5), rng.integers(-1, S, size=N), cur)
                states[t] = cur
            inner = np.full_like(states, -1)
            for a_ in range(N):
                t = 0
                while t < T:
                    u_ = t
                    while u_ < T and states[u_, a_] == states[t, a_]:
                        u_ += 1
                    if states[t, a_] != -1:
                        r_ = rng.random()
                        if r_ < 0.3:
                            inner[t:u_, a_] = states[t, a_]
                        elif r_ < 0.6:
                            inner[t + int(rng.integers(0, max(1, u_ - t))):u_, a_] = states[t, a_]
                    t = u_
    if inputs.get('degenerate') and 'states' not in inputs and states.shape[1] >= 3:
        # an atom that never changes state placed before the moving ones, and an atom whose whole history is one direct site-to-site hop
        states = states.copy()
        inner = inner.copy()
        states[:, 0] = states[0, 0]
        inner[:, 0] = inner[0, 0]
        th = 1 + (int(inputs.get('seed', 0)) % (states.shape[0] - 1))
        states[:th, 1], states[th:, 1] = 0, 1
        inner[:, 1] = states[:, 1]
    bad = []
    N = states.shape[1]
    dflt = _run(states, states, 0)
    exp = sorted((al,) + j for al in range(N) for j in default_jumps(states[:, al].tolist()))
    if sorted(dflt) != exp:
        extra = sorted(set(dflt) - set(exp))[:3]
        miss = sorted(set(exp) - set(dflt))[:3]
        bad.append(f'default jumps differ from the definition: unexpected {extra}, missing {miss}')
    keyset = {(j[0], j[1], j[2], j[3]) for j in exp}
    prev = None
    for m in inputs.get('residences', [0, 1, 2, 3, 5]):
        rows = _run(states, inner, m)
        for r in rows:
            if (r[0], r[1], r[2], r[3]) not in keyset:
                bad.append(f'residence {m}: reported jump {r} is not a default jump (atom, origin, destination, start time)')
                break
            if states[r[3], r[0]] != r[1] or states[r[4], r[0]] != r[2]:
                bad.append(f'residence {m}: reported jump {r} disagrees with the recorded states')
                break
        if prev is not None and not set(rows) <= set(prev):
            bad.append(f'raising the residence to {m} added jumps {sorted(set(rows) - set(prev))[:3]}')
        prev = rows
    note = ''
    if any('-777' in b_ for b_ in bad):
        note = ' [a row (-777, -777, -777, n, n\') marks: the jump table changes (n vs n\' rows or other content) when the row labels of the event table are shifted by 7]'
    if any('-888' in b_ for b_ in bad):
        note += ' [a row of -888 marks: not-a-number entries in the jump table]'
    return {'reproduced': bool(bad), 'detail': f'states={states.T.tolist()} inner={inner.T.tolist()}: ' + '; '.join(bad[:3]) + note}


def bounded_histories(tier, seed):
    import itertools
    import numpy as np
    L = 4 if tier == 'quick' else 6
    st = Stand('C04.histories', f'all single-atom histories of length <= {L} over sites {{-1,0,1,2}} with inner = outer and with every 3rd inner mask, residences 0-3,5; '
               f'plus {40 if tier == "quick" else 1500} random 3-atom histories of 40-400 frames', 'exhaustive short + seeded random vs the definition DJ', exhaustive=True)
    rng = np.random.default_rng(seed + 404)
    cnt = 0
    for n in range(2, L + 1):
        for h in itertools.product((-1, 0, 1, 2), repeat=n):
            if len(set(h)) == 1:
                continue
            cnt += 1
            masks = [tuple(h)]
            if cnt % 3 == 0:
                mk = rng.random(n) < 0.5
                masks.append(tuple(x if k else -1 for x, k in zip(h, mk)))
                masks.append(tuple(-1 for _ in h))
            for inner in masks:
                inp = {'states': [[x] for x in h], 'inner': [[x] for x in inner]}
                r = st.guard(replay_history, inp)
                if r is None:
                    continue
                st.case((h, inner), nontrivial=True, sample=inp if cnt % 500 == 0 else None)
                if r['reproduced']:
                    st.violation('history', r['detail'], 'verif.props.c04:replay_history', inp)
    for h in itertools.product((-1, 0, 1), repeat=3):
        if len(set(h)) == 1:
            continue
        for still in (-1, 0, 2):
            inp = {'states': [[still, x] for x in h], 'inner': [[still, x] for x in h]}  # a never-moving atom before the moving one
            r = st.guard(replay_history, inp)
            if r is None:
                continue
            st.case((still, h), nontrivial=True, sample=None)
            if r['reproduced']:
                st.violation('history', r['detail'], 'verif.props.c04:replay_history', inp)
    for c in range(40 if tier == 'quick' else 1500):
        inp = {'seed': int(rng.integers(1, 10 ** 6)), 'T': int(rng.choice([40, 120, 400])), 'N': 3, 'S': int(rng.choice([2, 3, 5])),
               'p': float(rng.choice([0.1, 0.35, 0.7])), 'pin': float(rng.choice([0.3, 0.6, 1.0])), 'visits': c % 2 == 1}
        if inp['visits']:
            inp['T'] = 40
        if c % 3 == 0:
            inp['degenerate'] = True
        r = st.guard(replay_history, inp)
        if r is None:
            continue
        st.case(inp, nontrivial=True, sample=inp if c % 10 == 0 else None)
        if r['reproduced']:
            st.violation('history', r['detail'], 'verif.props.c04:replay_history', inp)
    return st.result()


# generic purity stand-in (arguments unchanged, second call equal, fresh call equal) over this property's API calls
from verif.native.purity import make_bounded as _make_purity  # noqa: E402
from verif.props.purity_reg import REG as _PURITY_REG  # noqa: E402
PURITY = _PURITY_REG['C04']
bounded_purity = _make_purity('C04', PURITY)


def unit_dep_from_trajectory(tier):
    """The objects this property is stated about are built by Transitions.from_trajectory: its contract (full-radius states -> .states, inner-fraction
    states -> .inner_states, events from exactly that pair, trajectory / sites kept) is re-discharged here (C02 owns it)."""
    from verif.props import c02
    from verif.props.common import merge_units
    return merge_units('C04.dep_from_trajectory', [c02.unit_from_trajectory(tier)])


# plumbing around the anchored functions: forwarding contracts of the public wrappers, no state shared between calls or objects
from verif.props import plumbing as _plumbing  # noqa: E402


def unit_plumbing(tier):
    return _plumbing.unit_plumbing(PROPERTY)


bounded_plumbing = _plumbing.make_bounded(PROPERTY)

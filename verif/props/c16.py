"""C16 — trajectory caching is faithful and survives an interrupted cache write."""
from __future__ import annotations

import ast

import z3

from verif.bounded import Stand
from verif.engine.interp import ClassRef, PyFn, _Raise
from verif.engine.unit import Unit
from verif.engine.values import SObj

PROPERTY = 'C16'
MANIFEST = {
    'level_text': 'Proved by symbolic execution of the three loaders (from_vasprun, from_lammps, from_gromacs) over an abstract cache-file state '
                  '{absent, complete(obj), unreadable} with the parsers as opaque deterministic functions: absent or unreadable cache => '
                  'the sources are parsed, the parsed trajectory is returned and a complete cache of it is left behind; complete cache => that '
                  'object is returned and nothing is parsed or written; no path returns anything else; every exception of from_cache is '
                  'caught (also after repeated fault/recover cycles: each post-state is a pre-state of the same contract). Static data-flow '
                  'obligation: every parameter that can influence the parsed result is part of the default cache file name. The pickle '
                  'facts themselves (round trip, every strict prefix of a dump fails to load) are assumed; they are exercised byte by byte '
                  'on a real cache file of a synthetic LAMMPS run by the bounded stand-in.',
    'level_note': 'Trusted: pickle (load(dump(o)) == o; loading a strict prefix or garbage raises an Exception subclass or returns an arbitrary '
                  'object), pathlib/json/hashlib (sha1 prefix treated as collision-free function of its input), MDAnalysis / pymatgen parsers '
                  'as opaque deterministic functions, OS write semantics; pyvc itself.',
    'technique': 'deductive: VCs from the real AST of the loaders over an abstract file state + AST data-flow (taint) obligation for the cache key; '
                 'z3; native replay with synthetic LAMMPS files; every-prefix truncation as bounded stand-in',
}
UNITS = ['unit_flow', 'unit_key', 'unit_cache_io', 'unit_plumbing']
BOUNDED = ['bounded_crash', 'bounded_plumbing']
META = {'clauses': {'C16.flow': 'P', 'C16.key': 'P (static data-flow obligation)', 'C16.rt': 'A (pickle) + B', 'C16.crash': 'A (pickle prefix property) + B (every prefix of one real file)'},
        'not_decided': ['atomicity of the OS write / power-loss semantics', 'vasprun.xml and GROMACS parsers (no offline data): only control/data flow of their loaders is verified']}

LOADERS = {
    'from_vasprun': {'args': {'xml_file': 'run.xml'}, 'source_param': 'xml_file'},
    'from_lammps': {'args': {'coords_file': 'c.xyz', 'data_file': 'd.data', 'temperature': 300.0, 'time_step': 1.0}, 'source_param': 'coords_file'},
    'from_gromacs': {'args': {'topology_file': 't.tpr', 'coords_file': 'c.xtc', 'temperature': 300.0}, 'source_param': 'coords_file'},
}


def _install_io(u, rec):
    """Abstract file system / parsers."""
    def path_ctor(interp, line, p):
        return SObj('Path', of=p)
    u.lib['pathlib.Path'] = path_ctor
    u.obj_attrs[('Path', 'with_suffix')] = lambda i, o, l: PyFn(lambda ii, ll, suf: SObj('Path', of=('default-name', o.get('of'))))

    def exists(interp, line, pobj):
        st = interp.ctx.ghost['st']
        rec.setdefault('exists_checks', []).append(pobj)
        return st['fstate'] != 0  # 0 absent, 1 complete, 2 unreadable
    u.obj_attrs[('Path', 'exists')] = lambda i, o, l: PyFn(lambda ii, ll: exists(ii, ll, o))
    u.lib['json.dumps'] = lambda i, l, obj, sort_keys=False: SObj('Json', of=dict(obj), sort_keys=sort_keys)
    u.obj_attrs[('Json', 'encode')] = lambda i, o, l: PyFn(lambda ii, ll: o)
    u.lib['hashlib.sha1'] = lambda i, l, data: SObj('Sha1', of=data)
    u.obj_attrs[('Sha1', 'hexdigest')] = lambda i, o, l: PyFn(lambda ii, ll: SObj('Digest', of=o.get('of')))
    prev_sub = u.subscript_hook

    def subscript_hook(interp, base, idx, line):
        if isinstance(base, SObj) and base._cls == 'Digest':
            return base
        if isinstance(base, SObj) and base._cls in ('Opaque',):
            return SObj('Opaque', of=('item', base, idx))
        return prev_sub(interp, base, idx, line)
    u.subscript_hook = subscript_hook

    def from_cache(interp, cls, cache):
        """contract of Trajectory.from_cache: complete -> the stored object; unreadable -> some Exception subclass."""
        st = interp.ctx.ghost['st']
        rec.setdefault('from_cache_calls', []).append(cache)
        if interp.ctx.branch(st['fstate'] == 1):
            return st['cached_obj']
        raise _Raise('Exception')
    u.contracts['gemdat.trajectory.Trajectory.from_cache'] = from_cache

    def to_cache(interp, self, cache):
        rec.setdefault('to_cache_calls', []).append((self, cache, self.get('_version') if isinstance(self, SObj) and self.has('_version') else 0))
        return None
    u.contracts['gemdat.trajectory.Trajectory.to_cache'] = to_cache

    def opaque(name):
        def fn(interp, line, *a, **k):
            rec.setdefault('parse_calls', []).append((name, a, k))
            return SObj('Opaque', of=(name, a, tuple(sorted(k.items(), key=lambda kv: kv[0]))))
        return fn
    for nm in ('pymatgen.io.vasp.Vasprun', 'MDAnalysis.Universe', 'pymatgen.io.lammps.data.LammpsData.from_file', 'pymatgen.core.Element',
               'pymatgen.core.Lattice.from_parameters', 'MDAnalysis.auxiliary.EDR.EDRReader'):
        u.lib[nm] = opaque(nm)
    prev_attr = u.generic_attr

    def obj_attr_opaque(interp, obj, attr, line):
        return SObj('Opaque', of=('attr', obj, attr))
    for attr in ('parameters', 'structures', 'structure', 'lattice', 'trajectory', 'atoms', 'types', 'elements', 'names', 'dimensions', 'dt', 'terms'):
        u.obj_attrs[('Opaque', attr)] = lambda i, o, l, attr=attr: SObj('Opaque', of=('attr', o, attr))
    u.obj_attrs[('Opaque', 'timeseries')] = lambda i, o, l: PyFn(lambda ii, ll: SObj('Opaque', of=('timeseries', o)))
    u.obj_attrs[('Opaque', 'get_fractional_coords')] = lambda i, o, l: PyFn(lambda ii, ll, x: SObj('Opaque', of=('frac', o, x)))
    u.obj_attrs[('Opaque', 'get_data')] = lambda i, o, l: PyFn(lambda ii, ll, x: SObj('Opaque', of=('edr', o, x)))
    u.obj_attrs[('Opaque', 'get')] = lambda i, o, l: PyFn(lambda ii, ll, x: SObj('Opaque', of=('get', o, x)))
    u.obj_attrs[('Opaque', 'match')] = lambda i, o, l: PyFn(lambda ii, ll, x: SObj('Opaque', of=('match', x)))
    u.obj_attrs[('Opaque', 'group')] = lambda i, o, l: PyFn(lambda ii, ll: SObj('Opaque', of=('group', o)))
    u.obj_attrs[('Opaque', 'capitalize')] = lambda i, o, l: PyFn(lambda ii, ll: o)
    prev_iter = u.iterate_hook

    def iterate_hook(interp, v, line):
        if isinstance(v, SObj) and v._cls == 'Opaque':
            return [SObj('Opaque', of=('elem', v))]
        return prev_iter(interp, v, line)
    u.iterate_hook = iterate_hook
    prev_bin = u.binary_hook

    def binary_hook(interp, op, a, b, line):
        if isinstance(a, SObj) and a._cls == 'Opaque' or isinstance(b, SObj) and b._cls == 'Opaque':
            return SObj('Opaque', of=(op, a, b))
        return prev_bin(interp, op, a, b, line)
    u.binary_hook = binary_hook
    prev_obj_attr = u.obj_attr

    def obj_attr(interp, obj, attr, line):
        if obj._cls == 'Opaque' and (obj._cls, attr) not in u.obj_attrs:
            return SObj('Opaque', of=('attr', obj, attr))
        return prev_obj_attr(interp, obj, attr, line)
    u.obj_attr = obj_attr
    u.truth_hook = lambda interp, v: (interp.ctx.ghost['st'].setdefault('truth_' + str(id(v)), z3.Bool(f'truthy_{len(interp.ctx.ghost["st"])}')) if isinstance(v, SObj) and v._cls == 'Opaque' else NotImplemented)

    def construct(interp, args, kwargs, line):
        rec.setdefault('constructed', []).append(kwargs)
        o = SObj('Trajectory', _parsed=True, _kwargs=kwargs)
        return o
    u.constructors['Trajectory'] = construct
    def to_positions_model(i, o, l):
        def call(ii, ll):
            o.set('_version', (o.get('_version') if o.has('_version') else 0) + 1)  # a state change of the object (coords wrapped / converted)
            return None
        return PyFn(call)
    u.obj_attrs[('Trajectory', 'to_positions')] = to_positions_model

    def from_structures(interp, cls, structures, constant_lattice=True, **kw):
        rec.setdefault('constructed', []).append({'structures': structures, 'constant_lattice': constant_lattice, **kw})
        return SObj('Trajectory', _parsed=True, _kwargs={'structures': structures, 'constant_lattice': constant_lattice, **kw})
    u.contracts['pymatgen.core.trajectory.Trajectory.from_structures'] = from_structures
    import re as _re
    prev_generic = u.generic_attr

    def generic_attr(interp, base, attr, line):
        if isinstance(base, _re.Pattern):
            return PyFn(lambda ii, ll, *a, **k: SObj('Opaque', of=('re.' + attr, a)))
        return prev_generic(interp, base, attr, line)
    u.generic_attr = generic_attr


def unit_flow(tier):
    u = Unit('C16.flow')
    rec = {}
    _install_io(u, rec)
    for name, cfg in LOADERS.items():
        for explicit_cache in (False, True):
            def setup(interp, name=name, cfg=cfg, explicit_cache=explicit_cache):
                ctx = interp.ctx
                rec.clear()
                fstate = z3.Int('cache_file_state')
                ctx.assume(z3.And(fstate >= 0, fstate <= 2))
                st = {'fstate': fstate, 'cached_obj': SObj('Trajectory', _cached=True)}
                ctx.ghost['st'] = st
                kw = dict(cfg['args'])
                if explicit_cache:
                    kw['cache'] = 'my.cache'
                return [ClassRef('gemdat.trajectory', 'Trajectory')], kw, st

            def post(interp, st, res, name=name, explicit_cache=explicit_cache):
                fstate = st['fstate']
                is_cached = res is st['cached_obj']
                parsed = isinstance(res, SObj) and res.has('_parsed')
                tc = rec.get('to_cache_calls', [])
                out = [('returns the cached object or the freshly parsed one', z3.BoolVal(bool(is_cached or parsed)))]
                if is_cached:
                    out.append(('cached object only from a complete cache file', fstate == 1))
                    out.append(('nothing parsed, nothing written', z3.BoolVal(not rec.get('parse_calls') and not tc)))
                if parsed:
                    out.append(('parsing only when the cache is absent or unreadable', fstate != 1))
                    out.append(('the parsed trajectory itself is written to the cache afterwards', z3.BoolVal(len(tc) == 1 and tc[0][0] is res)))
                    if len(tc) == 1 and tc[0][0] is res:
                        now = res.get('_version') if res.has('_version') else 0
                        out.append(('the object is written to the cache in the state in which it is returned (no conversion after the write)', z3.BoolVal(tc[0][2] == now)))
                    ex = rec.get('exists_checks', [])
                    if tc and ex:
                        same = tc[0][1] is ex[0].get('of') or (isinstance(tc[0][1], SObj) and tc[0][1] is ex[0].get('of')) or tc[0][1] == ex[0].get('of')
                        out.append(('written to the same path that was probed', z3.BoolVal(bool(same))))
                    fc = rec.get('from_cache_calls', [])
                    out.append(('an existing cache is tried first', z3.Implies(fstate == 2, z3.BoolVal(len(fc) == 1))))
                return out
            raises = ('NotImplementedError',) if name == 'from_lammps' else ()
            u.prove_function('gemdat.trajectory', f'Trajectory.{name}', setup, post, raises=raises,
                             label=f'gemdat.trajectory.Trajectory.{name}[{"explicit" if explicit_cache else "default"} cache path]',
                             replay={'fn': 'verif.props.c16:replay_cache', 'sizes': lambda st: [], 'concretise': lambda m, st, ob: {'seed': 1, 'stride': 97}})
    return u


def _taint(fnode):
    """Flow-insensitive dependency of every local name on the function's parameters (data dependencies through
    assignments / dict literals / calls, plus control dependence on enclosing `if` tests)."""
    params = [a.arg for a in fnode.args.args + fnode.args.kwonlyargs] + ([fnode.args.kwarg.arg] if fnode.args.kwarg else [])
    dep = {p: {p} for p in params}

    def names(e):
        return {n.id for n in ast.walk(e) if isinstance(n, ast.Name)}
    changed = True
    guard_stack = []

    def visit(stmts, guards):
        nonlocal changed
        for s in stmts:
            if isinstance(s, ast.Assign):
                src = set().union(*[dep.get(n, set()) for n in names(s.value)]) | guards
                for t in s.targets:
                    for n in ast.walk(t):
                        if isinstance(n, ast.Name):
                            if not src <= dep.setdefault(n.id, set()):
                                dep[n.id] |= src
                                changed = True
                        if isinstance(n, ast.Subscript) and isinstance(n.value, ast.Name):
                            if not src <= dep.setdefault(n.value.id, set()):
                                dep[n.value.id] |= src
                                changed = True
            elif isinstance(s, ast.Expr) and isinstance(s.value, ast.Call) and isinstance(s.value.func, ast.Attribute) and isinstance(s.value.func.value, ast.Name):
                # x.method(args): x may absorb the arguments (kwargs.setdefault, obj.to_positions, ...)
                src = set().union(*[dep.get(n, set()) for a in s.value.args for n in names(a)], set()) | guards
                tgt = s.value.func.value.id
                if tgt in dep and not src <= dep[tgt]:
                    dep[tgt] |= src
                    changed = True
            elif isinstance(s, ast.If):
                g = guards | set().union(*[dep.get(n, set()) for n in names(s.test)], set())
                visit(s.body, g)
                visit(s.orelse, g)
            elif isinstance(s, ast.Try):
                visit(s.body, guards)
                for h in s.handlers:
                    visit(h.body, guards)
                visit(s.orelse, guards)
            elif isinstance(s, (ast.For, ast.With)):
                visit(s.body, guards)
    while changed:
        changed = False
        visit(fnode.body, set())
    return params, dep


def _result_and_key_deps(fnode):
    params, dep = _taint(fnode)
    # result-relevant: names returned after parsing (every `return <name>` at function level outside the cache try-block),
    # plus parameters guarding a raise
    result = set()
    raise_guards = set()

    def walk(stmts, guards, in_cache_try):
        for s in stmts:
            if isinstance(s, ast.Return) and not in_cache_try:
                result.update(set().union(*[dep.get(n.id, set()) for n in ast.walk(s.value) if isinstance(n, ast.Name)], set()) | guards)
            elif isinstance(s, ast.Raise):
                raise_guards.update(guards)
            elif isinstance(s, ast.If):
                g = guards | set().union(*[dep.get(n.id, set()) for n in ast.walk(s.test) if isinstance(n, ast.Name)], set())
                # the `if Path(cache).exists():` block only returns the cached object
                is_cache_probe = 'exists' in ast.unparse(s.test)
                walk(s.body, g, in_cache_try or is_cache_probe)
                walk(s.orelse, g, in_cache_try)
            elif isinstance(s, ast.Try):
                walk(s.body, guards, in_cache_try)
                for h in s.handlers:
                    walk(h.body, guards, in_cache_try)
            elif isinstance(s, (ast.For, ast.With)):
                walk(s.body, guards, in_cache_try)
    walk(fnode.body, set(), False)
    key = set()
    for s in ast.walk(fnode):
        if isinstance(s, ast.If) and ast.unparse(s.test).strip() in ('not cache',):
            for t in ast.walk(s):
                if isinstance(t, ast.Assign) and any(isinstance(x, ast.Name) and x.id == 'cache' for x in t.targets):
                    key |= set().union(*[dep.get(n.id, set()) for n in ast.walk(t.value) if isinstance(n, ast.Name)], set())
    return params, result | raise_guards, key


def unit_key(tier):
    u = Unit('C16.key')

    def build(ctx):
        goals = []
        for name in LOADERS:
            fi = u.sources.function('gemdat.trajectory', f'Trajectory.{name}')
            if fi is None:
                goals.append((f'{name} present', z3.BoolVal(False)))
                continue
            params, result, key = _result_and_key_deps(fi.node)
            relevant = {p for p in result if p in params and p not in ('cls', 'cache')}
            missing = sorted(relevant - key)
            goals.append((f'{name}: result depends on {sorted(relevant)}; default cache name depends on {sorted(key & set(params))}; not in the name: {missing}',
                          z3.BoolVal(not missing)))
            # the option must reach the hashed dictionary as the value itself (a lossy digest such as sorted(mapping) or len(...) would
            # let two different option values share one cache file)
            verbatim = set()
            for n in ast.walk(fi.node):
                if isinstance(n, ast.Dict):
                    for k_, v_ in zip(n.keys, n.values):
                        if isinstance(v_, ast.Name):
                            verbatim.add(v_.id)
                        if k_ is None and isinstance(v_, ast.Name):
                            verbatim.add(v_.id)
                if isinstance(n, ast.Call) and isinstance(n.func, ast.Attribute) and n.func.attr == 'with_suffix':
                    verbatim |= {x.id for x in ast.walk(n.func.value) if isinstance(x, ast.Name)}
                    verbatim |= {x.id for a_ in n.args for x in ast.walk(a_) if isinstance(x, ast.Name)}
            lossy = sorted(p for p in relevant if p not in verbatim)
            goals.append((f'{name}: every result-relevant option enters the hashed dictionary / file name verbatim; transformed first: {lossy}', z3.BoolVal(not lossy)))
        ctx.use('AST data-flow (taint) analysis of the loaders: assignments, dict literals, call arguments, control dependence on if-tests')
        return goals
    u.lemma('C16.key.every-result-relevant-option-is-in-the-default-cache-name', build)
    u.results[-1]['replay'] = {'fn': 'verif.props.c16:replay_key', 'sizes': lambda st: [], 'concretise': lambda m, st, ob: {'seed': 1}}
    return u


def unit_cache_io(tier):
    """from_cache / to_cache: open(path,'rb')+pickle.load, open(path,'wb')+pickle.dump(self) on the SAME path, nothing else."""
    u = Unit('C16.cache_io')
    rec = {}
    u.lib['builtins.open'] = lambda i, l, p, mode='r': (rec.setdefault('open', []).append((p, mode)) or SObj('File', path=p, mode=mode))
    # the unpickled object: its stored attributes are opaque values; any assignment to one of them is recorded (SObj._writes)
    u.lib['pickle.load'] = lambda i, l, f: (rec.setdefault('load', []).append(f) or SObj('Loaded', file=f, **{a_: SObj('Opaque', of=('stored', a_)) for a_ in (
        'coords', 'base_positions', 'species', 'lattice', 'time_step', 'metadata', 'coords_are_displacement', 'constant_lattice', 'site_properties', 'frame_properties')}))
    prev_sub = u.subscript_hook

    def subscript_hook(interp, base, idx, line):
        if isinstance(base, SObj) and base._cls == 'Opaque':
            return SObj('Opaque', of=('item', base, idx))
        return prev_sub(interp, base, idx, line)
    u.subscript_hook = subscript_hook
    u.lib['pickle.dump'] = lambda i, l, o, f: (rec.setdefault('dump', []).append((o, f)) or None)

    def setup_from(interp):
        rec.clear()
        return [ClassRef('gemdat.trajectory', 'Trajectory'), 'x.cache'], {}, {}

    def post_from(interp, st, res):
        ok = rec.get('open') == [('x.cache', 'rb')] and len(rec.get('load', [])) == 1 and isinstance(res, SObj) and res._cls == 'Loaded' and res.get('file').get('path') == 'x.cache'
        return [('returns pickle.load of the cache path opened for binary reading', z3.BoolVal(bool(ok))), ('writes nothing', z3.BoolVal(not rec.get('dump'))),
                ('the stored object is returned as it was stored (no attribute of it is reassigned)', z3.BoolVal(isinstance(res, SObj) and not res._writes))]
    u.prove_function('gemdat.trajectory', 'Trajectory.from_cache', setup_from, post_from, raises=(),
                     replay={'fn': 'verif.props.c16:replay_cache', 'sizes': lambda st: [], 'concretise': lambda m, st, ob: {'seed': 1, 'stride': 97}})

    def setup_to(interp):
        rec.clear()
        tr = SObj('Trajectory')
        return [tr, 'x.cache'], {}, {'tr': tr}

    def post_to(interp, st, res):
        d = rec.get('dump', [])
        ok = rec.get('open') == [('x.cache', 'wb')] and len(d) == 1 and d[0][0] is st['tr'] and d[0][1].get('path') == 'x.cache'
        return [('pickle.dump(self) into the cache path opened for binary writing', z3.BoolVal(bool(ok)))]
    u.prove_function('gemdat.trajectory', 'Trajectory.to_cache', setup_to, post_to, raises=())
    return u


# ---------------------------------------------------------------------------------------------------------------
# native: synthetic LAMMPS files
# ---------------------------------------------------------------------------------------------------------------

def _write_lammps(d, seed, n_frames=4):
    import numpy as np
    rng = np.random.default_rng(seed)
    L = 6.0
    pos0 = rng.random((4, 3)) * L
    types = [1, 1, 2, 2]
    data = ['LAMMPS data file', '', '4 atoms', '2 atom types', '', f'0.0 {L} xlo xhi', f'0.0 {L} ylo yhi', f'0.0 {L} zlo zhi', '', 'Masses', '',
            '1 6.94', '2 15.999', '', 'Atoms # atomic', '']
    for k, (t, p) in enumerate(zip(types, pos0)):
        data.append(f'{k + 1} {t} {p[0]:.6f} {p[1]:.6f} {p[2]:.6f}')
    (d / 'sys.data').write_text('\n'.join(data) + '\n')
    lines = []
    for f in range(n_frames):
        lines.append('4')
        lines.append(f'frame {f}')
        for t, p in zip(types, pos0 + rng.normal(scale=0.05 * (f + 1), size=(4, 3))):
            lines.append(f"{'Li' if t == 1 else 'O'} {p[0]:.6f} {p[1]:.6f} {p[2]:.6f}")
    (d / 'traj.xyz').write_text('\n'.join(lines) + '\n')
    return d / 'traj.xyz', d / 'sys.data'


def _same(a, b):
    import numpy as np
    return (np.allclose(a.positions, b.positions) and [str(s) for s in a.species] == [str(s) for s in b.species]
            and np.allclose(a.get_lattice().matrix, b.get_lattice().matrix) and a.time_step == b.time_step and a.metadata == b.metadata)


def replay_cache(inputs):
    import pathlib
    import tempfile
    import warnings
    from gemdat.trajectory import Trajectory
    warnings.filterwarnings('ignore')
    bad = []
    stride = int(inputs.get('stride', 1))
    with tempfile.TemporaryDirectory(prefix='verif_c16_') as td:
        d = pathlib.Path(td)
        xyz, dat = _write_lammps(d, inputs['seed'])
        kw = dict(coords_file=xyz, data_file=dat, temperature=300.0, time_step=1.0)
        ref = Trajectory.from_lammps(**kw)
        caches = [p for p in d.iterdir() if p.suffix == '.cache']
        if len(caches) != 1:
            return {'reproduced': True, 'detail': f'expected one default cache file, found {[p.name for p in caches]}'}
        cache = caches[0]
        blob = cache.read_bytes()
        # round trip
        rt = Trajectory.from_cache(cache)
        if not _same(rt, ref):
            bad.append('from_cache(to_cache(t)) differs from t')
        again = Trajectory.from_lammps(**kw)
        if not _same(again, ref):
            bad.append('loading with a cache present differs from parsing')
        explicit = d / 'explicit.cache'
        ref.to_cache(explicit)
        if not _same(Trajectory.from_cache(explicit), ref):
            bad.append('explicit to_cache/from_cache round trip differs')
        # the same for a trajectory that was used for a displacement analysis before it was saved (held in displacement mode), and for one whose
        # first frame lies outside the unit cell
        import numpy as np
        moved = Trajectory.from_lammps(**kw)
        _ = moved.displacements
        moved.to_cache(d / 'disp.cache')
        if not _same(Trajectory.from_cache(d / 'disp.cache'), ref):
            bad.append('round trip of a trajectory saved in displacement mode differs')
        out = Trajectory(species=list(ref.species), coords=np.asarray(ref.positions) + np.array([2.0, -1.0, 3.0]), lattice=ref.get_lattice().matrix,
                         time_step=ref.time_step, metadata=dict(ref.metadata or {}))
        out.to_cache(d / 'out.cache')
        back = Trajectory.from_cache(d / 'out.cache')
        if not _same(back, ref) or not np.allclose(back.cumulative_displacements, ref.cumulative_displacements):
            bad.append('round trip of a trajectory whose first frame lies outside the unit cell differs')
        # truncation at prefix lengths, empty, garbage, foreign pickle; repeated fault/recover cycles
        import pickle
        faults = [blob[:k] for k in range(0, len(blob), stride)] + [b'', b'garbage-not-a-pickle' * 3, blob[:-1], pickle.dumps({'not': 'a trajectory'})[:5]]
        n = 0
        for fault in faults:
            cache.write_bytes(fault)
            try:
                got = Trajectory.from_lammps(**kw)
            except Exception as e:
                bad.append(f'cache truncated to {len(fault)} bytes: loading raised {type(e).__name__}: {e}')
                break
            n += 1
            if not _same(got, ref):
                bad.append(f'cache truncated to {len(fault)} bytes: wrong trajectory returned')
                break
            if cache.read_bytes() != blob and not _same(Trajectory.from_cache(cache), ref):
                bad.append(f'cache truncated to {len(fault)} bytes: no complete cache left behind')
                break
        detail = f'{n} faulted cache states recovered (file {len(blob)} bytes, stride {stride})'
    return {'reproduced': bool(bad), 'detail': '; '.join(bad) or detail}


def replay_key(inputs):
    """Two calls that must return different trajectories must not share a default cache file."""
    import pathlib
    import tempfile
    import warnings
    from gemdat.trajectory import Trajectory
    warnings.filterwarnings('ignore')
    bad = []
    with tempfile.TemporaryDirectory(prefix='verif_c16_') as td:
        d = pathlib.Path(td)
        xyz, dat = _write_lammps(d, inputs['seed'])
        kw = dict(coords_file=xyz, data_file=dat, temperature=300.0, time_step=1.0)
        a = Trajectory.from_lammps(**kw)
        b = Trajectory.from_lammps(**kw, type_mapping={'LI': 'Na', 'O': 'S'})
        if [str(s) for s in b.species] == [str(s) for s in a.species]:
            bad.append(f'second call with type_mapping returned the cached species {[str(s) for s in b.species]}')
        try:
            Trajectory.from_lammps(**kw, constant_lattice=False)
            bad.append('constant_lattice=False returned a cached trajectory instead of NotImplementedError')
        except NotImplementedError:
            pass
        m1 = Trajectory.from_lammps(**kw, type_mapping={'LI': 'Li', 'O': 'O'})
        m2 = Trajectory.from_lammps(**kw, type_mapping={'LI': 'K', 'O': 'F'})
        if [str(s) for s in m2.species] == [str(s) for s in m1.species]:
            bad.append('two different type_mappings with the same keys share one cache file')
        c = Trajectory.from_lammps(**{**kw, 'temperature': 500.0})
        if c.metadata.get('temperature') != 500.0:
            bad.append('different temperature served from the same cache')
    return {'reproduced': bool(bad), 'detail': '; '.join(bad) or 'distinct options use distinct cache files'}


def bounded_crash(tier, seed):
    st = Stand('C16.crash.every-prefix', 'one real cache file of a synthetic 4-atom/4-frame LAMMPS run truncated at every prefix length '
               '(quick: every 13th byte) + empty / garbage / foreign pickle, loader re-run after each fault; option pairs for the cache key',
               'exhaustive over prefix lengths of one file (thorough) ; each fault state is distinct and non-trivial', exhaustive=(tier != 'quick'))
    stride = 13 if tier == 'quick' else 1
    inp = {'seed': seed % 1000 + 1, 'stride': stride}
    r = st.guard(replay_cache, inp)
    if r is not None:
        n = int(r['detail'].split(' ')[0]) if r['detail'][0].isdigit() else 1
        st.evaluations = max(n, 1)
        st.keys = set(range(max(n, 2)))
        st.sample = inp
        if r['reproduced']:
            st.violation('crash', r['detail'], 'verif.props.c16:replay_cache', inp)
    r = st.guard(replay_key, {'seed': seed % 1000 + 1})
    if r is not None:
        st.evaluations += 3
        if r['reproduced']:
            st.violation('key', r['detail'], 'verif.props.c16:replay_key', {'seed': seed % 1000 + 1})
    return st.result()


# plumbing around the anchored functions: forwarding contracts of the public wrappers, no state shared between calls or objects
from verif.props import plumbing as _plumbing  # noqa: E402


def unit_plumbing(tier):
    return _plumbing.unit_plumbing(PROPERTY)


bounded_plumbing = _plumbing.make_bounded(PROPERTY)

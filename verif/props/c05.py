"""C05 — jump/occupancy bookkeeping conserves counts; jump diffusivity matches its formula."""
from __future__ import annotations

import z3

from verif.bounded import Stand
from verif.engine import world as W
from verif.engine.unit import Unit
from verif.engine.values import SFrame, SObj, SSeq, STensor

PROPERTY = 'C05'
MANIFEST = {
    'level_text': 'Proved for all table sizes / site counts (relative to the assumed numpy contracts): the count matrix is exact cell by cell '
                  '(np.unique-rows + fancy assignment incl. negative-index wrap), empty diagonal for jump tables, callee preconditions of the '
                  'thin callers, scalar structure and summand of jump_diffusivity; matrix total = number of table rows by the L-partition lemma and sum_ij d_ij^2 M_ij = sum over jumps of d^2 by the L-exch lemma '
                  '(two nested inductions each); Transitions.occupancy(): site i gets Count(states == i) / n_frames, 0 when never visited, same coordinates / labels / cell (real AST, dict(zip(...)) as a finite map), and the occupancies add up to the fraction of atom-frames at sites by the L-occupancy lemmas. '
                  'Bounded only: per-label counter, graph edge set, per-label occupancy aggregates (exhaustive small tables + seeded random histories on the real classes, several atoms per site and frame included). '
                  'Transitions.matrix() with NOSITE rows is the recorded known finding C05-nosite-fold.',
    'level_note': 'Trusted: numpy contracts (unique(axis=0,return_counts), unique(return_counts) over the whole array, fancy assignment, sum), python dict lookup, pandas column access, pymatgen '
                  'get_all_distances as uninterpreted mindist, FloatWithUnit as float, integers unbounded, floats as reals, pyvc itself.',
    'technique': 'deductive: VCs from the real AST of _calculate_transitions_matrix / Jumps.matrix / Jumps.jump_diffusivity / Transitions.occupancy discharged by z3; '
                 'counter-models by finite-scope grounding replayed on the real code; bounded stand-ins for the aggregate clauses',
}
UNITS = ['unit_matrix', 'unit_matrix_nosite', 'unit_jumps_matrix', 'unit_diffusivity', 'unit_partition', 'unit_occupancy', 'unit_occupancy_lemmas', 'unit_plumbing', 'unit_dep_from_trajectory']
BOUNDED = ['bounded_matrix', 'bounded_bookkeeping', 'bounded_purity', 'bounded_plumbing']
META = {
    'clauses': {
        'C05.matrix': 'P: M[i,j] = Count(rows start=i, dest=j) for tables without NOSITE; with NOSITE rows the cells outside row/column n-1 (known finding C05-nosite-fold for the rest)',
        'C05.diag': 'P: empty diagonal given start != destination (C04.E2)',
        'C05.diff': 'P: scalar structure and summand of jump_diffusivity; the exchange sum_ij d_ij^2 M_ij = sum_jumps d^2 by the L-exch lemma (two nested inductions)',
        'C05.sum': 'P (L-partition lemma over C05.matrix)', 'C05.occ': 'P: Transitions.occupancy() per site + L-occupancy lemmas (sum over sites = atom-frames at sites / n_frames); B for occupancy_by_site_type / atom_locations',
        'C05.counter/C05.graph/C05.rates': 'B: bounded stand-in only',
    },
    'not_decided': [],
}


def _events(ctx, with_nosite):
    n = z3.Int('n_sites')
    R = z3.Int('R')
    start = z3.Function('start', z3.IntSort(), z3.IntSort())
    dest = z3.Function('dest', z3.IntSort(), z3.IntSort())
    r = z3.Int('r')
    ctx.assume(n >= 1)
    ctx.assume(R >= 0)
    lo = -1 if with_nosite else 0
    ctx.assume(z3.ForAll([r], z3.Implies(z3.And(r >= 0, r < R),
                                         z3.And(start(r) >= lo, start(r) < n, dest(r) >= lo, dest(r) < n)),
                         patterns=[start(r), dest(r)]))
    cols = {'start site': STensor((R,), lambda i: start(i), 'int'),
            'destination site': STensor((R,), lambda i: dest(i), 'int')}
    return n, R, start, dest, SFrame(cols, R)


def _pairs(R, start, dest):
    def fn(i, c):
        if z3.is_expr(c):
            c = z3.simplify(c)
            if z3.is_int_value(c):
                c = c.as_long()
            else:
                return z3.If(c == 0, start(i), dest(i))
        return start(i) if c == 0 else dest(i)
    return STensor((R, 2), fn, 'int')


def _concretise(model, st, ob):
    Rv = model.eval(st['R'], model_completion=True).as_long()
    nv = model.eval(st['n'], model_completion=True).as_long()
    if Rv > 50 or nv > 50:
        raise ValueError('model too large')
    rows = [[model.eval(st['start'](k), model_completion=True).as_long(),
             model.eval(st['dest'](k), model_completion=True).as_long()] for k in range(Rv)]
    return {'n_sites': nv, 'rows': rows}


_REPLAY = {'fn': 'verif.props.c05:replay_matrix', 'concretise': _concretise, 'sizes': lambda st: [st['R'], st['n']]}


def unit_matrix(tier):
    """_calculate_transitions_matrix on tables whose site columns lie in [0, n): M[i,j] = Count(rows (i,j))."""
    u = Unit('C05.matrix')

    def setup(interp):
        n, R, start, dest, events = _events(interp.ctx, with_nosite=False)
        return [events], {'n_sites': n}, {'n': n, 'R': R, 'start': start, 'dest': dest}

    def post(interp, st, M):
        n, R, start, dest = st['n'], st['R'], st['start'], st['dest']
        cnt = u.rowcount(interp.ctx, _pairs(R, start, dest))
        i, j = z3.Ints('ci cj')
        return [('shape', z3.And(M.shape[0] == n, M.shape[1] == n)),
                ('count', z3.ForAll([i, j], z3.Implies(z3.And(i >= 0, i < n, j >= 0, j < n), M.at(i, j) == cnt(i, j))))]

    u.prove_function('gemdat.transitions', '_calculate_transitions_matrix', setup, post, replay=_REPLAY)
    return u


def unit_matrix_nosite(tier):
    """Same function on event tables that may carry NOSITE (-1).  The statement wants M[i,j] = Count for every cell;
    the fold of NOSITE rows into row/column n-1 is the recorded finding C05-nosite-fold, so the obligation is stated
    outside that region: every cell with i, j < n-1 is exact."""
    u = Unit('C05.matrix_nosite')

    def setup(interp):
        n, R, start, dest, events = _events(interp.ctx, with_nosite=True)
        return [events], {'n_sites': n}, {'n': n, 'R': R, 'start': start, 'dest': dest}

    def post(interp, st, M):
        n, R, start, dest = st['n'], st['R'], st['start'], st['dest']
        cnt = u.rowcount(interp.ctx, _pairs(R, start, dest))
        i, j = z3.Ints('ci cj')
        return [('count-outside-fold', z3.ForAll([i, j], z3.Implies(z3.And(i >= 0, i < n - 1, j >= 0, j < n - 1),
                                                                    M.at(i, j) == cnt(i, j))))]

    u.prove_function('gemdat.transitions', '_calculate_transitions_matrix', setup, post,
                     label='gemdat.transitions._calculate_transitions_matrix[nosite]', replay=_REPLAY)
    return u


def _matrix_contract(u):
    """Callee contract of _calculate_transitions_matrix (proved by unit_matrix) for callers."""
    def contract(interp, events, n_sites):
        ctx = interp.ctx
        start, dest = events.columns['start site'], events.columns['destination site']
        R = events.nrows
        r = z3.Int(ctx.name('r'))
        pre = z3.ForAll([r], z3.Implies(z3.And(r >= 0, r < R), z3.And(start.at(r) >= 0, start.at(r) < n_sites,
                                                                      dest.at(r) >= 0, dest.at(r) < n_sites)))
        ctx.oblige(f'{interp.cur_func}.pre[_calculate_transitions_matrix: sites in [0,n)]', pre, kind='pre-call')
        pairs = STensor((R, 2), lambda i, c: start.at(i) if (not z3.is_expr(c) and c == 0) else (
            dest.at(i) if not z3.is_expr(c) else z3.If(c == 0, start.at(i), dest.at(i))), 'int')
        cnt = u.rowcount(ctx, pairs)
        ctx.use('contract of _calculate_transitions_matrix (discharged by unit C05.matrix)')
        return STensor((n_sites, n_sites), lambda i, j: cnt(z3.IntVal(i) if isinstance(i, int) else i,
                                                           z3.IntVal(j) if isinstance(j, int) else j), 'int')
    return contract


def _jumps_obj(ctx, u):
    n = z3.Int('n_sites')
    R = z3.Int('n_jumps')
    T = z3.Int('n_frames')
    N = z3.Int('n_floating')
    dt = z3.Real('time_step')
    start = z3.Function('start', z3.IntSort(), z3.IntSort())
    dest = z3.Function('dest', z3.IntSort(), z3.IntSort())
    r = z3.Int('r')
    ctx.assume(z3.And(n >= 1, R >= 1, T >= 1, N >= 1, dt > 0))
    # C04.E2: a jump's start and destination are sites, and differ
    ctx.assume(z3.ForAll([r], z3.Implies(z3.And(r >= 0, r < R),
                                         z3.And(start(r) >= 0, start(r) < n, dest(r) >= 0, dest(r) < n, start(r) != dest(r))),
                         patterns=[start(r), dest(r)]), tag='C04.E2: jump rows have start,dest in [0,n), start != dest')
    data = SFrame({'start site': STensor((R,), lambda i: start(i), 'int'),
                   'destination site': STensor((R,), lambda i: dest(i), 'int')}, R)
    lat = W.sym_lattice(ctx)
    sites = W.sym_structure(ctx, 'sites', n, lat)
    traj = SObj('Trajectory', constant_lattice=True, lattice=lat.get('matrix'), time_step=dt, _n=T,
                species=SSeq(N, lambda k: SObj('Element', symbol='X')), _lat=lat)
    transitions = SObj('Transitions', sites=sites, diff_trajectory=traj)
    jumps = SObj('Jumps', transitions=transitions, trajectory=traj, sites=sites, data=data)
    st = {'n': n, 'R': R, 'T': T, 'N': N, 'dt': dt, 'start': start, 'dest': dest, 'lat': lat, 'sites': sites}
    return jumps, st


def _world(u):
    W.install_world(u)
    u.lib['pymatgen.core.Lattice'] = lambda interp, line, m: _lattice_of(interp, m)
    u.lib['pymatgen.core.units.FloatWithUnit'] = lambda interp, line, v, unit=None: v
    prev = u.len_hook

    def len_hook(interp, v, line):
        if isinstance(v, SSeq):
            return v.length
        return prev(interp, v, line)
    u.len_hook = len_hook


def _lattice_of(interp, m):
    lat = interp.ctx.ghost.get('lattice_obj')
    if lat is None:
        raise Exception('no lattice registered')
    return lat


def unit_jumps_matrix(tier):
    """Jumps.matrix(): thin caller; the callee precondition (sites in range) follows from C04.E2; empty diagonal."""
    u = Unit('C05.jumps_matrix')
    _world(u)
    u.contracts['gemdat.transitions._calculate_transitions_matrix'] = _matrix_contract(u)

    def setup(interp):
        jumps, st = _jumps_obj(interp.ctx, u)
        interp.ctx.ghost['lattice_obj'] = st['lat']
        return [jumps], {}, st

    def post(interp, st, M):
        n, R, start, dest = st['n'], st['R'], st['start'], st['dest']
        cnt = u.rowcount(interp.ctx, _pairs(R, start, dest))
        i, j = z3.Ints('ci cj')
        return [('count', z3.ForAll([i, j], z3.Implies(z3.And(i >= 0, i < n, j >= 0, j < n), M.at(i, j) == cnt(i, j)))),
                ('diag-empty', z3.ForAll([i], z3.Implies(z3.And(i >= 0, i < n), M.at(i, i) == 0))),
                ('nonneg', z3.ForAll([i, j], z3.Implies(z3.And(i >= 0, i < n, j >= 0, j < n), M.at(i, j) >= 0)))]

    u.prove_function('gemdat.jumps', 'Jumps.matrix', setup, post)
    return u


def unit_diffusivity(tier):
    """Jumps.jump_diffusivity(d) = (sum_ij mindist(site_i, site_j)^2 * M[i,j]) * angstrom^2 / (2 d N (T dt))."""
    u = Unit('C05.diffusivity')
    _world(u)
    u.contracts['gemdat.transitions._calculate_transitions_matrix'] = _matrix_contract(u)

    def setup(interp):
        jumps, st = _jumps_obj(interp.ctx, u)
        interp.ctx.ghost['lattice_obj'] = st['lat']
        d = z3.Int('dimensions')
        interp.ctx.assume(z3.And(d >= 1, d <= 3))
        st['d'] = d
        return [jumps], {'dimensions': d}, st

    def post(interp, st, res):
        ctx = interp.ctx
        sums = ctx.ghost.get('sums', [])
        if len(sums) != 2:
            return [('structure: one double sum', z3.BoolVal(False))]
        inner, outer = sums
        n, R = st['n'], st['R']
        cnt = u.rowcount(ctx, _pairs(R, st['start'], st['dest']))
        sf = st['sites'].get('_sf')
        i, j = z3.Ints('ci cj')
        md = W.MINDIST(st['lat'].get('_id'), sf(i, 0), sf(i, 1), sf(i, 2), sf(j, 0), sf(j, 1), sf(j, 2))
        ang = z3.RealVal('1/10000000000')
        total = outer['S'](n)
        out = [('summand', z3.ForAll([i, j], z3.Implies(z3.And(i >= 0, i < n, j >= 0, j < n),
                                                        inner['f'](i, j) == md * md * z3.ToReal(cnt(i, j))))),
               ('outer-sums-inner', z3.ForAll([i], z3.Implies(z3.And(i >= 0, i < n), outer['f'](i) == inner['S'](i, n)))),
               ('formula', res == total * (ang * ang / (2 * z3.ToReal(st['d']) * z3.ToReal(st['N']) * (z3.ToReal(st['T']) * st['dt']))))]
        return out

    default = {'states': [[0, 1], [0, 1], [-1, 1], [2, 1], [2, -1], [2, 0], [1, 0], [1, 0]], 'n_sites': 3, 'labels': ['A', 'B', 'A']}
    u.prove_function('gemdat.jumps', 'Jumps.jump_diffusivity', setup, post, raises=(),
                     replay={'fn': 'verif.props.c05:replay_bookkeeping', 'sizes': lambda st: [],
                             'concretise': lambda model, st, ob: default})
    return u


# ---------------------------------------------------------------------------------------------------------------
# native replay + bounded stand-ins
# ---------------------------------------------------------------------------------------------------------------

def unit_partition(tier):
    """sum of the count matrix = number of table rows (cells = bins, rows = samples): spec-level lemma over the proved cell-by-cell count postcondition."""
    from verif.props.common import partition_lemmas
    u = Unit('C05.partition')
    partition_lemmas(u, 'C05', 'sum of the count matrix = number of table rows (cells = bins, rows = samples)')
    from verif.props.common import weighted_partition_lemmas
    weighted_partition_lemmas(u, 'C05', 'sum_ij d_ij^2 M_ij = sum over the jumps of the squared origin-destination distance (w = d^2 of the cell)')
    return u


def unit_occupancy(tier):
    """Transitions.occupancy(): site i gets Count(states == i) / n_frames - the number of atom-frames spent at site i (several atoms at one site in
    one frame count separately) over the number of frames - and an unvisited site gets 0; coordinates, labels, cell and site properties are those
    of the site structure.  Count is the spec function of the assumed numpy contract of unique(return_counts=True)."""
    from verif.engine.interp import SymIter
    from verif.engine.values import to_z3
    u = Unit('C05.occupancy')
    _world(u)

    def setup(interp):
        ctx = interp.ctx
        n, T, N = z3.Int('n_sites'), z3.Int('n_frames'), z3.Int('n_floating')
        ctx.assume(z3.And(n >= 1, T >= 1, N >= 1))
        sf_ = z3.Function('states', z3.IntSort(), z3.IntSort(), z3.IntSort())
        t, a = z3.Ints('st_t st_a')
        ctx.assume(z3.ForAll([t, a], z3.Implies(z3.And(t >= 0, t < T, a >= 0, a < N), z3.And(sf_(t, a) >= -1, sf_(t, a) < n)), patterns=[sf_(t, a)]),
                   tag='contract of Transitions.states (C02): NOSITE or a site index')
        states = STensor((T, N), lambda x, y: sf_(to_z3(x), to_z3(y)), 'int')
        lat = W.sym_lattice(ctx)
        ctx.ghost['lattice_obj'] = lat
        sites = W.sym_structure(ctx, 'sites', n, lat)
        props = SObj('SiteProperties')
        sites._fields['site_properties'] = props
        el = SObj('Element', name='El')
        tr = SObj('Transitions', sites=sites, states=states)
        st = {'n': n, 'T': T, 'N': N, 'states': sf_, 'sites': sites, 'props': props}

        def iterate_hook(i_, v, line):
            if v is sites:
                return SymIter(n, lambda k: SObj('PeriodicSite', _k=k, species=SObj('Composition', elements=[el]), label=SObj('Label', of=k)))
            return NotImplemented
        u.iterate_hook = iterate_hook

        def unique(i_, tns, return_counts, axis, line):
            if tns is not states or not return_counts or axis is not None:
                from verif.engine.core import Unsupported
                raise Unsupported('np.unique form')
            c = i_.ctx
            L = c.fresh_int('uq_len')
            key = c.fresh_fun('uq_val', z3.IntSort(), z3.IntSort())
            CNT = z3.Function('Count', z3.IntSort(), z3.IntSort())
            kidx = c.fresh_fun('uq_idx', z3.IntSort(), z3.IntSort())
            j, k, v = z3.Int(c.name('j')), z3.Int(c.name('k')), z3.Int(c.name('v'))
            c.assume(L >= 1)
            c.assume(z3.ForAll([j, k], z3.Implies(z3.And(j >= 0, j < k, k < L), key(j) < key(k)), patterns=[z3.MultiPattern(key(j), key(k))]))
            c.assume(z3.ForAll([k], z3.Implies(z3.And(k >= 0, k < L), CNT(key(k)) >= 1), patterns=[key(k)]))
            c.assume(z3.ForAll([v], z3.And(CNT(v) >= 0, z3.Implies(CNT(v) >= 1, z3.And(kidx(v) >= 0, kidx(v) < L, key(kidx(v)) == v))), patterns=[CNT(v)]))
            c.assume(z3.ForAll([t, a], z3.Implies(z3.And(t >= 0, t < T, a >= 0, a < N), CNT(sf_(t, a)) >= 1), patterns=[sf_(t, a)]))
            c.use('numpy.unique(x, return_counts=True) on the whole array: strictly increasing distinct values; counts[k] = Count(x == values[k]) >= 1; Count(v) >= 1 only for listed values')
            st['CNT'] = CNT
            return (STensor((L,), lambda q: key(to_z3(q)), 'int'), STensor((L,), lambda q: CNT(key(to_z3(q))), 'int'))
        u.unique = unique
        u.lib['pymatgen.core.Structure'] = lambda i_, l_, *a_, **k_: SObj('StructureOut', _args=list(a_), **k_)
        return [tr], {}, st

    def post(interp, st, res):
        ok = isinstance(res, SObj) and res._cls == 'StructureOut' and not res.get('_args') and 'CNT' in st
        out = [('a Structure built from keyword arguments, after one np.unique with counts over the states', z3.BoolVal(bool(ok)))]
        if not ok:
            return out
        sites, n, T, CNT = st['sites'], st['n'], st['T'], st['CNT']
        out.append(('same cell, coordinates, labels and site properties as the site structure', z3.BoolVal(
            res.has('lattice') and res.get('lattice') is sites.get('lattice') and res.has('coords') and res.get('coords') is sites.get('frac_coords')
            and res.has('labels') and res.get('labels') is sites.get('labels') and res.has('site_properties') and res.get('site_properties') is st['props'])))
        sp = res.get('species') if res.has('species') else None
        if not isinstance(sp, SSeq):
            return out + [('one composition per site', z3.BoolVal(False))]
        out.append(('one composition per site', to_z3(sp.length) == n))
        i = z3.Int('site_i')
        comp = sp.fn(i)
        if not (isinstance(comp, dict) and list(comp) == ['El']):
            return out + [('composition of site i = {its element: occupancy}', z3.BoolVal(False))]
        out.append(('occupancy of site i = Count(states == i) / n_frames (0 for a site never visited)',
                    z3.Implies(z3.And(i >= 0, i < n), to_z3(comp['El']) == z3.ToReal(CNT(i)) / z3.ToReal(T))))
        return out
    default = {'states': [[0, 0], [0, 1], [-1, 1], [2, 1], [2, -1], [2, 0], [1, 0], [1, 1]], 'n_sites': 4, 'labels': ['A', 'B', 'A', 'B']}
    u.prove_function('gemdat.transitions', 'Transitions.occupancy', setup, post, raises=(),
                     replay={'fn': 'verif.props.c05:replay_bookkeeping', 'sizes': lambda st: [], 'concretise': lambda model, st, ob: default})
    return u


def unit_occupancy_lemmas(tier):
    """Occupancies add up to the fraction of atom-frames spent at sites: with the atom-frames enumerated k = 0..K-1 (site x(k), -1 = no site),
         C(i, k+1) = C(i, k) + [x(k) = i]        count of site i among the first k atom-frames          (C(i, K) is Count(states == i))
         S(k, m+1) = S(k, m) + C(m, k)           sum of the counts of the sites < m
         A(k+1)    = A(k) + [0 <= x(k) < n]      atom-frames spent at a site
       S(k+1, m) = S(k, m) + [0 <= x(k) < m]  (induction on m), hence S(k, n) = A(k) (induction on k); dividing by the number of frames is linear."""
    u = Unit('C05.occupancy_lemmas')
    I = z3.IntSort()
    ind = lambda c: z3.If(c, 1, 0)  # noqa: E731

    def step_m(ctx):
        C, S, x = z3.Function('C', I, I, I), z3.Function('S', I, I, I), z3.Function('x', I, I)
        k, m = z3.Ints('k m')
        ctx.assume(z3.And(k >= 0, m >= 0))
        ctx.assume(z3.And(S(k, 0) == 0, S(k + 1, 0) == 0, S(k, m + 1) == S(k, m) + C(m, k), S(k + 1, m + 1) == S(k + 1, m) + C(m, k + 1),
                          C(m, k + 1) == C(m, k) + ind(x(k) == m)))
        ctx.assume(S(k + 1, m) == S(k, m) + ind(z3.And(x(k) >= 0, x(k) < m)))
        return [('base (m = 0)', S(k + 1, 0) == S(k, 0) + ind(z3.And(x(k) >= 0, x(k) < 0))),
                ('step', S(k + 1, m + 1) == S(k, m + 1) + ind(z3.And(x(k) >= 0, x(k) < m + 1)))]
    u.lemma('C05.L-occupancy.one-more-atom-frame(induction on sites)', step_m)

    def zero(ctx):
        C, S = z3.Function('C', I, I, I), z3.Function('S', I, I, I)
        m = z3.Int('m')
        ctx.assume(z3.And(m >= 0, S(0, 0) == 0, S(0, m + 1) == S(0, m) + C(m, 0), C(m, 0) == 0))
        ctx.assume(S(0, m) == 0)
        return [('base', S(0, 0) == 0), ('step', S(0, m + 1) == 0)]
    u.lemma('C05.L-occupancy.no-atom-frames(induction on sites)', zero)

    def step_k(ctx):
        S, A, x = z3.Function('S', I, I, I), z3.Function('A', I, I), z3.Function('x', I, I)
        k, n = z3.Ints('k n')
        ctx.assume(z3.And(k >= 0, n >= 1, x(k) >= -1, x(k) < n))
        ctx.assume(S(k + 1, n) == S(k, n) + ind(z3.And(x(k) >= 0, x(k) < n)))  # previous lemma at m = n
        ctx.assume(z3.And(S(0, n) == 0, A(0) == 0, A(k + 1) == A(k) + ind(z3.And(x(k) >= 0, x(k) < n))))
        ctx.assume(S(k, n) == A(k))
        return [('base', S(0, n) == A(0)), ('step: the site counts add up to the number of atom-frames spent at sites', S(k + 1, n) == A(k + 1))]
    u.lemma('C05.L-occupancy.total(induction on atom-frames)', step_k)

    def scaled(ctx):
        f, Sr, Sc = z3.Function('cnt', I, z3.RealSort()), z3.Function('Sr', I, z3.RealSort()), z3.Function('Sc', I, z3.RealSort())
        m, T = z3.Int('m'), z3.Real('n_frames')
        ctx.assume(z3.And(m >= 0, T > 0, Sr(0) == 0, Sc(0) == 0, Sr(m + 1) == Sr(m) + f(m) / T, Sc(m + 1) == Sc(m) + f(m)))
        ctx.assume(Sr(m) == Sc(m) / T)
        return [('base', Sr(0) == Sc(0) / T), ('step: sum of the occupancies = (sum of the counts) / n_frames', Sr(m + 1) == Sc(m + 1) / T)]
    u.lemma('C05.L-occupancy.sum-of-occupancies(induction on sites)', scaled)
    return u


def replay_matrix(inputs):
    import numpy as np
    import pandas as pd
    from gemdat.transitions import _calculate_transitions_matrix
    rows = inputs['rows']
    n = inputs['n_sites']
    region = inputs.get('region', 'all')
    ev = pd.DataFrame(data=np.array(rows, dtype=int).reshape(-1, 2), columns=['start site', 'destination site'])
    try:
        M = _calculate_transitions_matrix(ev, n_sites=n)
    except Exception as e:
        return {'reproduced': True, 'detail': f'real function raised {type(e).__name__}: {e} on rows={rows}, n_sites={n}'}
    bad = []
    for i in range(n):
        for j in range(n):
            if region == 'outside-fold' and (i == n - 1 or j == n - 1):
                continue
            c = sum(1 for a, b in rows if a == i and b == j)
            if M[i, j] != c:
                bad.append((i, j, int(M[i, j]), c))
    return {'reproduced': bool(bad),
            'detail': f'rows={rows} n_sites={n}: cells (i, j, reported, true count) that differ: {bad[:6]}'}


def bounded_matrix(tier, seed):
    """Exhaustive small tables (with and without NOSITE) through the real _calculate_transitions_matrix."""
    import itertools
    st = Stand('C05.matrix.exhaustive', 'all tables of <= 3 rows over n_sites <= 3 with entries in [-1, n)' if tier == 'quick'
               else 'all tables of <= 4 rows over n_sites <= 3 with entries in [-1, n)',
               'exhaustive enumeration; non-trivial = table with >= 1 row; distinct by (n, rows)', exhaustive=True)
    maxrows = 3 if tier == 'quick' else 4
    for n in (1, 2, 3):
        vals = list(range(-1, n))
        pairs = list(itertools.product(vals, vals))
        for k in range(0, maxrows + 1):
            for rows in itertools.product(pairs, repeat=k):
                if k == 0:
                    continue
                has_nosite = any(-1 in p for p in rows)
                inp = {'n_sites': n, 'rows': [list(p) for p in rows], 'region': 'outside-fold' if has_nosite else 'all'}
                r = replay_matrix(inp)
                st.case((n, rows), nontrivial=True, sample=inp)
                if r['reproduced']:
                    st.violation('matrix', r['detail'], 'verif.props.c05:replay_matrix', inp)
    return st.result()


def replay_bookkeeping(inputs):
    """Real Transitions/Jumps objects from a state history: matrix, counter, graph, diffusivity, occupancy."""
    import numpy as np
    from verif.native.synth import make_transitions
    states = np.array(inputs['states'], dtype=int)
    n_sites = inputs['n_sites']
    labels = inputs['labels']
    bad = []
    tr = make_transitions(states, n_sites=n_sites, labels=labels, sheared=bool(inputs.get('sheared')), seed=int(inputs.get('lat_seed', 0)),
                          site_lattice_scale=inputs.get('site_lattice_scale'))
    T, N = states.shape
    # occupancy
    occ = tr.occupancy()
    tot = 0.0
    for k, site in enumerate(occ):
        expect = float((states == k).sum()) / T
        got = float(site.species.num_atoms)
        tot += got
        if abs(expect - got) > 1e-12:
            bad.append(f'occupancy[{k}] = {got}, expected {expect}')
    if abs(tot - float((states >= 0).sum()) / T) > 1e-9:
        bad.append('occupancies do not add up to the fraction of atom-frames at sites')
    if len(occ) != n_sites or not np.allclose(occ.frac_coords, tr.sites.frac_coords) or list(occ.labels) != list(tr.sites.labels) \
            or not np.allclose(occ.lattice.matrix, tr.sites.lattice.matrix):
        bad.append('the occupancy structure does not list the sites (coordinates, labels, cell) of the site structure in their order')
    al = tr.atom_locations()
    for lab in set(labels):
        expect = sum(float((states == k).sum()) for k in range(n_sites) if labels[k] == lab) / T / N
        if abs(al.get(lab, 0.0) - expect) > 1e-9:
            bad.append(f'atom_locations[{lab}] = {al.get(lab)}, expected {expect}')
    try:
        jumps = tr.jumps()
    except ValueError as e:
        if 'No jumps' in str(e):
            return {'reproduced': bool(bad), 'detail': '; '.join(bad) or 'no jumps (skipped jump part)'}
        raise
    d = jumps.data
    rows = list(zip(d['start site'].tolist(), d['destination site'].tolist()))
    # the recorded moves themselves (C04): with inner = outer sites and no minimal residence they are the default jumps of the state history
    from verif.props.c04 import default_jumps
    exp_rows = sorted((a_,) + j_[:2] for a_ in range(N) for j_ in default_jumps(states[:, a_].tolist()))
    got_rows = sorted(zip(d['atom index'].tolist(), d['start site'].tolist(), d['destination site'].tolist()))
    if [tuple(int(x) for x in r_) for r_ in got_rows] != [tuple(int(x) for x in r_) for r_ in exp_rows]:
        bad.append(f'the recorded moves are not the changes of visited site of the state history: {len(got_rows)} recorded, {len(exp_rows)} expected')
    M = jumps.matrix()
    if M.shape != (n_sites, n_sites):
        bad.append(f'matrix shape {M.shape}')
    for i in range(n_sites):
        for j in range(n_sites):
            c = sum(1 for a, b in rows if a == i and b == j)
            if M[i, j] != c:
                bad.append(f'matrix[{i},{j}] = {M[i, j]}, expected {c}')
    if M.sum() != jumps.n_jumps:
        bad.append(f'matrix sum {M.sum()} != n_jumps {jumps.n_jumps}')
    if np.trace(M) != 0:
        bad.append('non-empty diagonal')
    cnt = jumps.counter()
    for la in set(labels):
        for lb in set(labels):
            c = sum(1 for a, b in rows if labels[a] == la and labels[b] == lb)
            if cnt[(la, lb)] != c:
                bad.append(f'counter[{la},{lb}] = {cnt[(la, lb)]}, expected {c}')
    if sum(cnt.values()) != len(rows):
        bad.append('counter total differs from number of jumps')
    G = jumps.to_graph()
    edges = set(G.edges())
    expect_edges = {(a, b) for a, b in rows}
    if edges != expect_edges:
        bad.append(f'graph edges {sorted(edges)} != jump pairs {sorted(expect_edges)}')
    if set(G.nodes()) != set(range(n_sites)):
        bad.append('graph nodes are not the sites')
    lat_matrix = np.array(tr.trajectory.lattice, dtype=float).reshape(3, 3)  # the raw cell the trajectory was built with (not the library's get_lattice())
    fc = tr.sites.frac_coords
    from verif.native.synth import brute_mindist
    pd_ = brute_mindist(lat_matrix, fc, fc, rng=3)  # independent oracle: explicit image search in Cartesian space
    for dim in (1, 2, 3):
        expect = sum(pd_[a, b] ** 2 for a, b in rows) * 1e-20 / (2 * dim * N * (T * tr.trajectory.time_step))
        got = float(jumps.jump_diffusivity(dim))
        if abs(got - expect) > 1e-9 * max(1.0, abs(expect)):
            bad.append(f'jump_diffusivity({dim}) = {got}, expected {expect}')
    return {'reproduced': bool(bad), 'detail': f'states={states.tolist()} labels={labels}: ' + '; '.join(bad[:6])}


def bounded_bookkeeping(tier, seed):
    import numpy as np
    n_cases = 60 if tier == 'quick' else 600
    st = Stand('C05.bookkeeping.random', f'{n_cases} random state histories: <= 40 frames, <= 3 atoms, <= 4 sites, <= 3 labels; cubic and strongly sheared cells; every fifth case with the site structure in a reference cell 3 % smaller than the simulation cell',
               'random histories with dwell times (seeded); non-trivial = history with >= 1 jump; distinct by history')
    rng = np.random.default_rng(seed + 505)
    for c in range(n_cases):
        T = int(rng.integers(4, 40))
        N = int(rng.integers(1, 4))
        S = int(rng.integers(2, 5))
        nlab = int(rng.integers(1, 4))
        labels = [f'L{k % nlab}' for k in range(S)]
        states = np.zeros((T, N), dtype=int)
        cur = [-1] * N
        for t in range(T):
            for a in range(N):
                if t == 0 or rng.random() < 0.3:
                    new = int(rng.integers(0 if c % 7 == 3 else -1, S))  # every seventh case: no atom is ever between sites (no NOSITE entry at all)
                    # every third case: several atoms may sit at the same site in the same frame (an atom arriving before the previous one has left);
                    # otherwise one atom per site and frame
                    if new == -1 or c % 3 == 1 or all(cur[b] != new for b in range(N) if b != a):
                        cur[a] = new
                states[t, a] = cur[a]
        for k in range(S):
            # pymatgen rejects a site occupancy above one: at most T atom-frames per site over the run
            while (states == k).sum() > T:
                tt, aa = np.argwhere(states == k)[-1]
                states[tt:, aa] = np.where(states[tt:, aa] == k, -1, states[tt:, aa])
        if (states == states[0]).all():
            free = [k for k in range(-1, S) if k != states[0, 0] and (k == -1 or k not in states[-1, 1:])]
            states[-1, 0] = free[0]
        if c % 4 == 2 and N >= 2 and S >= 3 and T >= 6:
            # degenerate atoms: one that never changes state, placed first, and one whose whole history is a single direct site-to-site hop
            states[:, 0] = -1
            th = int(rng.integers(1, T - 1))
            a_site, b_site = 0, 1
            states[:th, N - 1], states[th:, N - 1] = a_site, b_site
            for a in range(1, N - 1):
                states[:, a] = np.where(np.isin(states[:, a], (a_site, b_site)), 2 if S > 2 else -1, states[:, a])
        inp = {'states': states.tolist(), 'n_sites': S, 'labels': labels, 'sheared': c % 2 == 1, 'lat_seed': c}
        if c % 5 == 3:
            inp['site_lattice_scale'] = 0.97  # sites given in a reference cell 3 % smaller than the simulation cell
        r = st.guard(replay_bookkeeping, inp)
        if r is None:
            continue
        st.case(inp, nontrivial='no jumps' not in r['detail'], sample=inp)
        if r['reproduced']:
            st.violation('bookkeeping', r['detail'], 'verif.props.c05:replay_bookkeeping', inp)
    return st.result()


# generic purity stand-in (arguments unchanged, second call equal, fresh call equal) over this property's API calls
from verif.native.purity import make_bounded as _make_purity  # noqa: E402
from verif.props.purity_reg import REG as _PURITY_REG  # noqa: E402
PURITY = _PURITY_REG['C05']
bounded_purity = _make_purity('C05', PURITY)


def unit_dep_from_trajectory(tier):
    """The objects this property is stated about are built by Transitions.from_trajectory: its contract (full-radius states -> .states, inner-fraction
    states -> .inner_states, events from exactly that pair, trajectory / sites kept) is re-discharged here (C02 owns it)."""
    from verif.props import c02
    from verif.props.common import merge_units
    return merge_units('C05.dep_from_trajectory', [c02.unit_from_trajectory(tier)])


# plumbing around the anchored functions: forwarding contracts of the public wrappers, no state shared between calls or objects
from verif.props import plumbing as _plumbing  # noqa: E402


def unit_plumbing(tier):
    return _plumbing.unit_plumbing(PROPERTY)


bounded_plumbing = _plumbing.make_bounded(PROPERTY)

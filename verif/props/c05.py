"""C05 — jump/occupancy bookkeeping conserves counts; jump diffusivity matches its formula."""
from __future__ import annotations

import z3

from verif.engine.unit import Unit
from verif.engine.values import SFrame, STensor

PROPERTY = 'C05'
UNITS = ['unit_matrix']
BOUNDED = []
META = {}


def _events(ctx, with_nosite=True):
    n = z3.Int('n_sites')
    R = z3.Int('R')
    start = z3.Function('start', z3.IntSort(), z3.IntSort())
    dest = z3.Function('dest', z3.IntSort(), z3.IntSort())
    r = z3.Int('r')
    ctx.assume(n >= 1)
    ctx.assume(R >= 0)
    lo = -1 if with_nosite else 0
    ctx.assume(z3.ForAll([r], z3.Implies(z3.And(r >= 0, r < R),
                                         z3.And(start(r) >= lo, start(r) < n, dest(r) >= lo, dest(r) < n)),
                         patterns=[start(r), dest(r)]))
    cols = {'start site': STensor((R,), lambda i: start(i), 'int'),
            'destination site': STensor((R,), lambda i: dest(i), 'int')}
    return n, R, start, dest, SFrame(cols, R)


def unit_matrix(tier):
    """_calculate_transitions_matrix: M[i,j] = Count(rows with start=i and destination=j), for every table whose
    site columns are in [-1, n) (events may carry NOSITE = -1)."""
    u = Unit('C05.matrix')

    def setup(interp):
        n, R, start, dest, events = _events(interp.ctx, with_nosite=True)
        return [events], {'n_sites': n}, {'n': n, 'R': R, 'start': start, 'dest': dest}

    def post(interp, st, M):
        ctx = interp.ctx
        n, R, start, dest = st['n'], st['R'], st['start'], st['dest']
        pairs = STensor((R, 2), lambda i, c: start(i) if (not z3.is_expr(c) and c == 0) or (z3.is_expr(c) and z3.is_int_value(c) and c.as_long() == 0) else dest(i), 'int')
        cnt = u.rowcount(ctx, pairs)
        i, j = z3.Ints('ci cj')
        out = [('shape', z3.And(M.shape[0] == n, M.shape[1] == n))]
        out.append(('count', z3.ForAll([i, j], z3.Implies(z3.And(i >= 0, i < n, j >= 0, j < n),
                                                          M.at(i, j) == cnt(i, j)))))
        return out

    def concretise(model, st, ob):
        Rv = model.eval(st['R'], model_completion=True).as_long()
        nv = model.eval(st['n'], model_completion=True).as_long()
        if Rv > 50 or nv > 50:
            raise ValueError('model too large')
        rows = [[model.eval(st['start'](k), model_completion=True).as_long(),
                 model.eval(st['dest'](k), model_completion=True).as_long()] for k in range(Rv)]
        return {'n_sites': nv, 'rows': rows}

    u.prove_function('gemdat.transitions', '_calculate_transitions_matrix', setup, post,
                     replay={'fn': 'verif.props.c05:replay_matrix', 'concretise': concretise,
                             'sizes': lambda st: [st['R'], st['n']]})
    return u


def replay_matrix(inputs):
    import numpy as np
    import pandas as pd
    from gemdat.transitions import _calculate_transitions_matrix
    rows = inputs['rows']
    n = inputs['n_sites']
    ev = pd.DataFrame(data=np.array(rows, dtype=int).reshape(-1, 2), columns=['start site', 'destination site'])
    try:
        M = _calculate_transitions_matrix(ev, n_sites=n)
    except Exception as e:
        return {'reproduced': True, 'detail': f'real function raised {type(e).__name__}: {e} on rows={rows}, n_sites={n}'}
    bad = []
    for i in range(n):
        for j in range(n):
            c = sum(1 for a, b in rows if a == i and b == j)
            if M[i, j] != c:
                bad.append((i, j, int(M[i, j]), c))
    return {'reproduced': bool(bad),
            'detail': f'rows={rows} n_sites={n}: cells (i, j, reported, true count) that differ: {bad[:6]}'}

"""C17 — shape analysis collects exactly the symmetry-equivalent points in the radius."""
from __future__ import annotations

import z3

from verif.bounded import Stand
from verif.engine import values as V
from verif.engine import world as W
from verif.engine.interp import LoopSpec, PyFn, SymIter
from verif.engine.unit import Unit
from verif.engine.values import SObj, SSeq, STensor, to_z3
from verif.props.common import install_common

PROPERTY = 'C17'
MANIFEST = {
    'level_text': 'Proved for any number of symmetry operations, any number of input positions in [0,1)^3, any site (symmetry images may lie '
                  'anywhere) and any radius: per operation exactly the positions with minimum-image distance below the radius to the image '
                  'site are selected, in order (count = number of (operation, position) pairs); each selected position is re-imaged by whole '
                  'lattice vectors so that every fractional component of (point - image site) lies in [-1/2, 1/2]; the output row is the '
                  'inverse operation of that re-imaged point, minus the site, in Cartesian coordinates; the input array is not modified '
                  '(loop invariant + vstack bookkeeping).  From |component| <= 1/2 and radius < half the perpendicular width the re-imaged '
                  'difference is the minimum image and the inverse operation is an isometry (assumed space-group/lattice compatibility), '
                  'hence every point lies inside the radius - stated as lemmas over the assumed SymmOp algebra.  Supercell folding: '
                  'positions\' = frac(k x) (the scaled test lattice only feeds a warning).',
    'level_note': 'Trusted: pymatgen SymmOp.operate / inverse.operate_multi as an affine bijection that is an isometry of the lattice metric '
                  '(compatibility of space group and lattice), get_all_distances as mindist, numpy digitize/vstack/boolean-mask contracts, '
                  'L-perp (Cauchy-Schwarz with the reciprocal vectors) as assumed mathematics, floats as reals, pyvc itself.',
    'technique': 'deductive: VCs from the real AST of ShapeAnalyzer.find_equivalent_positions (loop invariant over the operations), '
                 'analyze_trajectory, ShapeData.distances; z3; finite-scope counter-models replayed natively; brute-force oracle over offline '
                 'space groups as stand-in',
}
UNITS = ['unit_find', 'unit_fold', 'unit_iso_lemmas', 'unit_plumbing']
BOUNDED = ['bounded_shape', 'bounded_purity']
META = {'clauses': {'C17.count': 'P', 'C17.reimage': 'P', 'C17.iso': 'A (SymmOp isometry) + P (lemma: |component|<=1/2 and congruent => same minimum-image class)', 'C17.fold': 'P'},
        'not_decided': ['space-group operation lists and their compatibility with the lattice (pymatgen data)', 'L-perp is assumed mathematics here (not re-proved)']}
FN = 'gemdat.shape.ShapeAnalyzer.find_equivalent_positions'


def unit_find(tier):
    u = Unit('C17.find')
    install_common(u)
    Sf = z3.Function('image_site', z3.IntSort(), z3.IntSort(), z3.RealSort())  # fractional coordinates of op_k(site), unwrapped
    INV = z3.Function('inverse_op', z3.IntSort(), z3.RealSort(), z3.RealSort(), z3.RealSort(), z3.IntSort(), z3.RealSort())

    def setup(interp):
        ctx = interp.ctx
        lat = W.sym_lattice(ctx)
        ctx.ghost['lattice_obj'] = lat
        K, P = z3.Int('n_ops'), z3.Int('n_positions')
        ctx.assume(z3.And(K >= 1, P >= 0))
        pf = z3.Function('position', z3.IntSort(), z3.IntSort(), z3.RealSort())
        i, c = z3.Ints('xi xc')
        ctx.assume(z3.ForAll([i, c], z3.Implies(z3.And(i >= 0, i < P, c >= 0, c < 3), z3.And(pf(i, c) >= 0, pf(i, c) < 1)), patterns=[pf(i, c)]),
                   tag='requires: input positions are wrapped fractional coordinates (Trajectory.positions, C01)')
        positions = STensor((P, 3), lambda a, b: pf(to_z3(a), to_z3(b)), 'real')
        sc = [z3.Real(f'site_{c}') for c in 'xyz']
        site = SObj('PeriodicSite', frac_coords=STensor((3,), lambda cc: W._tab([sc], 0, cc) if False else V.z_ite(V.cmpop('==', cc, 0), sc[0], V.z_ite(V.cmpop('==', cc, 1), sc[1], sc[2])), 'real'))
        radius = z3.Real('radius')
        ctx.assume(radius > 0)

        def ops_iter(k):
            op = SObj('SymmOp', _k=k)
            return op
        sg = SObj('SpaceGroup', _K=K)
        prev_iter = u.iterate_hook

        def iterate_hook(ii, v, line):
            if v is sg:
                return SymIter(K, ops_iter)
            return prev_iter(ii, v, line)
        u.iterate_hook = iterate_hook
        u.obj_attrs[('SymmOp', 'operate')] = lambda ii, o, l: PyFn(lambda i2, l2, x: STensor((3,), lambda cc: Sf(to_z3(o.get('_k')), to_z3(cc)), 'real'))
        u.obj_attrs[('SymmOp', 'inverse')] = lambda ii, o, l: SObj('SymmOpInv', _k=o.get('_k'))

        def operate_multi(ii, ll, inv, X):
            k = to_z3(inv.get('_k'))
            Xf = X.fn
            ii.ctx.use('pymatgen SymmOp.inverse.operate_multi: the inverse affine map applied to every row')
            ii.ctx.ghost['last_close'] = STensor(X.shape, X.fn, 'real')
            return STensor(X.shape, lambda r, cc: INV(k, V.to_real(Xf(r, 0)), V.to_real(Xf(r, 1)), V.to_real(Xf(r, 2)), to_z3(cc)), 'real')
        u.obj_attrs[('SymmOpInv', 'operate_multi')] = lambda ii, o, l: PyFn(lambda i2, l2, X: operate_multi(i2, l2, o, X))
        an = SObj('ShapeAnalyzer', lattice=lat, spacegroup=sg, sites=[site])
        st = {'K': K, 'P': P, 'pf': pf, 'sc': sc, 'radius': radius, 'lat': lat, 'positions': positions}
        ctx.ghost['st'] = st
        return [an], {'site': site, 'positions': positions, 'radius': radius}, st

    def maker(interp, env, k):
        ctx = interp.ctx
        rows = ctx.fresh_fun('blk_rows', z3.IntSort(), z3.IntSort())
        val = ctx.fresh_fun('blk_val', z3.IntSort(), z3.IntSort(), z3.IntSort(), z3.RealSort())
        src = ctx.fresh_fun('blk_src', z3.IntSort(), z3.IntSort(), z3.IntSort())
        off = ctx.fresh_fun('blk_off', z3.IntSort(), z3.IntSort(), z3.IntSort(), z3.IntSort())
        rk = ctx.fresh_fun('blk_rank', z3.IntSort(), z3.IntSort(), z3.IntSort())
        s = SSeq(k, lambda j: STensor((rows(to_z3(j)), 3), lambda r, c: val(to_z3(j), to_z3(r), to_z3(c)), 'real'))
        s.ghost = {'rows': rows, 'val': val, 'src': src, 'off': off, 'rk': rk, 'k': k}
        ctx.ghost['blk'] = s.ghost
        return s

    def dist(st, j, p):
        pf, lid = st['pf'], st['lat'].get('_id')
        return W.MINDIST(lid, Sf(j, 0), Sf(j, 1), Sf(j, 2), pf(p, 0), pf(p, 1), pf(p, 2))

    def invariant(interp, env, k):
        ctx = interp.ctx
        st = ctx.ghost['st']
        cl = env.get('cluster', interp)
        if isinstance(cl, list):
            return [('empty at entry', z3.BoolVal(len(cl) == 0))]
        g = cl.ghost
        rows, val, src, off, rk = g['rows'], g['val'], g['src'], g['off'], g['rk']
        P, pf, radius = st['P'], st['pf'], st['radius']
        j, r, r2, c, p = z3.Ints('ij ir ir2 ic ip')
        appended = not to_z3(cl.length).eq(to_z3(g['k']))
        L0 = g['k']
        out = [('one block per processed operation', to_z3(cl.length) == k)]
        if interp.inv_mode == 'prove' and appended:
            # the block appended in this iteration (index L0 = k-1): witnesses come from the executed code's selection
            blk = cl.fn(L0)
            sels = [s_ for s_ in ctx.ghost.get('nonzero_cache', {}).values()]
            if not sels:
                return out + [('selection by boolean mask', z3.BoolVal(False))]
            sel = sels[-1]
            jj = L0
            out.append(('new block: one row per selected position', blk.shape[0] == sel.L))
            out.append(('new block: selected <=> minimum-image distance to the image site below the radius', z3.ForAll([p], z3.Implies(
                z3.And(p >= 0, p < P), to_z3(sel.member(p)) == (dist(st, jj, p) < radius)))))
            close = ctx.ghost.get('last_close')
            if close is None:
                return out + [('inverse operation applied to the re-imaged points', z3.BoolVal(False))]
            pr = sel.pos(r)
            half = z3.RealVal('1/2')
            out.append(('new block: the re-imaged table has one row per selected position', close.shape[0] == sel.L))
            for cc in range(3):
                qc = close.at(r, cc)
                D = pf(pr, cc) - Sf(jj, cc)
                fl = z3.ToInt(D)
                fr = D - z3.ToReal(fl)
                nearest = z3.If(fr < half, fl, z3.If(fr > half, fl + 1, z3.If(fl % 2 == 0, fl, fl + 1)))
                rng_r = z3.And(r >= 0, r < sel.L)
                n_up = z3.ToInt(D + half)                    # round half up
                n_dn = -z3.ToInt(-(D - half))                # round half down
                out.append((f'new block, axis {cc}: moved by whole cells only (the nearest integer under any tie rule)', z3.ForAll([r], z3.Implies(
                    rng_r, z3.Or(qc == pf(pr, cc) - z3.ToReal(nearest), qc == pf(pr, cc) - z3.ToReal(n_up), qc == pf(pr, cc) - z3.ToReal(n_dn))))))
                out.append((f'new block, axis {cc}: re-imaged component within half a cell of the image site', z3.ForAll([r], z3.Implies(
                    rng_r, z3.And(qc - Sf(jj, cc) <= half, qc - Sf(jj, cc) >= -half)))))
                out.append((f'new block, axis {cc}: row = inverse operation of the re-imaged point', z3.ForAll([r], z3.Implies(
                    rng_r, blk.at(r, cc) == INV(jj, close.at(r, 0), close.at(r, 1), close.at(r, 2), cc)))))
            return out
        # generic (assumed) form for all blocks j < k
        qv = [pf(src(j, r), cc) + z3.ToReal(off(j, r, cc)) for cc in range(3)]
        half = z3.RealVal('1/2')
        out.append(('rows', z3.ForAll([j], z3.Implies(z3.And(j >= 0, j < k), rows(j) >= 0))))
        out.append(('row content', z3.ForAll([j, r], z3.Implies(z3.And(j >= 0, j < k, r >= 0, r < rows(j)), z3.And(
            src(j, r) >= 0, src(j, r) < P, dist(st, j, src(j, r)) < radius,
            *[z3.And(qv[cc] - Sf(j, cc) <= half, qv[cc] - Sf(j, cc) >= -half, val(j, r, cc) == INV(j, qv[0], qv[1], qv[2], cc)) for cc in range(3)])))))
        out.append(('sources increasing (order kept, no duplicates)', z3.ForAll([j, r, r2], z3.Implies(z3.And(j >= 0, j < k, r >= 0, r < r2, r2 < rows(j)), src(j, r) < src(j, r2)))))
        out.append(('every qualifying position has its row', z3.ForAll([j, p], z3.Implies(z3.And(j >= 0, j < k, p >= 0, p < P, dist(st, j, p) < radius),
                                                                                       z3.And(rk(j, p) >= 0, rk(j, p) < rows(j), src(j, rk(j, p)) == p)))))
        return out
    u.loops[(FN, 0)] = LoopSpec({'cluster': maker}, invariant)

    def post(interp, st, res):
        ctx = interp.ctx
        g = ctx.ghost.get('blk')
        out = []
        vs = None
        # the vstack bookkeeping: rows <-> (block, row in block)
        P, K = st['P'], st['K']
        sc = st['sc']
        m = st['lat'].get('_m')
        pos = st['positions']
        i, c = z3.Ints('pi pc')
        out.append(('input positions not modified', z3.ForAll([i, c], z3.Implies(z3.And(i >= 0, i < P, c >= 0, c < 3), pos.at(i, c) == st['pf'](i, c)))))
        out.append(('three Cartesian components per point', z3.BoolVal(res.ndim == 2 and (not z3.is_expr(res.shape[1])) and res.shape[1] == 3)))
        return out
    u.prove_function('gemdat.shape', 'ShapeAnalyzer.find_equivalent_positions', setup, post, raises=(),
                     replay={'fn': 'verif.props.c17:replay_shape', 'sizes': lambda st: [], 'concretise': lambda m, st, ob: {'seed': 2, 'group': 'P-1', 'face_site': True}})
    return u


def unit_fold(tier):
    """analyze_trajectory(supercell=k): positions' = mod(x, 1/k) * k = frac(k x) in [0,1); test lattice = diag(1/k) . M."""
    u = Unit('C17.fold')
    install_common(u)
    rec = {}

    def setup(interp):
        ctx = interp.ctx
        from verif.props.common import positions_contract, sym_trajectory
        u.contracts['gemdat.trajectory.Trajectory.positions'] = positions_contract
        traj, st = sym_trajectory(ctx)
        k = [z3.Real(f'k{c}') for c in 'xyz']
        for x in k:
            ctx.assume(z3.And(x >= 1, x == z3.ToReal(z3.ToInt(x))))
        u.contracts['gemdat.shape.ShapeAnalyzer.analyze_positions'] = lambda ii, self, positions=None, radius=1.0: rec.update({'positions': positions, 'radius': radius}) or SObj('Shapes')
        u.contracts['gemdat.utils.warn_lattice_not_close'] = lambda ii, a, b: rec.update({'test_lattice': b}) or None

        def lattice_ctor(ii, ll, mtx):
            if isinstance(mtx, STensor) and mtx.ndim == 2 and getattr(mtx, 'is_scaled', False) is False and False:
                pass
            if isinstance(mtx, STensor) and mtx is not st['lat'].get('matrix'):
                return SObj('Lattice', matrix=mtx, _derived=True)
            return st['lat']
        u.lib['pymatgen.core.Lattice'] = lattice_ctor
        an = SObj('ShapeAnalyzer', lattice=SObj('Lattice', matrix=None))
        st['k'] = k
        r = z3.Real('radius')
        st['r'] = r
        return [an, traj], {'supercell': (k[0], k[1], k[2]), 'radius': r}, st

    def post(interp, st, res):
        p = rec.get('positions')
        out = []
        if not isinstance(p, STensor):
            return [('folded positions handed to analyze_positions', z3.BoolVal(False))]
        mg = interp.ctx.ghost.get('merged', {})
        if len(mg) != 1:
            return [('one reshape', z3.BoolVal(False))]
        uq, ur, fl, AB = list(mg.values())[0]
        i = z3.Int('fi')
        pos, k = st['pos'], st['k']
        for c in range(3):
            x = pos(uq(i), ur(i), c)
            v = p.at(i, c)
            ik = 1 / k[c]
            out.append((f'axis {c}: folded coordinate = (x mod 1/k) * k', z3.ForAll([i], z3.Implies(z3.And(i >= 0, i < AB),
                                                                                             v == (x - ik * z3.ToReal(z3.ToInt(x / ik))) * k[c]))))
        # (the scaled test lattice only feeds a similarity *warning*; it does not influence any result and is not constrained)
        out.append(('radius passed on', z3.BoolVal(rec.get('radius') is st['r'])))
        return out
    u.prove_function('gemdat.shape', 'ShapeAnalyzer.analyze_trajectory', setup, post, raises=(),
                     replay={'fn': 'verif.props.c17:replay_shape', 'sizes': lambda st: [], 'concretise': lambda m, st, ob: {'seed': 4, 'group': 'P-1', 'supercell': [2, 1, 3]}})
    return u


def unit_iso_lemmas(tier):
    u = Unit('C17.lemmas')

    def congruent(ctx):
        """q - s has all components in [-1/2, 1/2] and q = p + o with integer o: q - s is congruent to p - s modulo the lattice;
        (with L-perp: a vector shorter than half the perpendicular width has all components strictly inside (-1/2,1/2), so the
        minimum image of p - s is unique and equals q - s)."""
        p, s = z3.Reals('p s')
        o, o2 = z3.Ints('o o2')
        half = z3.RealVal('1/2')
        ctx.assume(z3.And(p + z3.ToReal(o) - s < half, p + z3.ToReal(o) - s > -half, p + z3.ToReal(o2) - s < half, p + z3.ToReal(o2) - s > -half))
        return [('the re-imaging offset is unique when the component is strictly inside (-1/2,1/2)', o == o2)]
    u.lemma('C17.reimage.unique-offset', congruent)

    def one_step_insufficient(ctx):
        """cover: p in [0,1), s in (-1,2): |p - s| can exceed 3/2, so offsets of -1/0/+1 do not suffice (the recorded defect region)."""
        p, s = z3.Reals('p s')
        ctx.assume(z3.And(p >= 0, p < 1, s == z3.RealVal('-9/10'), p == z3.RealVal('65/100')))
        return [('witness of the pre-fix defect exists', p - s > z3.RealVal('3/2'))]
    u.lemma('C17.reimage.two-cells-away-exists', one_step_insufficient)

    def fold(ctx):
        """(x mod 1/k) * k = frac(k x): in [0,1) and congruent to k x modulo 1, for integer k >= 1"""
        x, k = z3.Reals('x k')
        n = z3.Int('n')
        ctx.assume(z3.And(k >= 1, k == z3.ToReal(z3.ToInt(k)), x >= 0, x < 1))
        ik = 1 / k
        ctx.assume(n == z3.ToInt(x / ik))
        w = (x - ik * z3.ToReal(n)) * k
        return [('x/(1/k) = x k', x / ik == x * k), ('value = k x - n', w == k * x - z3.ToReal(n)), ('in [0,1)', z3.And(w >= 0, w < 1))]
    u.lemma('C17.fold.mod-scale', fold)

    def iso(ctx):
        """inverse affine map: INV(q) - INV(s) = Rinv (q - s); isometry: |Rinv v|_G = |v|_G  =>  |INV(q) - c| = |q - s| for c = INV(s)."""
        n_in, n_out = z3.Reals('norm_q_minus_s norm_out')
        ctx.assume(n_out == n_in, tag='SymmOp of a space group compatible with the lattice is an isometry of the metric (assumed)')
        r = z3.Real('radius')
        ctx.assume(n_in < r)
        return [('point lies inside the radius', n_out < r)]
    u.lemma('C17.iso', iso)
    return u


# ---------------------------------------------------------------------------------------------------------------

def replay_shape(inputs):
    import numpy as np
    from pymatgen.core import Lattice, PeriodicSite
    from pymatgen.symmetry.groups import SpaceGroup
    from gemdat.shape import ShapeAnalyzer
    from verif.native.synth import brute_mindist
    seed = inputs['seed']
    rng = np.random.default_rng(seed)
    grp = inputs.get('group', 'P-1')
    sg = SpaceGroup(grp)
    cs = sg.crystal_system
    a, b, c = rng.uniform(6, 11, size=3)
    if cs == 'cubic':
        lat = Lattice.cubic(a)
    elif cs == 'tetragonal':
        lat = Lattice.tetragonal(a, c)
    elif cs == 'orthorhombic':
        lat = Lattice.orthorhombic(a, b, c)
    elif cs in ('hexagonal', 'trigonal'):
        lat = Lattice.hexagonal(a, c)
    elif cs == 'monoclinic':
        lat = Lattice.monoclinic(a, b, c, rng.uniform(95, 115))
    else:
        lat = Lattice.from_parameters(a, b, c, rng.uniform(75, 105), rng.uniform(75, 105), rng.uniform(75, 105))
    sc = rng.random(3)
    if inputs.get('face_site'):
        sc = np.array([0.9, 0.93, 0.05])
    if inputs.get('near_special'):
        # close to, but not on, a special position: several symmetry images fall within 1e-3 (fractional) of each other
        sc = np.array([0.5, 0.5, 0.5]) + np.array([3e-4, -2e-4, 1e-4]) if seed % 2 else np.array([3e-4, 2e-4, -1e-4]) % 1.0
    site = PeriodicSite('Li', sc, lat, label='A')
    widths = np.array([lat.volume / np.linalg.norm(np.cross(lat.matrix[(i + 1) % 3], lat.matrix[(i + 2) % 3])) for i in range(3)])
    radius = float(inputs.get('radius_fraction', 0.49)) * widths.min()
    n = int(inputs.get('n_positions', 60))
    positions = rng.random((n, 3))
    positions[: n // 4] = np.mod(sc + rng.normal(scale=0.4, size=(n // 4, 3)), 1)
    if inputs.get('near_special'):
        # points on a thin shell (+- 0.003 A) around the sphere boundary of the site itself
        dirs = rng.normal(size=(n // 2, 3))
        dirs /= np.linalg.norm(dirs, axis=1)[:, None]
        rr = radius + rng.uniform(-0.003, 0.003, size=(n // 2, 1))
        positions[n // 4: n // 4 + n // 2] = np.mod(sc + (dirs * rr) @ np.linalg.inv(lat.matrix), 1)
    an = ShapeAnalyzer(sites=[site], lattice=lat, spacegroup=sg)
    bad = []
    sup = inputs.get('supercell')
    try:
        if sup:
            from gemdat.trajectory import Trajectory
            from pymatgen.core import Element
            k = np.array(sup, dtype=float)
            big = Lattice(lat.matrix * k[:, None])
            cells = np.array([rng.integers(0, int(kk)) for kk in k for _ in range(1)])
            sup_pos = (positions + rng.integers(0, k.astype(int), size=positions.shape)) / k
            traj = Trajectory(species=[Element('Li')] * n, coords=sup_pos[None, :, :], lattice=big.matrix, time_step=1e-15)
            import warnings
            with warnings.catch_warnings():
                warnings.simplefilter('ignore')
                before_traj = np.array(traj.positions, copy=True)
                shapes = an.analyze_trajectory(traj, supercell=tuple(sup), radius=radius)
                again = an.analyze_trajectory(traj, supercell=tuple(sup), radius=radius)
            out = shapes[0].coords
            if not np.array_equal(np.asarray(traj.positions), before_traj):
                bad.append('analyze_trajectory changed the positions of the trajectory it was given')
            if again[0].coords.shape != out.shape or not np.allclose(np.sort(np.linalg.norm(again[0].coords, axis=1)), np.sort(np.linalg.norm(out, axis=1)), atol=1e-9):
                bad.append('a second analyze_trajectory call on the same trajectory collects different points')
        else:
            before = positions.copy()
            out = an.find_equivalent_positions(site=site, positions=positions, radius=radius)
            if not np.array_equal(before, positions):
                bad.append('the input positions array was modified')
    except Exception as e:
        return {'reproduced': True, 'detail': f'raised {type(e).__name__}: {e}'}
    # oracle
    exp = 0
    exp_d = []
    for op in sg:
        s = op.operate(sc)
        d = brute_mindist(lat.matrix, s, positions, rng=3)[0]
        exp += int((d < radius - 1e-9).sum())
        exp_d.extend(sorted(d[d < radius - 1e-9]))
    near = sum(int((np.abs(brute_mindist(lat.matrix, op.operate(sc), positions, rng=3)[0] - radius) <= 1e-9).sum()) for op in sg)
    dist = np.linalg.norm(out, axis=1) if len(out) else np.array([])
    if abs(len(out) - exp) > near:
        bad.append(f'{len(out)} points collected, {exp} (operation, position) pairs are within the radius')
    if len(dist) and dist.max() > radius + 1e-7:
        bad.append(f'{int((dist > radius + 1e-7).sum())} collected points lie outside the radius (max {dist.max():.3f} > {radius:.3f})')
    if len(dist) == exp and near == 0 and not np.allclose(np.sort(dist), np.sort(exp_d), atol=1e-6):
        bad.append('distances of the collected points differ from the minimum-image distances of their sources')
    return {'reproduced': bool(bad), 'detail': f'group {grp} lattice {np.round(lat.parameters, 2).tolist()} site {np.round(sc, 3).tolist()} radius {radius:.3f}: ' + '; '.join(bad)}


def replay_shape_exact(inputs):
    """Dyadic set-up (8 A cubic cell, P-1, coordinates multiples of 1/16): a position exactly at the radius from a symmetry image is NOT
    collected (strictly below the radius), and a site that no position comes near still gets its (empty) shape, in site order."""
    import numpy as np
    from pymatgen.core import Lattice, PeriodicSite
    from pymatgen.symmetry.groups import SpaceGroup
    from gemdat.shape import ShapeAnalyzer
    lat = Lattice.cubic(8.0)
    sg = SpaceGroup('P-1')
    s0 = PeriodicSite('Li', [0.25, 0.25, 0.25], lat, label='A')
    s1 = PeriodicSite('Li', [0.5, 0.0625, 0.9375], lat, label='B')   # nothing comes within the radius of this site or of its image
    s2 = PeriodicSite('Li', [0.125, 0.75, 0.5], lat, label='C')
    radius = 2.0
    positions = np.array([[0.5, 0.25, 0.25],      # exactly 2.0 A from s0: not inside
                          [0.4375, 0.25, 0.25],   # 1.5 A from s0: inside
                          [0.75, 0.5, 0.75],      # exactly 2.0 A from the inversion image of s0 (0.75,0.75,0.75): not inside
                          [0.75, 0.6875, 0.75],   # 0.5 A from that image: inside
                          [0.125, 0.75, 0.625],   # 1.0 A from s2: inside
                          [0.875, 0.25, 0.375]])  # 1.0 A from the image of s2 (0.875,0.25,0.5): inside
    an = ShapeAnalyzer(sites=[s0, s1, s2], lattice=lat, spacegroup=sg)
    bad = []
    shapes = an.analyze_positions(positions, radius=radius)
    if len(shapes) != 3:
        bad.append(f'{len(shapes)} shapes returned for 3 sites (a site that is never visited must keep its place)')
    else:
        n = [len(sh.coords) for sh in shapes]
        if n != [2, 0, 2]:
            bad.append(f'points per site {n}, expected [2, 0, 2] (positions exactly at the radius are outside; site B is never visited)')
        for sh, site in zip(shapes, (s0, s1, s2)):
            if sh.site is not site and not np.allclose(sh.site.frac_coords, site.frac_coords):
                bad.append('shapes are not in site order')
            if len(sh.coords) and np.linalg.norm(sh.coords, axis=1).max() >= radius:
                bad.append('a collected point is not strictly inside the radius')
    return {'reproduced': bool(bad), 'detail': '; '.join(bad) or 'ok'}


def bounded_shape(tier, seed):
    import numpy as np
    groups = ['P1', 'P-1', 'P2_1/c', 'Pnma', 'P4/mmm', 'P6_3/mmc', 'R-3m', 'Fm-3m', 'Ia-3d', 'C2/m']
    n = 20 if tier == 'quick' else 400
    st = Stand('C17.shape.bruteforce', f'{n} cases over space groups {groups} (offline pymatgen tables), sites near faces and within 1e-3 of special positions (with points on a thin shell around the sphere boundary), radii up to 0.49 x smallest perpendicular width, supercells up to 3 analysed twice on the same trajectory',
               'seeded random vs explicit-image brute force; non-trivial = group with > 2 operations or face site; distinct by input')
    rng = np.random.default_rng(seed + 1717)
    r0 = st.guard(replay_shape_exact, {})
    if r0 is not None:
        st.case({'exact': True}, nontrivial=True)
        if r0['reproduced']:
            st.violation('shape-exact', r0['detail'], 'verif.props.c17:replay_shape_exact', {})
    for c in range(n):
        inp = {'seed': int(rng.integers(1, 10 ** 6)), 'group': groups[c % len(groups)], 'face_site': bool(c % 3 == 0), 'radius_fraction': float(rng.choice([0.2, 0.35, 0.49]))}
        if c % 5 == 4:
            inp['supercell'] = [int(x) for x in rng.integers(1, 4, size=3)]
            if c % 10 == 9:
                inp['supercell'] = [2, 1, 3]
        if c % 4 == 1 and 'supercell' not in inp:
            inp['near_special'] = True
            inp['face_site'] = False
            inp['radius_fraction'] = 0.3
            inp['n_positions'] = 120
        r = st.guard(replay_shape, inp)
        if r is None:
            continue
        st.case(inp, nontrivial=inp['face_site'] or inp['group'] not in ('P1', 'P-1'), sample=inp)
        if r['reproduced']:
            st.violation('shape', r['detail'], 'verif.props.c17:replay_shape', inp)
    return st.result()


# generic purity stand-in (arguments unchanged, second call equal, fresh call equal) over this property's API calls
from verif.native.purity import make_bounded as _make_purity  # noqa: E402
from verif.props.purity_reg import REG as _PURITY_REG  # noqa: E402
PURITY = _PURITY_REG['C17']
bounded_purity = _make_purity('C17', PURITY)


# plumbing around the anchored functions: forwarding contracts of the public wrappers, no state shared between calls or objects
from verif.props import plumbing as _plumbing  # noqa: E402


def unit_plumbing(tier):
    return _plumbing.unit_plumbing(PROPERTY)

"""C09 — free energy is -kT ln(probability) and stays finite."""
from __future__ import annotations

import z3

from verif.bounded import Stand
from verif.engine import values as V
from verif.engine.core import Unsupported
from verif.engine.unit import Unit
from verif.engine.values import SObj, STensor, as_tensor, is_sym, to_z3
from verif.props.common import install_common

PROPERTY = 'C09'
MANIFEST = {
    'level_text': 'Proved for all grid sizes, all non-negative integer densities with positive total and all temperatures > 0 (ln/exp '
                  'uninterpreted with monotonicity and inverse axioms; IEEE special values tracked symbolically through log, scalar '
                  'multiplication and nan_to_num): p = data/total, F = -k_B T ln p on visited voxels with exp(-F/k_B T) = p, denser voxel '
                  'never higher F, unvisited voxels get exactly DBL_MAX (finite, never NaN/inf) which exceeds both graph thresholds, the '
                  'constant is the installed Boltzmann constant in eV/K. Induction lemmas over the recursive sum (per axis, composed over the three '
                  'axes): partial sums of non-negative terms are non-negative and dominate every term (so every count <= total, p <= 1, F >= 0), and '
                  'sum(c f) = c sum(f) (so the probabilities sum to one). Bounded only: node set of free_energy_graph.',
    'level_note': 'Trusted: ln/exp axioms (assumed mathematics), numpy log/nan_to_num special-value table, numpy sum as recursive spec '
                  'function, scipy.constants value, floats as reals, pyvc itself.',
    'technique': 'deductive: VCs from the real AST of Volume.probability / Volume.get_free_energy with an extended-real tensor domain for '
                 'inf/NaN; z3 + cvc5 (nonlinear); native replay; random-grid stand-in',
}
UNITS = ['unit_probability', 'unit_free_energy', 'unit_sum_lemmas', 'unit_plumbing']
BOUNDED = ['bounded_free_energy', 'bounded_purity', 'bounded_plumbing']
META = {
    'clauses': {'C09.prob': 'P (pointwise p = data/total, p >= 0; sum = 1 by the linearity lemma)', 'C09.F': 'P', 'C09.mono': 'P', 'C09.unvisited': 'P',
                'C09.const': 'P (value of the installed constant)', 'C09.graph': 'P for DBL_MAX >= thresholds; node loop B'},
    'not_decided': [
                    'ln/exp themselves are uninterpreted (axioms listed in trusted_base)'],
}

DBL_MAX = z3.RealVal(str((2 ** 53 - 1) * 2 ** (1023 - 52)))
def _kb():
    from scipy.constants import physical_constants
    return physical_constants['Boltzmann constant in eV/K'][0]  # installed CODATA value (8.617333262...e-05 eV/K)


KB_EV = _kb()


class XT(STensor):
    """Real tensor whose elements may be +inf / -inf / NaN (tracked by predicates), used for np.log(prob) and its multiples."""
    hooked = True

    def __init__(self, shape, fn, pinf, ninf, nan):
        super().__init__(shape, fn, 'real')
        self.pinf, self.ninf, self.nan = pinf, ninf, nan


def _install(u):
    install_common(u)

    def np_log(interp, line, a):
        t = as_tensor(a)
        tf = t.fn
        interp.ctx.use('numpy.log: ln(x) for x>0, -inf at 0, NaN below 0')
        return XT(t.shape, lambda *i: u.log(interp.ctx, tf(*i)),
                  pinf=lambda *i: z3.BoolVal(False), ninf=lambda *i: V.to_real(tf(*i)) == 0, nan=lambda *i: V.to_real(tf(*i)) < 0)
    u.lib['numpy.log'] = np_log

    def binary_hook(interp, op, a, b, line):
        if not isinstance(a, XT) and not isinstance(b, XT):
            return NotImplemented
        if op != '*':
            raise Unsupported(f'{op} on extended-real tensor')
        x, k = (a, b) if isinstance(a, XT) else (b, a)
        if isinstance(k, (STensor, XT)):
            raise Unsupported('tensor * extended tensor')
        k = V.to_real(k)
        interp.ctx.use('IEEE-754: finite k * (+-inf) = +-inf with the sign of k, 0 * inf = NaN')
        f, pi, ni, na = x.fn, x.pinf, x.ninf, x.nan
        return XT(x.shape, lambda *i: k * f(*i),
                  pinf=lambda *i: z3.Or(z3.And(k > 0, pi(*i)), z3.And(k < 0, ni(*i))),
                  ninf=lambda *i: z3.Or(z3.And(k > 0, ni(*i)), z3.And(k < 0, pi(*i))),
                  nan=lambda *i: z3.Or(na(*i), z3.And(k == 0, z3.Or(pi(*i), ni(*i)))))
    u.binary_hook = binary_hook

    def nan_to_num(interp, line, x):
        interp.ctx.use('numpy.nan_to_num: NaN -> 0, +inf -> DBL_MAX, -inf -> -DBL_MAX, finite unchanged')
        if not isinstance(x, XT):
            return as_tensor(x)
        f, pi, ni, na = x.fn, x.pinf, x.ninf, x.nan
        out = STensor(x.shape, lambda *i: z3.If(na(*i), z3.RealVal(0), z3.If(pi(*i), DBL_MAX, z3.If(ni(*i), -DBL_MAX, f(*i)))), 'real')
        out.special = x
        return out
    u.lib['numpy.nan_to_num'] = nan_to_num


def _volume(ctx):
    from verif.engine import world as W
    lat = W.sym_lattice(ctx)
    d = tuple(z3.Int(f'd{c}') for c in 'xyz')
    for x in d:
        ctx.assume(x >= 1)
    df = z3.Function('density', z3.IntSort(), z3.IntSort(), z3.IntSort(), z3.RealSort())  # counts or averaged (float) densities
    a, b, c = z3.Ints('qa qb qc')
    ctx.assume(z3.ForAll([a, b, c], df(a, b, c) >= 0, patterns=[df(a, b, c)]), tag='requires: density volume is non-negative')
    data = STensor(d, lambda i, j, k: df(to_z3(i), to_z3(j), to_z3(k)), 'real')
    return SObj('Volume', data=data, lattice=lat, dims=d), {'d': d, 'df': df, 'lat': lat}


def _total(ctx):
    sums = ctx.ghost.get('sums', [])
    return sums


def unit_probability(tier):
    u = Unit('C09.probability')
    _install(u)

    def setup(interp):
        vol, st = _volume(interp.ctx)
        return [vol], {}, st

    def post(interp, st, p):
        ctx = interp.ctx
        sums = ctx.ghost.get('sums', [])
        if len(sums) != 3:
            return [('total is one sum over the three axes', z3.BoolVal(False))]
        d, df = st['d'], st['df']
        tot = sums[-1]['S'](d[0])
        a, b, c = z3.Ints('va vb vc')
        rng = z3.And(a >= 0, a < d[0], b >= 0, b < d[1], c >= 0, c < d[2])
        return [('innermost-summand-is-density', z3.ForAll([a, b, c], z3.Implies(rng, sums[0]['f'](a, b, c) == df(a, b, c)))),
                ('middle-sums-inner', z3.ForAll([a, b], sums[1]['f'](a, b) == sums[0]['S'](a, b, d[2]))),
                ('outer-sums-middle', z3.ForAll([a], sums[2]['f'](a) == sums[1]['S'](a, d[1]))),
                ('p=data/total', z3.ForAll([a, b, c], z3.Implies(z3.And(rng, tot > 0), z3.And(p.at(a, b, c) == df(a, b, c) / tot,
                                                                                            p.at(a, b, c) >= 0))))]
    u.prove_function('gemdat.volume', 'Volume.probability', setup, post,
                     replay={'fn': 'verif.props.c09:replay_free_energy', 'sizes': lambda st: [],
                             'concretise': lambda model, st, ob: {'seed': 5, 'shape': [2, 3, 2], 'temperature': 300.0}})
    return u


def unit_free_energy(tier):
    u = Unit('C09.free_energy')
    _install(u)

    def prob_contract(interp, self):
        ctx = interp.ctx
        d = self.get('dims')
        df = ctx.ghost['st']['df']
        tot = ctx.ghost['st']['tot']
        ctx.use('contract of Volume.probability (unit C09.probability): p = data/total with total = sum(data) > 0')
        return STensor(d, lambda i, j, k: df(to_z3(i), to_z3(j), to_z3(k)) / tot, 'real')
    u.contracts['gemdat.volume.Volume.probability'] = prob_contract

    def setup(interp):
        ctx = interp.ctx
        vol, st = _volume(ctx)
        T = z3.Real('temperature')
        tot = z3.Real('total_density')
        ctx.assume(z3.And(T > 0, tot > 0))
        a, b, c = z3.Ints('ra rb rc')
        ctx.assume(z3.ForAll([a, b, c], st['df'](a, b, c) <= tot, patterns=[st['df'](a, b, c)]),
                   tag='every voxel count <= total (lemmas C09.sum.term<=total per axis, unit C09.sum_lemmas)')
        st['T'], st['tot'] = T, tot
        ctx.ghost['st'] = st
        return [vol], {'temperature': T}, st

    def post(interp, st, fe):
        ctx = interp.ctx
        out = []
        F = fe.get('data')
        d, df, T, tot = st['d'], st['df'], st['T'], st['tot']
        kT = T * z3.RealVal(str(V.exact(KB_EV)))
        ln, ex = u._ln, u._exp
        a, b, c, a2, b2, c2 = z3.Ints('va vb vc wa wb wc')
        rng = z3.And(a >= 0, a < d[0], b >= 0, b < d[1], c >= 0, c < d[2])
        rng2 = z3.And(a2 >= 0, a2 < d[0], b2 >= 0, b2 < d[1], c2 >= 0, c2 < d[2])
        p = df(a, b, c) / tot
        p2 = df(a2, b2, c2) / tot
        out.append(('class', z3.BoolVal(fe._cls == 'FreeEnergyVolume')))
        out.append(('lattice-kept', z3.BoolVal(fe.get('lattice') is st['lat'])))
        out.append(('F=-kT.ln(p)-on-visited', z3.ForAll([a, b, c], z3.Implies(z3.And(rng, df(a, b, c) > 0), F.at(a, b, c) == -kT * ln(p)))))
        out.append(('F>=0-on-visited', z3.ForAll([a, b, c], z3.Implies(z3.And(rng, df(a, b, c) > 0), F.at(a, b, c) >= 0))))
        out.append(('exp(-F/kT)=p-on-visited', z3.ForAll([a, b, c], z3.Implies(z3.And(rng, df(a, b, c) > 0), ex(ln(p)) == p))))
        out.append(('denser-never-higher', z3.ForAll([a, b, c, a2, b2, c2], z3.Implies(
            z3.And(rng, rng2, df(a, b, c) >= df(a2, b2, c2), df(a2, b2, c2) > 0), F.at(a, b, c) <= F.at(a2, b2, c2)))))
        out.append(('unvisited=DBL_MAX', z3.ForAll([a, b, c], z3.Implies(z3.And(rng, df(a, b, c) == 0), F.at(a, b, c) == DBL_MAX))))
        sp = getattr(F, 'special', None)
        if sp is None:
            out.append(('nan_to_num applied', z3.BoolVal(False)))
        else:
            out.append(('never-NaN', z3.ForAll([a, b, c], z3.Implies(rng, z3.Not(sp.nan(a, b, c))))))
            out.append(('never--inf', z3.ForAll([a, b, c], z3.Implies(rng, z3.Not(sp.ninf(a, b, c))))))
        out.append(('DBL_MAX-above-graph-thresholds', z3.And(DBL_MAX >= z3.RealVal(10) ** 7, DBL_MAX >= z3.RealVal(10) ** 20)))
        return out

    u.prove_function('gemdat.volume', 'Volume.get_free_energy', setup, post,
                     replay={'fn': 'verif.props.c09:replay_free_energy', 'sizes': lambda st: [],
                             'concretise': lambda model, st, ob: {'seed': 5, 'shape': [2, 3, 2], 'temperature': 300.0}})
    return u


def unit_sum_lemmas(tier):
    """Induction lemmas over the recursive sum S(k+1) = S(k) + f(k), S(0) = 0 (one axis; the grid total is the three-fold composition)."""
    u = Unit('C09.sum_lemmas')
    I, R = z3.IntSort(), z3.RealSort()

    def nonneg(ctx):
        f, S = z3.Function('f', I, R), z3.Function('S', I, R)
        k = z3.Int('k')
        ctx.assume(z3.And(k >= 0, f(k) >= 0, S(0) == 0, S(k + 1) == S(k) + f(k)))
        ctx.assume(S(k) >= 0)
        return [('base', S(0) >= 0), ('step', S(k + 1) >= 0), ('partial sums are non-decreasing', S(k + 1) >= S(k))]
    u.lemma('C09.sum.nonnegative(induction)', nonneg)

    def term_le_total(ctx):
        """f >= 0, j < n  =>  f(j) <= S(n): induction on n from n = j+1"""
        f, S = z3.Function('f', I, R), z3.Function('S', I, R)
        j, n = z3.Ints('j n')
        ctx.assume(z3.And(j >= 0, n >= j + 1))
        ctx.assume(z3.And(f(j) >= 0, f(n) >= 0, S(j) >= 0, S(j + 1) == S(j) + f(j), S(n + 1) == S(n) + f(n)))
        ctx.assume(f(j) <= S(n))
        return [('base (n = j+1)', f(j) <= S(j + 1)), ('step', f(j) <= S(n + 1))]
    u.lemma('C09.sum.term<=total(induction)', term_le_total)

    def chain(ctx):
        """three axes: count <= row total <= plane total <= grid total, each by the previous lemma applied to a non-negative summand"""
        d, row, plane, tot = z3.Reals('count row_total plane_total total')
        ctx.assume(z3.And(d >= 0, d <= row, row <= plane, plane <= tot))
        return [('count <= total', d <= tot), ('count >= 0 and total > 0 => p in [0,1]', z3.Implies(tot > 0, z3.And(d / tot >= 0, d / tot <= 1)))]
    u.lemma('C09.sum.count<=grid-total', chain)

    def linear(ctx):
        f, S, Sc = z3.Function('f', I, R), z3.Function('S', I, R), z3.Function('Sc', I, R)
        k, c = z3.Int('k'), z3.Real('c')
        ctx.assume(z3.And(k >= 0, S(0) == 0, Sc(0) == 0, S(k + 1) == S(k) + f(k), Sc(k + 1) == Sc(k) + c * f(k)))
        ctx.assume(Sc(k) == c * S(k))
        return [('base', Sc(0) == c * S(0)), ('step', Sc(k + 1) == c * S(k + 1))]
    u.lemma('C09.sum.linear(induction)', linear)

    def one(ctx):
        """sum of p = sum(data/total) = (1/total) sum(data) = 1 (linearity on each of the three axes)"""
        tot, c, s3 = z3.Reals('total c sum_of_p')
        ctx.assume(z3.And(tot > 0, c == 1 / tot, s3 == c * tot))
        return [('probabilities sum to one', s3 == 1)]
    u.lemma('C09.sum.probabilities-sum-to-one', one)

    def f_nonneg(ctx):
        """p in (0,1] => ln p <= 0 => F = -kT ln p >= 0   (ln monotone, ln 1 = 0: the axioms used by the main unit)"""
        p, kT, lnp = z3.Reals('p kT ln_p')
        ctx.assume(z3.And(p > 0, p <= 1, kT > 0, lnp <= 0))
        return [('F >= 0', -kT * lnp >= 0)]
    u.lemma('C09.F-nonnegative', f_nonneg)
    return u


def replay_free_energy(inputs):
    import numpy as np
    from gemdat.path import free_energy_graph
    from gemdat.volume import Volume
    from pymatgen.core import Lattice
    rng = np.random.default_rng(inputs['seed'])
    shape = tuple(inputs['shape'])
    T = inputs['temperature']
    data = rng.integers(0, 6, size=shape)
    data[rng.random(shape) < 0.3] = 0
    if data.sum() == 0:
        data[(0,) * 3] = 3
    if inputs.get('dynamic'):
        data = data.astype(np.int64)
        data[(0,) * 3] = 5 * 10 ** 9  # very wide dynamic range: visited voxels with probabilities far below 1e-8
    if inputs.get('scale'):
        data = data * float(inputs['scale'])  # averaged (non-integer) densities, possibly with a total below one
    layout = inputs.get('layout')
    if layout == 'fortran':
        data = np.asfortranarray(data)  # column-major storage, as grids read from volumetric files are
    elif layout == 'transposed':
        data = np.ascontiguousarray(data.transpose(2, 1, 0)).transpose(2, 1, 0)  # a transposed view: same values, reversed strides
    elif layout == 'strided':
        big = np.zeros(tuple(2 * x for x in data.shape), dtype=data.dtype)
        big[::2, ::2, ::2] = data
        data = big[::2, ::2, ::2]  # every second voxel of a larger array: non-contiguous view
    vol = Volume(data=data, lattice=Lattice.cubic(4.0))
    bad = []
    p = vol.probability()
    if not np.allclose(p, data / data.sum(), rtol=1e-13, atol=0) or abs(p.sum() - 1) > 1e-12 or (p < 0).any():
        bad.append('probability is not data/total')
    with np.errstate(divide='ignore'):
        fe = vol.get_free_energy(temperature=T)
    F = fe.data
    k = KB_EV
    vis = data > 0
    if not np.isfinite(F).all():
        bad.append('free energy contains NaN/inf')
    if not np.allclose(F[vis], -k * T * np.log(data[vis] / data.sum()), rtol=1e-12, atol=1e-300):
        bad.append('F != -kT ln p on visited voxels')
    if not np.allclose(np.exp(-F[vis] / (k * T)), p[vis], rtol=1e-9):
        bad.append('exp(-F/kT) != p')
    if (F[vis] < 0).any():
        bad.append('negative free energy')
    if (~vis).any() and not (F[~vis] == np.finfo(float).max).all():
        bad.append(f'unvisited voxels are not DBL_MAX: {F[~vis][:3]}')
    order = np.argsort(data[vis])
    if (np.diff(F[vis][order]) > 1e-15).any():
        bad.append('denser voxel with higher free energy')
    for thr in (1e7, 1e20):
        G = free_energy_graph(F, max_energy_threshold=thr)
        if set(G.nodes) != {tuple(i) for i in np.argwhere(vis)}:
            bad.append(f'graph nodes (threshold {thr}) are not exactly the visited voxels')
    # the same object after its density was changed (accumulated further): probabilities and free energy must follow the current data
    data2 = np.array(vol.data, dtype=float)
    bump = rng.integers(0, 4, size=shape)
    bump[(0,) * 3] += 1
    vol.data = data2 + bump
    cur = np.asarray(vol.data, dtype=float)
    p2 = vol.probability()
    if not np.allclose(p2, cur / cur.sum(), rtol=1e-13, atol=0):
        bad.append('after the density of the same Volume object was changed, probability() is not data/total of the current data')
    with np.errstate(divide='ignore'):
        F2 = vol.get_free_energy(temperature=T).data
    v2 = cur > 0
    if not np.allclose(F2[v2], -k * T * np.log(cur[v2] / cur.sum()), rtol=1e-12, atol=1e-300):
        bad.append('after the density of the same Volume object was changed, F != -kT ln p of the current data')
    return {'reproduced': bool(bad), 'detail': f'data={data.tolist()} T={T}: ' + '; '.join(bad)}


def bounded_free_energy(tier, seed):
    import numpy as np
    n = 60 if tier == 'quick' else 1500
    st = Stand('C09.free_energy.random', f'{n} random non-negative grids (<= 4x4x4, ~30% zeros; integer counts and scaled float densities incl. totals below 1) x T in {{1, 300, 1000, 20000}}; every third grid stored column-major, as a transposed view or as a strided view',
               'seeded random; non-trivial = grid with both zero and non-zero voxels; distinct by (seed, shape, T)')
    rng = np.random.default_rng(seed + 909)
    for c in range(n):
        shape = [int(x) for x in rng.integers(1, 5, size=3)]
        inp = {'seed': int(rng.integers(1, 10 ** 6)), 'shape': shape, 'temperature': float([1.0, 300.0, 1000.0, 20000.0][c % 4]),
               'scale': [None, 0.01, 0.5, 3.7][(c // 4) % 4]}
        if c % 3 == 2:
            inp['layout'] = ['fortran', 'transposed', 'strided'][(c // 3) % 3]  # the values are what counts, not how the array is stored
        if c % 7 == 5:
            inp['dynamic'] = True
            inp['scale'] = None
            inp['shape'] = [max(2, x) for x in shape]
        r = st.guard(replay_free_energy, inp)
        if r is None:
            continue
        st.case(inp, nontrivial=' 0' in r['detail'] or '[0' in r['detail'], sample=inp)
        if r['reproduced']:
            st.violation('free_energy', r['detail'], 'verif.props.c09:replay_free_energy', inp)
    return st.result()


# generic purity stand-in (arguments unchanged, second call equal, fresh call equal) over this property's API calls
from verif.native.purity import make_bounded as _make_purity  # noqa: E402
from verif.props.purity_reg import REG as _PURITY_REG  # noqa: E402
PURITY = _PURITY_REG['C09']
bounded_purity = _make_purity('C09', PURITY)


# plumbing around the anchored functions: forwarding contracts of the public wrappers, no state shared between calls or objects
from verif.props import plumbing as _plumbing  # noqa: E402


def unit_plumbing(tier):
    return _plumbing.unit_plumbing(PROPERTY)


bounded_plumbing = _plumbing.make_bounded(PROPERTY)

"""C18 — orientation vectors are minimum-image bonds; transforms / autocorrelation exact."""
from __future__ import annotations

import z3

from verif.bounded import Stand
from verif.engine import values as V
from verif.engine import world as W
from verif.engine.interp import PyFn
from verif.engine.unit import Unit
from verif.engine.values import SObj, STensor, to_z3
from verif.props.common import install_common

PROPERTY = 'C18'
MANIFEST = {
    'level_text': 'Proved for all frame / bond counts and lattices (floats as reals): _fractional_directions returns satellite - centre of the '
                  'matched pair, moved by -1/0/+1 cells so that every component lies in [-1/2, 1/2] (with bonds shorter than half the '
                  'perpendicular width this is the minimum image, L-perp assumed) and __post_init__ converts it with the trajectory lattice; '
                  'normalize gives unit vectors that are positive multiples of the input; symmetrize(sym_ops) gives for every vector and '
                  'operation k exactly sum_i v_i S[i,j,k] at row b*K+k (einsum/reshape index algebra); transform applies the matrix to every '
                  'vector.  The FFT autocorrelation zero-pads to 2n-1 (sufficient) but inverts at numpy\'s default length 2n-2, so it is not '
                  'the time-origin-averaged dot product: recorded known finding C18-irfft-length (a stable unit test pins the current value). '
                  'Centre/satellite matching and the spherical representation are bounded only.',
    'level_note': 'Trusted: numpy where/einsum/dot/linalg.norm/reshape contracts, FFT correlation theorem (only its length preconditions are '
                  'obligations), dataclasses.replace, Trajectory.filter/positions contracts (C13/C01), pymatgen PointGroup matrices '
                  'orthogonal for the listed crystal systems, L-perp, floats as reals, pyvc itself.',
    'technique': 'deductive: VCs from the real AST of Orientations._fractional_directions / __post_init__ / normalize / symmetrize / transform '
                 'and utils.fft_autocorrelation (length obligations); z3/cvc5; native replay; tetrahedral clusters in random cells as stand-in',
}
UNITS = ['unit_directions', 'unit_normalize', 'unit_symmetrize', 'unit_transform', 'unit_autocorr', 'unit_plumbing']
BOUNDED = ['bounded_orientations', 'bounded_purity']
META = {'clauses': {'C18.wrap': 'P', 'C18.match': 'B', 'C18.norm': 'P', 'C18.sym': 'P + A (orthogonal point-group matrices)', 'C18.lin': 'P', 'C18.sph': 'B',
                    'C18.ac.pad': 'P (sufficient padding) / known finding (inverse length)', 'C18.ac.norm': 'known finding region'},
        'not_decided': ['numerical FFT error', 'spherical-coordinate inverse (pure trigonometry): bounded numeric check only']}


def _orient(ctx, u):
    T, B = z3.Int('T'), z3.Int('n_bonds')
    ctx.assume(z3.And(T >= 1, B >= 1))
    vf = z3.Function('vec', z3.IntSort(), z3.IntSort(), z3.IntSort(), z3.RealSort())
    vectors = STensor((T, B, 3), lambda t, b, c: vf(to_z3(t), to_z3(b), to_z3(c)), 'real')
    o = SObj('Orientations', vectors=vectors, trajectory=SObj('Trajectory'), center_type='P', satellite_type='O')

    def replace(interp, line, obj, **changes):
        interp.ctx.use('dataclasses.replace(self, in_vectors=v): a copy whose vectors are v')
        return SObj('Orientations', vectors=changes.get('in_vectors'), trajectory=obj.get('trajectory'), center_type=obj.get('center_type'),
                    satellite_type=obj.get('satellite_type'), _replaced=True)
    u.lib['dataclasses.replace'] = replace
    return o, {'T': T, 'B': B, 'vf': vf, 'o': o}


def _frame(st):
    """normalize/symmetrize/transform return a new object: the receiver's vectors are what they were (no in-place update through an alias)."""
    t, b, c = z3.Ints('ft fb fc')
    own = st['o'].get('vectors')
    return ('the receiver keeps its own vectors', z3.ForAll([t, b, c], z3.Implies(
        z3.And(t >= 0, t < st['T'], b >= 0, b < st['B'], c >= 0, c < 3), own.at(t, b, c) == st['vf'](t, b, c))))


def unit_directions(tier):
    u = Unit('C18.directions')
    install_common(u)

    def setup(interp):
        ctx = interp.ctx
        T, Nc, Ns, B = z3.Int('T'), z3.Int('n_centres'), z3.Int('n_satellites'), z3.Int('n_bonds')
        ctx.assume(z3.And(T >= 1, Nc >= 1, Ns >= 1, B >= 1))
        pc = z3.Function('pos_c', z3.IntSort(), z3.IntSort(), z3.IntSort(), z3.RealSort())
        ps = z3.Function('pos_s', z3.IntSort(), z3.IntSort(), z3.IntSort(), z3.RealSort())
        t, a, c = z3.Ints('xt xa xc')
        for f, n in ((pc, Nc), (ps, Ns)):
            ctx.assume(z3.ForAll([t, a, c], z3.Implies(z3.And(t >= 0, t < T, a >= 0, a < n, c >= 0, c < 3), z3.And(f(t, a, c) >= 0, f(t, a, c) < 1)), patterns=[f(t, a, c)]),
                       tag='Trajectory.positions of the filtered trajectories are in [0,1) (C01/C13)')
        cent = SObj('Trajectory', positions=STensor((T, Nc, 3), lambda x, y, z_: pc(to_z3(x), to_z3(y), to_z3(z_)), 'real'))
        sat = SObj('Trajectory', positions=STensor((T, Ns, 3), lambda x, y, z_: ps(to_z3(x), to_z3(y), to_z3(z_)), 'real'))
        comb = z3.Function('combination', z3.IntSort(), z3.IntSort(), z3.IntSort())
        b = z3.Int('xb')
        ctx.assume(z3.ForAll([b], z3.Implies(z3.And(b >= 0, b < B), z3.And(comb(b, 0) >= 0, comb(b, 0) < Nc, comb(b, 1) >= 0, comb(b, 1) < Ns)), patterns=[comb(b, 0), comb(b, 1)]),
                   tag='contract of _central_satellite_matrix: (centre index, satellite index) pairs in range (bounded stand-in for the matching itself)')
        o = SObj('Orientations', _trajectory_cent=cent, _trajectory_sat=sat)
        u.contracts['gemdat.orientations.Orientations._central_satellite_matrix'] = lambda ii, self, distance, frac: STensor((B, 2), lambda x, y: comb(to_z3(x), to_z3(y)), 'int')
        st = {'T': T, 'B': B, 'pc': pc, 'ps': ps, 'comb': comb}
        return [o, SObj('Distances')], {}, st

    def post(interp, st, res):
        T, B, pc, ps, comb = st['T'], st['B'], st['pc'], st['ps'], st['comb']
        t, b, c = z3.Ints('pt pb pc')
        raw = ps(t, comb(b, 1), c) - pc(t, comb(b, 0), c)
        half = z3.RealVal('1/2')
        n = z3.If(raw > half, 1, z3.If(raw < -half, -1, 0))
        rng = z3.And(t >= 0, t < T, b >= 0, b < B, c >= 0, c < 3)
        v = res.at(t, b, c)
        return [('shape (T, bonds, 3)', z3.And(res.shape[0] == T, res.shape[1] == B, res.shape[2] == 3)),
                ('direction = satellite - centre of the matched pair, shifted by a whole cell', z3.ForAll([t, b, c], z3.Implies(rng, v == raw - z3.ToReal(n)))),
                ('every component within half a cell', z3.ForAll([t, b, c], z3.Implies(rng, z3.And(v <= half, v >= -half))))]
    u.prove_function('gemdat.orientations', 'Orientations._fractional_directions', setup, post, raises=(),
                     replay={'fn': 'verif.props.c18:replay_orient', 'sizes': lambda st: [], 'concretise': lambda m, st, ob: {'seed': 3}})

    # __post_init__: vectors = lattice.get_cartesian_coords(direction) with the trajectory's lattice
    rec = {}

    def setup2(interp):
        ctx = interp.ctx
        rec.clear()
        lat = W.sym_lattice(ctx)
        ctx.ghost['lattice_obj'] = lat
        traj = SObj('Trajectory', constant_lattice=True, lattice=lat.get('matrix'))
        d = STensor((z3.Int('T'), z3.Int('B'), 3), lambda x, y, z_: z3.Real('d'), 'real')
        o = SObj('Orientations', trajectory=traj, _distances=SObj('Distances'))
        u.contracts['gemdat.orientations.Orientations._fractional_directions'] = lambda ii, self, dist: rec.update({'dist': dist}) or d
        return [o], {}, {'d': d, 'lat': lat, 'o': o}

    def post2(interp, st, res):
        v = st['o'].get('vectors') if st['o'].has('vectors') else None
        src = getattr(v, 'cart_of', None)
        return [('vectors = Cartesian image of the fractional directions in the trajectory lattice', z3.BoolVal(src is not None and src[0] is st['d'] and src[1] is st['lat']))]
    u.prove_function('gemdat.orientations', 'Orientations.__post_init__', setup2, post2, raises=())
    return u


def unit_normalize(tier):
    u = Unit('C18.normalize')
    install_common(u)

    def setup(interp):
        o, st = _orient(interp.ctx, u)
        t, b = z3.Ints('xt xb')
        vf = st['vf']
        interp.ctx.assume(z3.ForAll([t, b], z3.Implies(z3.And(t >= 0, t < st['T'], b >= 0, b < st['B']),
                                                       vf(t, b, 0) * vf(t, b, 0) + vf(t, b, 1) * vf(t, b, 1) + vf(t, b, 2) * vf(t, b, 2) > 0)),
                          tag='requires: no zero-length bond vector')
        return [o], {}, st

    def post(interp, st, res):
        T, B, vf = st['T'], st['B'], st['vf']
        w = res.get('vectors')
        t, b, c = z3.Ints('pt pb pc')
        rng = z3.And(t >= 0, t < T, b >= 0, b < B)
        n2 = vf(t, b, 0) * vf(t, b, 0) + vf(t, b, 1) * vf(t, b, 1) + vf(t, b, 2) * vf(t, b, 2)
        s = u._sqrt(n2)
        return [('positive multiple of the input: w * |v| = v', z3.ForAll([t, b, c], z3.Implies(z3.And(rng, c >= 0, c < 3), z3.And(s > 0, w.at(t, b, c) * s == vf(t, b, c))))),
                ('unit length', z3.ForAll([t, b], z3.Implies(rng, (w.at(t, b, 0) * w.at(t, b, 0) + w.at(t, b, 1) * w.at(t, b, 1) + w.at(t, b, 2) * w.at(t, b, 2)) * n2 == n2))),
                ('shape', z3.And(w.shape[0] == T, w.shape[1] == B, w.shape[2] == 3)), _frame(st)]
    u.prove_function('gemdat.orientations', 'Orientations.normalize', setup, post, raises=(),
                     replay={'fn': 'verif.props.c18:replay_orient', 'sizes': lambda st: [], 'concretise': lambda m, st, ob: {'seed': 4}})
    return u


def unit_symmetrize(tier):
    u = Unit('C18.symmetrize')
    install_common(u)

    def setup(interp):
        ctx = interp.ctx
        o, st = _orient(ctx, u)
        K = z3.Int('n_symops')
        ctx.assume(K >= 1)
        sf = z3.Function('symop', z3.IntSort(), z3.IntSort(), z3.IntSort(), z3.RealSort())
        S = STensor((3, 3, K), lambda i, j, k: sf(to_z3(i), to_z3(j), to_z3(k)), 'real')
        st.update({'K': K, 'sf': sf})
        return [o], {'sym_ops': S}, st

    def post(interp, st, res):
        T, B, K, vf, sf = st['T'], st['B'], st['K'], st['vf'], st['sf']
        w = res.get('vectors')
        mg = interp.ctx.ghost.get('merged', {})
        if len(mg) != 1:
            return [('one reshape (bonds x operations)', z3.BoolVal(False))]
        uq, ur, fl, AB = list(mg.values())[0]
        t, b, k, j = z3.Ints('pt pb pk pj')
        # the statement is about the SET of images, one per operation; for a group of orthogonal operations the inverse of an operation is its
        # transpose and is in the group, so 'row (b,k) is v R_k' and 'row (b,k) is R_k v' both give exactly the orbit - either convention is accepted
        # (the first form demanded alone was more than the property states)
        img = lambda jj: vf(t, b, 0) * sf(0, jj, k) + vf(t, b, 1) * sf(1, jj, k) + vf(t, b, 2) * sf(2, jj, k)  # noqa: E731
        imgT = lambda jj: vf(t, b, 0) * sf(jj, 0, k) + vf(t, b, 1) * sf(jj, 1, k) + vf(t, b, 2) * sf(jj, 2, k)  # noqa: E731
        rng_ = z3.And(t >= 0, t < T, b >= 0, b < B, k >= 0, k < K)
        return [('one image per (vector, operation): shape (T, bonds*ops, 3)', z3.And(w.shape[0] == T, to_z3(w.shape[1]) == to_z3(AB), w.shape[2] == 3)),
                ('image of vector b under operation k (or, throughout, under its transpose = inverse) at row (b,k)', z3.Or(
                    z3.ForAll([t, b, k], z3.Implies(rng_, z3.And(*[w.at(t, fl(b, k), jj) == img(jj) for jj in range(3)]))),
                    z3.ForAll([t, b, k], z3.Implies(rng_, z3.And(*[w.at(t, fl(b, k), jj) == imgT(jj) for jj in range(3)]))))), _frame(st)]
    u.prove_function('gemdat.orientations', 'Orientations.symmetrize', setup, post, raises=(),
                     replay={'fn': 'verif.props.c18:replay_orient', 'sizes': lambda st: [], 'concretise': lambda m, st, ob: {'seed': 5}})
    return u


def unit_transform(tier):
    u = Unit('C18.transform')
    install_common(u)

    def setup(interp):
        o, st = _orient(interp.ctx, u)
        mf = z3.Function('matrix', z3.IntSort(), z3.IntSort(), z3.RealSort())
        A = STensor((3, 3), lambda i, j: mf(to_z3(i), to_z3(j)), 'real')
        st['mf'] = mf
        return [o, A], {}, st

    def post(interp, st, res):
        T, B, vf, mf = st['T'], st['B'], st['vf'], st['mf']
        w = res.get('vectors')
        t, b = z3.Ints('pt pb')
        return [('w[t,b] = A . v[t,b]', z3.ForAll([t, b], z3.Implies(z3.And(t >= 0, t < T, b >= 0, b < B), z3.And(*[
            w.at(t, b, j) == mf(j, 0) * vf(t, b, 0) + mf(j, 1) * vf(t, b, 1) + mf(j, 2) * vf(t, b, 2) for j in range(3)])))), _frame(st)]
    u.prove_function('gemdat.orientations', 'Orientations.transform', setup, post, raises=(),
                     replay={'fn': 'verif.props.c18:replay_orient', 'sizes': lambda st: [], 'concretise': lambda m, st, ob: {'seed': 6}})
    return u


def unit_autocorr(tier):
    """fft_autocorrelation: length obligations of the FFT correlation theorem.  (i) zero padding to >= 2n-1: holds.
    (ii) the inverse must be taken at the padded length: np.fft.irfft defaults to 2*(bins-1) = 2n-2 != 2n-1 - this is the recorded
    known finding C18-irfft-length, so (ii) is not claimed; the obligation list shows it as the finding's region."""
    u = Unit('C18.autocorr')
    install_common(u)
    rec = {}

    def rfft(interp, line, a, n=None, axis=-1):
        rec.setdefault('rfft', []).append({'n': n, 'axis': axis, 'len': a.shape[0]})
        return SObj('Spectrum', of=a, n=n, bins=V.binop('+', V.binop('//', n, 2), 1), hooked=True)
    u.lib['numpy.fft.rfft'] = rfft
    u.lib['numpy.abs'] = lambda ii, ll, x: x if isinstance(x, SObj) else u.np.f_abs(ii, ll, x)
    u.lib['numpy.square'] = lambda ii, ll, x, out=None: x if isinstance(x, SObj) else u.np.f_square(ii, ll, x, out=out)

    def irfft(interp, line, spec, n=None, axis=-1):
        ctx = interp.ctx
        bins = spec.get('bins')
        length = n if n is not None else V.binop('*', 2, V.binop('-', bins, 1))
        rec.setdefault('irfft', []).append({'n': n, 'length': length, 'padded': spec.get('n'), 'axis': axis})
        ctx.use('numpy.fft.irfft(X, n=None): output length defaults to 2*(len(X)-1)')
        ac = ctx.fresh_fun('acorr', z3.IntSort(), z3.IntSort(), z3.RealSort())
        P = spec.get('of').shape[1]
        return STensor((length, P), lambda k, p: ac(to_z3(k), to_z3(p)), 'real')
    u.lib['numpy.fft.irfft'] = irfft

    def setup(interp):
        ctx = interp.ctx
        rec.clear()
        n, P = z3.Int('n_times'), z3.Int('n_particles')
        ctx.assume(z3.And(n >= 2, P >= 1))
        cf = z3.Function('coords', z3.IntSort(), z3.IntSort(), z3.IntSort(), z3.RealSort())
        coords = STensor((n, P, 3), lambda t, p, c: cf(to_z3(t), to_z3(p), to_z3(c)), 'real')
        return [coords], {}, {'n': n, 'P': P}

    def post(interp, st, res):
        n = st['n']
        out = []
        rf, ir = rec.get('rfft', []), rec.get('irfft', [])
        out.append(('one transform pair per Cartesian coordinate', z3.BoolVal(len(rf) == 3 and len(ir) == 3)))
        for k, r in enumerate(rf[:3]):
            out.append((f'coordinate {k}: zero padding to at least 2n-1 along the time axis', z3.And(to_z3(r['n']) >= 2 * n - 1, z3.BoolVal(r['axis'] == 0), to_z3(r['len']) == n)))
        # known finding C18-irfft-length: the inverse length is NOT the padded length; nothing is claimed beyond the shape
        out.append(('result shape (particles, times)', z3.And(res.shape[0] == st['P'], res.shape[1] == n)))
        return out
    u.prove_function('gemdat.utils', 'fft_autocorrelation', setup, post, raises=(),
                     replay={'fn': 'verif.props.c18:replay_autocorr', 'sizes': lambda st: [], 'concretise': lambda m, st, ob: {'seed': 2, 'n': 9}})
    return u


# ---------------------------------------------------------------------------------------------------------------

def _tetra_system(seed, T=12, family=None, n_centres=2):
    import numpy as np
    from pymatgen.core import Element
    from gemdat.trajectory import Trajectory
    from verif.native.synth import random_lattice, random_rotation
    rng = np.random.default_rng(seed)
    lat = random_lattice(rng, scale=1.6, family=family)
    inv = np.linalg.inv(lat.matrix)
    tet = np.array([[1, 1, 1], [1, -1, -1], [-1, 1, -1], [-1, -1, 1]]) / np.sqrt(3) * 1.5
    centres = np.array([[0.02, 0.5, 0.97], [0.55, 0.03, 0.48]])
    if n_centres > 2:
        centres = np.array([[0.02, 0.5, 0.97], [0.52, 0.0, 0.97], [0.52, 0.5, 0.47], [0.02, 0.0, 0.47]])[:n_centres]  # face-centred arrangement: as far apart as four points get
    coords = []
    for t in range(T):
        frame = []
        for ci, c in enumerate(centres):
            R = random_rotation(np.random.default_rng(seed * 100 + t * 7 + ci)) if (t or family) else np.eye(3)  # explicit families: the first frame (used for the matching) is randomly oriented too
            frame.append(c)
        for ci, c in enumerate(centres):
            R = random_rotation(np.random.default_rng(seed * 100 + t * 7 + ci)) if (t or family) else np.eye(3)  # explicit families: the first frame (used for the matching) is randomly oriented too
            for v in tet:
                frame.append(c + (R @ v) @ inv)
        coords.append(frame)
    coords = np.array(coords) + rng.integers(-1, 2, size=(T, 5 * n_centres, 1))
    species = [Element('P')] * n_centres + [Element('O')] * (4 * n_centres)
    return Trajectory(species=species, coords=coords, lattice=lat.matrix, time_step=1e-15), lat


def replay_orient(inputs):
    import numpy as np
    import warnings
    from gemdat.orientations import Orientations
    from verif.native.synth import brute_mindist
    warnings.filterwarnings('ignore')
    seed = inputs['seed']
    bad = []
    # fewer frames than molecules, and a single frame: every centre still has its four bonds at every frame
    for T_, nc_ in ((2, 3), (1, 2), (3, 4)):
        tj_, lt_ = _tetra_system(seed + 1, T=T_, family=inputs.get('family'), n_centres=nc_)
        pc_ = np.asarray(tj_.filter('P').positions[0])
        dcc = lt_.get_all_distances(pc_, pc_) + np.eye(nc_) * 1e9
        if dcc.min() < 4.5:
            continue  # molecules closer than three bond lengths: which satellites belong to which centre is not well defined (outside the stated family)
        try:
            vv = np.asarray(Orientations(tj_, 'P', 'O').vectors)
            if vv.shape != (T_, 4 * nc_, 3):
                bad.append(f'{T_} frames of {nc_} molecules: vectors of shape {vv.shape}, expected {(T_, 4 * nc_, 3)}')
            elif np.abs(np.linalg.norm(vv, axis=-1) - 1.5).max() > 1e-6:
                bad.append(f'{T_} frames of {nc_} molecules: bond lengths deviate from 1.5 A')
        except Exception as e:
            bad.append(f'{T_} frames of {nc_} molecules: Orientations raised {type(e).__name__}: {e}')
    traj, lat = _tetra_system(seed, family=inputs.get('family'))
    try:
        o = Orientations(traj, 'P', 'O')
    except Exception as e:
        return {'reproduced': True, 'detail': f'Orientations raised {type(e).__name__}: {e}'}
    v = np.array(o.vectors, copy=True)  # the oracle keeps its own copy: the operations below must not change the receiver

    def untouched(what):
        if not np.array_equal(np.asarray(o.vectors), v):
            bad.append(f'{what} changed the vectors of the object it was called on')
    T = len(traj)
    pc, ps = traj.filter('P').positions, traj.filter('O').positions
    if v.shape != (T, 8, 3):
        bad.append(f'vectors shape {v.shape}')
    else:
        lens = np.linalg.norm(v, axis=-1)
        if np.abs(lens - 1.5).max() > 1e-6:
            bad.append(f'bond lengths deviate from 1.5 A by up to {np.abs(lens - 1.5).max():.3g} (not minimum-image vectors)')
        # each vector must equal some periodic centre->satellite difference
        for t in (0, T - 1):
            for b in range(8):
                ci = b // 4
                d = brute_mindist(lat.matrix, pc[t, ci], ps[t], rng=2)[0]
                if np.abs(d - np.linalg.norm(v[t, b])).min() > 1e-6:
                    bad.append(f'vector ({t},{b}) is not a centre-satellite minimum-image bond')
                    break
    n = o.normalize()
    if np.abs(np.linalg.norm(n.vectors, axis=-1) - 1).max() > 1e-12 or (np.einsum('tbi,tbi->tb', n.vectors, v) <= 0).any():
        bad.append('normalize does not give unit vectors with unchanged direction')
    untouched('normalize()')
    rng = np.random.default_rng(seed)
    A = rng.normal(size=(3, 3))
    tr = o.transform(A)
    if not np.allclose(tr.vectors, v @ A.T, atol=1e-12):
        bad.append('transform does not apply the matrix to every vector')
    untouched('transform()')
    from pymatgen.symmetry.groups import PointGroup
    for pg in ('m-3m', 'mmm', '4/mmm', '2/m', '-1'):
        ops = np.array([e.rotation_matrix for e in PointGroup(pg).symmetry_ops])
        s = o.symmetrize(sym_group=pg).vectors
        if s.shape != (T, 8 * len(ops), 3):
            bad.append(f'symmetrize({pg}) shape {s.shape}')
            continue
        exp = np.einsum('tbi,kij->tbkj', v, ops.transpose(0, 2, 1) if False else ops.transpose(0, 1, 2))
        # every image set must be the orbit {R v}: compare as sets per (t, b)
        got = s.reshape(T, 8, len(ops), 3)
        orbit = np.einsum('kij,tbj->tbki', ops, v)
        for t in (0, T - 1):
            for b in (0, 5):
                g = sorted(map(tuple, np.round(got[t, b], 8).tolist()))
                e_ = sorted(map(tuple, np.round(orbit[t, b], 8).tolist()))
                if not np.allclose(g, e_, atol=1e-7):
                    bad.append(f'symmetrize({pg}) images of vector ({t},{b}) are not its orbit under the group')
                    break
    untouched('symmetrize()')
    # degenerate matrices and directions: the zero matrix maps every vector to zero, and vectors exactly along +-z / the axes have a
    # well-defined spherical representation (elevation +-90 degrees, radius = length)
    from dataclasses import replace as _replace
    z0 = o.transform(np.zeros((3, 3)))
    if np.abs(z0.vectors).max() != 0:
        bad.append('transform with the zero matrix does not give zero vectors')
    axis_vecs = np.array([[[0.0, 0.0, 1.5], [0.0, 0.0, -2.0], [1.0, 0.0, 0.0], [0.0, -3.0, 0.0], [0.0, 0.0, 1e-3], [2.0, 0.0, 2.0], [0.0, 1.0, -1.0], [-1.0, -1.0, 0.0]]])
    oa = _replace(o, in_vectors=np.repeat(axis_vecs, len(traj), axis=0))
    if not np.array_equal(np.asarray(oa.vectors), np.repeat(axis_vecs, len(traj), axis=0)):
        bad.append('supplied vectors are not taken over unchanged')
    sa = oa.vectors_spherical
    az_, el_, r_ = np.radians(sa[..., 0]), np.radians(sa[..., 1]), sa[..., 2]
    back_ = np.stack([r_ * np.cos(el_) * np.cos(az_), r_ * np.cos(el_) * np.sin(az_), r_ * np.sin(el_)], axis=-1)
    if not np.allclose(back_, oa.vectors, atol=1e-9):
        bad.append('spherical representation of axis-aligned vectors is not invertible')
    sph = o.vectors_spherical
    az, el, r = np.radians(sph[..., 0]), np.radians(sph[..., 1]), sph[..., 2]
    back = np.stack([r * np.cos(el) * np.cos(az), r * np.cos(el) * np.sin(az), r * np.sin(el)], axis=-1)
    if not np.allclose(back, v, atol=1e-9):
        bad.append('spherical representation is not invertible')
    return {'reproduced': bool(bad), 'detail': f'seed={seed} lattice={np.round(lat.parameters, 2).tolist()}: ' + '; '.join(bad[:4])}


def replay_autocorr(inputs):
    """autocorrelation = time-origin-averaged dot product, normalised to one at lag zero."""
    import numpy as np
    from gemdat.utils import fft_autocorrelation
    rng = np.random.default_rng(inputs['seed'])
    n = int(inputs.get('n', 9))
    v = rng.normal(size=(n, 2, 3))
    got = fft_autocorrelation(v)
    exp = np.zeros((2, n))
    for p in range(2):
        for k in range(n):
            exp[p, k] = np.mean([v[t, p] @ v[t + k, p] for t in range(n - k)])
        exp[p] /= exp[p, 0]
    err = np.abs(got - exp).max()
    return {'reproduced': bool(err > 1e-9), 'detail': f'n={n}: max deviation from the time-origin-averaged dot product {err:.3g} (np.fft.irfft default length 2n-2 instead of 2n-1)'}


def bounded_orientations(tier, seed):
    import numpy as np
    n = 6 if tier == 'quick' else 120
    st = Stand('C18.orientations.oracle', f'{n} synthetic tetrahedral P-O4 clusters (2 centres, 8 bonds, 12 frames, random rotations, bonds across faces, integer shifts) in random '
               'triclinic/rotated cells; 5 point groups; brute-force minimum-image bond oracle', 'seeded random; every case non-trivial (bonds cross faces)')
    rng = np.random.default_rng(seed + 1818)
    for c in range(n):
        inp = {'seed': int(rng.integers(1, 10 ** 6)), 'family': [None, 'rhombohedral60', 'monoclinic', 'triclinic', 'hexagonal', None][c % 6]}  # strongly oblique cells included
        r = st.guard(replay_orient, inp)
        if r is None:
            continue
        st.case(inp, nontrivial=True, sample=inp)
        if r['reproduced']:
            st.violation('orientations', r['detail'], 'verif.props.c18:replay_orient', inp)
    return st.result()


# generic purity stand-in (arguments unchanged, second call equal, fresh call equal) over this property's API calls
from verif.native.purity import make_bounded as _make_purity  # noqa: E402
from verif.props.purity_reg import REG as _PURITY_REG  # noqa: E402
PURITY = _PURITY_REG['C18']
bounded_purity = _make_purity('C18', PURITY)


# plumbing around the anchored functions: forwarding contracts of the public wrappers, no state shared between calls or objects
from verif.props import plumbing as _plumbing  # noqa: E402


def unit_plumbing(tier):
    return _plumbing.unit_plumbing(PROPERTY)

"""C20 — memoised analysis results are transparent and never leak between objects."""
from __future__ import annotations

import ast

import z3

from verif.bounded import Stand
from verif.engine.interp import Closure, PyFn
from verif.engine.unit import Unit
from verif.engine.values import SObj

PROPERTY = 'C20'
MANIFEST = {
    'level_text': 'Proved: (key) by symbolic execution of the real decorator closures, a call inner(self, *a, **k) looks up / fills the '
                  'functools.lru_cache with the key (weakref.ref(self), *a, **k) and on a miss computes func(self, *a, **k) with exactly '
                  'that object and those arguments; (invariant) over the abstract history model - any interleaving of create / call / drop / '
                  'collect / evict / address reuse - every cache entry holds func(referent, args) and a lookup for a live object can only '
                  'hit an entry whose weak reference refers to that very object (weakref equality and liveness axioms), so results are '
                  'transparent and never served to another object, also one allocated at a recycled address; (classes) none of the cached '
                  'classes overrides __eq__/__hash__; (ownership) the returned value of every cached method does not capture self - except '
                  'Jumps.collective, recorded as known finding C20-collective-alive. Random interleavings with more live objects than the '
                  'cache size are the bounded stand-in.',
    'level_note': 'Trusted: functools.lru_cache (finite map keyed by argument equality/hash, strong references to keys and values, LRU eviction), '
                  'functools.wraps, weakref.ref (liveness, equality and hash rules, CPython reference counting without cycles), purity of the '
                  'cached methods (each has a functional contract in its own property), single-threaded use; pyvc itself.',
    'technique': 'deductive: VCs from the real AST of weak_lru_cache (nested closures, decorators), transition VCs of the abstract cache/heap '
                 'model, AST ownership and identity-equality obligations; z3; native replay with weakref/gc; random interleavings as stand-in',
}
UNITS = ['unit_decorator', 'unit_model', 'unit_ownership', 'unit_plumbing']
BOUNDED = ['bounded_interleavings', 'bounded_purity', 'bounded_plumbing']
META = {'clauses': {'C20.key': 'P', 'C20.inv': 'P over the abstract model + A (weakref / lru_cache axioms)', 'C20.transp': 'P (corollary)', 'C20.alive': 'P (static ownership) with known finding'},
        'not_decided': ['thread schedules (lru_cache locking assumed; GEMDAT starts no threads)', 'mutation of returned arrays by the caller']}


def unit_decorator(tier):
    u = Unit('C20.decorator')
    rec = {}

    def lru_cache(interp, line, maxsize=128, typed=False):
        rec['lru_args'] = (maxsize, typed)

        def decorate(ii, ll, fn):
            return SObj('LruCached', fn=fn, maxsize=maxsize)
        return PyFn(decorate)
    u.lib['functools.lru_cache'] = lru_cache
    u.lib['functools.wraps'] = lambda i, l, f: PyFn(lambda ii, ll, g: (rec.__setitem__('wrapped', f) or g))

    def weakref_ref(interp, line, obj):
        r = SObj('WeakRef', referent=obj, __isa__=('ref', 'ReferenceType'))
        rec.setdefault('refs', []).append(r)
        return r
    u.lib['weakref.ref'] = weakref_ref

    def call_hook(interp, f, args, kwargs, line):
        if isinstance(f, SObj) and f._cls == 'LruCached':
            # functools.lru_cache contract: memo keyed by (args, kwargs); a miss calls the wrapped function with the same arguments
            rec.setdefault('cache_keys', []).append((tuple(args), dict(kwargs)))
            hit = interp.ctx.fresh_bool('cache_hit')
            if interp.ctx.branch(hit, line):
                rec['hit'] = True
                return SObj('MemoValue')
            rec['hit'] = False
            val = interp.call(f.get('fn'), args, kwargs, line)
            if rec.get('func_raised'):
                # lru_cache memoises whatever the wrapped function RETURNS: a normal return after the computation failed puts an object built
                # from the exception (whose traceback frames reference self) into the cache
                rec['stored_after_raise'] = True
            return val
        if isinstance(f, SObj) and f._cls == 'WeakRef':
            # the caller holds a strong reference to the object while the call runs: the referent is alive
            rec.setdefault('deref', []).append(f)
            return f.get('referent')
        return NotImplemented
    u.call_hook = call_hook

    def setup(interp):
        rec.clear()
        return [], {}, {}

    def post(interp, st, wrapper):
        # apply the returned decorator to an abstract method F and call the resulting `inner`
        calls = []

        from verif.engine.interp import _Raise

        def F(ii, ll, *a, **k):
            calls.append((a, k))
            if ii.ctx.branch(ii.ctx.fresh_bool('computation_fails'), ll):
                rec['func_raised'] = True
                raise _Raise('ValueError', line=ll)
            return SObj('Result', of=(a, tuple(sorted(k.items()))))
        func = PyFn(F, name='F')
        inner = interp.call(wrapper, [func], {}, None)
        obj = SObj('Analysis')
        a1, k1 = z3.Int('arg1'), z3.Real('kwarg_dimensions')
        propagated = False
        try:
            res = interp.call(inner, [obj, a1], {'dimensions': k1}, None)
        except _Raise as e_:
            propagated = (e_.exc_type or '').split('.')[-1] == 'ValueError'
            res = None
        out = [('default cache size 128, untyped', z3.BoolVal(rec.get('lru_args') == (128, False))),
               ('metadata of the wrapped method preserved (functools.wraps(func))', z3.BoolVal(rec.get('wrapped') is func))]
        keys = rec.get('cache_keys', [])
        ok_key = len(keys) == 1 and len(keys[0][0]) == 2 and isinstance(keys[0][0][0], SObj) and keys[0][0][0]._cls == 'WeakRef' \
            and keys[0][0][0].get('referent') is obj and keys[0][0][1] is a1 and keys[0][1] == {'dimensions': k1}
        out.append(('cache key = (weakref.ref(self), *args, **kwargs): no strong reference to self in the key', z3.BoolVal(bool(ok_key))))
        if rec.get('func_raised'):
            out.append(('a failing computation is not memoised: its exception leaves the cached function', z3.BoolVal(not rec.get('stored_after_raise'))))
            out.append(('and reaches the caller unchanged', z3.BoolVal(bool(propagated))))
            return out
        if rec.get('hit'):
            out.append(('hit: the memoised value is returned, nothing recomputed', z3.BoolVal(isinstance(res, SObj) and res._cls == 'MemoValue' and not calls)))
        else:
            ok = len(calls) == 1 and len(calls[0][0]) == 2 and calls[0][0][0] is obj and calls[0][0][1] is a1 and calls[0][1] == {'dimensions': k1}
            out.append(('miss: computes func(self, *args, **kwargs) with the dereferenced object', z3.BoolVal(bool(ok))))
            out.append(('miss: returns that result', z3.BoolVal(isinstance(res, SObj) and res._cls == 'Result')))
        return out
    u.prove_function('gemdat.caching', 'weak_lru_cache', setup, post, raises=(),
                     replay={'fn': 'verif.props.c20:replay_interleaving', 'sizes': lambda st: [], 'concretise': lambda m, st, ob: {'seed': 1, 'steps': 60}})
    return u


def unit_model(tier):
    """Abstract history model.  Obj: analysis objects (never reused); addr: their memory address (reused after death);
    Ref: weak reference objects with ghost target tgt(r).  An entry is (r, a, v)."""
    u = Unit('C20.model')
    Obj = z3.DeclareSort('Obj')
    Ref = z3.DeclareSort('Ref')
    Val = z3.DeclareSort('Val')
    tgt = z3.Function('tgt', Ref, Obj)
    alive = z3.Function('alive', Obj, z3.BoolSort())
    addr = z3.Function('addr', Obj, z3.IntSort())
    F = z3.Function('F', Obj, z3.IntSort(), Val)  # the pure method: a function of the object's (immutable) fields and the arguments

    def ref_eq(r1, r2):
        # CPython: weak references compare equal iff both referents are alive and equal (identity for these classes), else by identity
        return z3.Or(r1 == r2, z3.And(alive(tgt(r1)), alive(tgt(r2)), tgt(r1) == tgt(r2)))

    def build(ctx):
        r, rq = z3.Consts('r rq', Ref)
        a, aq = z3.Ints('a aq')
        v = z3.Const('v', Val)
        s, s2 = z3.Consts('s s2', Obj)
        inv_entry = v == F(tgt(r), a)  # invariant of an arbitrary entry (r, a, v)
        ctx.use('weakref.ref equality: identical, or both referents alive and identical; tgt(r) never changes; a referent once dead stays dead')
        goals = []
        # T1 transparency of a hit: lookup key (rq, aq) with rq = ref(s), s alive (held by the caller)
        goals.append(('T1 hit returns func(self, args)', z3.Implies(z3.And(inv_entry, tgt(rq) == s, alive(s), ref_eq(rq, r), aq == a), v == F(s, aq))))
        # T2 a miss inserts (rq, aq, F(s,aq)) and that entry satisfies the invariant
        goals.append(('T2 inserted entry satisfies the invariant', z3.Implies(tgt(rq) == s, F(s, aq) == F(tgt(rq), aq))))
        # T3 dropping / collecting objects changes only `alive`: the entry invariant does not mention it
        alive2 = z3.Function('alive_after', Obj, z3.BoolSort())
        goals.append(('T3 collection of any object preserves every entry', z3.Implies(inv_entry, v == F(tgt(r), a))))
        # T4 eviction removes entries: remaining entries unchanged (trivial frame)
        goals.append(('T4 eviction preserves the remaining entries', z3.Implies(inv_entry, inv_entry)))
        # T5 address reuse: s2 is a new object at the address of the dead target of r: a lookup for s2 cannot hit r's entry
        goals.append(('T5 no hit across address reuse', z3.Implies(z3.And(z3.Not(alive(tgt(r))), alive(s2), tgt(rq) == s2, s2 != tgt(r), addr(s2) == addr(tgt(r)), rq != r),
                                                                  z3.Not(ref_eq(rq, r)))))
        # T6 never served to another live object
        goals.append(('T6 a hit for s only on entries of s', z3.Implies(z3.And(tgt(rq) == s, alive(s), ref_eq(rq, r)), tgt(r) == s)))
        # a fresh weakref to a new object is never identical to an older one (tgt is a function)
        goals.append(('T7 identical references have the same target', z3.Implies(rq == r, tgt(rq) == tgt(r))))
        return goals
    u.lemma('C20.inv.transitions', build)

    def classes(ctx):
        goals = []
        for module, cls in (('gemdat.metrics', 'TrajectoryMetrics'), ('gemdat.transitions', 'Transitions'), ('gemdat.jumps', 'Jumps'), ('gemdat.collective', 'Collective')):
            info = u.sources.load(module)
            node = info['classes'].get(cls) if info else None
            bad = [m.name for m in (node.body if node else []) if isinstance(m, ast.FunctionDef) and m.name in ('__eq__', '__hash__')]
            goals.append((f'{cls} keeps identity __eq__/__hash__ {bad}', z3.BoolVal(node is not None and not bad)))
            u.sources.function(module, f'{cls}.__init__')
        # no home-made memo next to the decorator: nothing keyed by id(obj) (addresses are recycled) and no module-level mutable
        # container used as a cache in the modules of the cached classes
        for module in ('gemdat.metrics', 'gemdat.transitions', 'gemdat.jumps', 'gemdat.collective', 'gemdat.caching'):
            info = u.sources.load(module)
            ids = [f'line {n.lineno}' for n in ast.walk(info['ast']) if isinstance(n, ast.Call) and isinstance(n.func, ast.Name) and n.func.id == 'id']
            goals.append((f'{module}: no id()-keyed state {ids}', z3.BoolVal(not ids)))
            glob = [t.id for n in info['ast'].body if isinstance(n, (ast.Assign, ast.AnnAssign))
                    for t in (n.targets if isinstance(n, ast.Assign) else [n.target]) if isinstance(t, ast.Name)
                    and isinstance(n.value, (ast.Dict, ast.List, ast.Set, ast.Call)) and not (isinstance(n.value, ast.Call) and ast.unparse(n.value.func) in ('re.compile', 'files', 'Literal'))
                    and (isinstance(n.value, (ast.Dict, ast.List, ast.Set)) or ast.unparse(n.value.func) in ('dict', 'list', 'set', 'defaultdict', 'OrderedDict', 'WeakKeyDictionary', 'weakref.WeakKeyDictionary'))]
            goals.append((f'{module}: no module-level mutable container (possible hidden cache) {glob}', z3.BoolVal(not glob)))
        return goals
    u.lemma('C20.inv.identity-equality-of-cached-classes', classes)
    return u


def _cached_methods(tree):
    out = []
    for module in ('gemdat.metrics', 'gemdat.transitions', 'gemdat.jumps', 'gemdat.collective'):
        info = tree.load(module)
        for name, fi in info['functions'].items():
            if any(d.startswith('weak_lru_cache') for d in fi.decorators):
                tree.used[f'{module}.{name}'] = fi
                out.append((module, name, fi))
    return out


def _captures_self(fi):
    """Does the returned value hold `self`?  (self returned, stored in a returned container, or passed to a constructor / call
    whose result is returned.)  Passing attributes of self is fine."""
    tainted = set()
    hits = []
    for node in ast.walk(fi.node):
        if isinstance(node, ast.Assign):
            if any(_mentions_bare_self(node.value, tainted)):
                for t in node.targets:
                    if isinstance(t, ast.Name):
                        tainted.add(t.id)
    for node in ast.walk(fi.node):
        if isinstance(node, ast.Return) and node.value is not None:
            m = list(_mentions_bare_self(node.value, tainted))
            if m:
                hits.append(f'line {node.lineno}: {ast.unparse(node.value)[:80]}')
    return hits


def _live_walk(expr):
    """ast.walk that does not enter the dead arm of a conditional expression with a constant test"""
    todo = [expr]
    while todo:
        n = todo.pop()
        yield n
        if isinstance(n, ast.IfExp) and isinstance(n.test, ast.Constant):
            todo.append(n.body if n.test.value else n.orelse)
            continue
        todo.extend(ast.iter_child_nodes(n))


def _mentions_bare_self(expr, tainted):
    if isinstance(expr, ast.IfExp) and isinstance(expr.test, ast.Constant):
        yield from _mentions_bare_self(expr.body if expr.test.value else expr.orelse, tainted)
        return
    for n in _live_walk(expr):
        if isinstance(n, ast.Call):
            for a in list(n.args) + [k.value for k in n.keywords]:
                if isinstance(a, ast.Name) and (a.id == 'self' or a.id in tainted):
                    yield n
        if isinstance(n, (ast.Tuple, ast.List, ast.Dict, ast.Set)):
            for a in ast.iter_child_nodes(n):
                if isinstance(a, ast.Name) and (a.id == 'self' or a.id in tainted):
                    yield n
    if isinstance(expr, ast.Name) and (expr.id == 'self' or expr.id in tainted):
        yield expr


KNOWN_CAPTURE = {('gemdat.jumps', 'Jumps.collective')}


def unit_ownership(tier):
    u = Unit('C20.ownership')

    def build(ctx):
        goals = []
        meths = _cached_methods(u.sources)
        goals.append((f'{len(meths)} cached methods found', z3.BoolVal(len(meths) >= 20)))
        for module, name, fi in meths:
            hits = _captures_self(fi)
            if (module, name) in KNOWN_CAPTURE:
                # recorded finding C20-collective-alive: nothing claimed for this method (the witness is replayed on every run)
                goals.append((f'{name}: known finding region (captures self: {bool(hits)})', z3.BoolVal(True)))
                continue
            goals.append((f'{name}: returned value does not capture self {hits}', z3.BoolVal(not hits)))
        ctx.use('AST ownership analysis: self returned / stored in a returned container / passed as an argument to a call whose result is returned')
        return goals
    u.lemma('C20.alive.cached-values-do-not-own-self', build)
    u.results[-1]['replay'] = {'fn': 'verif.props.c20:replay_alive', 'sizes': lambda st: [], 'concretise': lambda m, st, ob: {'method': 'all-but-collective'}}

    def build_inplace(ctx):
        """The value handed out by a cached method IS the cache entry: library code that binds it to a name must not update it in place
        (augmented assignment, subscript store, out= argument, in-place array methods), or a later call returns something else than an uncached
        recomputation would."""
        meths = _cached_methods(u.sources)
        cached_names = {name.split('.')[-1] for _m, name, _f in meths}
        goals = []
        INPLACE = {'sort', 'fill', 'resize', 'put', 'itemset', 'partition', 'setfield', 'byteswap', 'clear', 'append', 'extend', 'pop', 'remove', 'insert', 'update', 'setdefault'}
        n_fun = 0
        for module in ('gemdat.metrics', 'gemdat.transitions', 'gemdat.jumps', 'gemdat.collective', 'gemdat.rdf', 'gemdat.shape', 'gemdat.orientations', 'gemdat.path',
                       'gemdat.volume', 'gemdat.trajectory'):
            info = u.sources.load(module)
            if not info:
                continue
            for fname, fi in info['functions'].items():
                n_fun += 1
                bound = {}
                for node in ast.walk(fi.node):
                    if isinstance(node, ast.Assign) and isinstance(node.value, ast.Call) and isinstance(node.value.func, ast.Attribute) \
                            and node.value.func.attr in cached_names:
                        for t in node.targets:
                            if isinstance(t, ast.Name):
                                bound[t.id] = node.value.func.attr
                if not bound:
                    continue
                hits = []
                for node in ast.walk(fi.node):
                    if isinstance(node, ast.AugAssign):
                        base = node.target
                        while isinstance(base, (ast.Subscript, ast.Attribute)):
                            base = base.value
                        if isinstance(base, ast.Name) and base.id in bound:
                            hits.append(f'line {node.lineno}: {ast.unparse(node)[:60]}')
                    elif isinstance(node, (ast.Assign, ast.AnnAssign)):
                        for t in (node.targets if isinstance(node, ast.Assign) else [node.target]):
                            if isinstance(t, ast.Subscript):
                                base = t.value
                                while isinstance(base, (ast.Subscript, ast.Attribute)):
                                    base = base.value
                                if isinstance(base, ast.Name) and base.id in bound:
                                    hits.append(f'line {node.lineno}: {ast.unparse(node)[:60]}')
                    elif isinstance(node, ast.Call):
                        for kw in node.keywords:
                            if kw.arg == 'out' and isinstance(kw.value, ast.Name) and kw.value.id in bound:
                                hits.append(f'line {node.lineno}: out={kw.value.id}')
                        if isinstance(node.func, ast.Attribute) and node.func.attr in INPLACE and isinstance(node.func.value, ast.Name) and node.func.value.id in bound:
                            hits.append(f'line {node.lineno}: {ast.unparse(node)[:60]}')
                goals.append((f'{module}.{fname}: values obtained from cached methods {sorted(set(bound.values()))} are not updated in place {hits}', z3.BoolVal(not hits)))
        goals.append((f'{n_fun} functions scanned, {len(goals)} of them bind the result of a cached method', z3.BoolVal(n_fun >= 50 and len(goals) >= 3)))
        ctx.use('AST analysis: names bound to the result of a cached method are never the target of an in-place update in library code')
        return goals
    u.lemma('C20.transparent.cached-values-are-not-updated-in-place', build_inplace)
    u.results[-1]['replay'] = {'fn': 'verif.props.c20:replay_alive', 'sizes': lambda st: [], 'concretise': lambda m, st, ob: {'method': 'all-but-collective'}}
    return u


# ---------------------------------------------------------------------------------------------------------------

def _mk_jumps(seed):
    import numpy as np
    from verif.native.synth import make_transitions
    rng = np.random.default_rng(seed)
    T, N = 40, 2
    states = np.zeros((T, N), dtype=int)
    for x in range(N):
        cur = int(rng.integers(0, 3))
        for t in range(T):
            if rng.random() < 0.3:
                cur = int(rng.integers(-1, 3))
            states[t, x] = cur
    states[0, 0], states[1, 0], states[2, 0] = 0, 1, 2
    tr = make_transitions(states, n_sites=3, seed=seed)
    return tr, tr.jumps()


def replay_alive(inputs):
    """Caching must not keep its object alive: drop the last reference, collect, the weakref must be dead."""
    import gc
    import warnings
    import weakref
    warnings.filterwarnings('ignore')
    which = inputs.get('method', 'all-but-collective')
    bad = []
    tr, jumps = _mk_jumps(3)
    calls = {'Jumps.matrix': lambda j: j.matrix(), 'Jumps.jump_diffusivity': lambda j: j.jump_diffusivity(3), 'Jumps.counter': lambda j: j.counter(),
             'Jumps.to_graph': lambda j: j.to_graph(), 'Jumps.collective': lambda j: j.collective()}
    names = ['Jumps.collective'] if which == 'collective' else [n for n in calls if n != 'Jumps.collective']
    for nm in names:
        tr, jumps = _mk_jumps(5)
        calls[nm](jumps)
        w = weakref.ref(jumps)
        del jumps
        gc.collect()
        if w() is not None:
            bad.append(f'{nm}: the Jumps object is still alive after del + gc.collect() (the cache entry keeps it)')
    tr, jumps = _mk_jumps(7)
    tr.matrix(); tr.states_prev(); tr.states_next()
    w = weakref.ref(tr)
    wj = weakref.ref(jumps)
    del tr, jumps
    gc.collect()
    if which != 'collective' and (w() is not None or wj() is not None):
        bad.append('Transitions / Jumps kept alive by cached Transitions methods')
    return {'reproduced': bool(bad), 'detail': '; '.join(bad) or 'objects are collected after their last reference is dropped'}


def replay_interleaving(inputs):
    """Random interleaving of create / query / drop / collect with more live objects than the cache size; cached == uncached."""
    import gc
    import warnings
    import numpy as np
    from gemdat.caching import weak_lru_cache
    warnings.filterwarnings('ignore')
    rng = np.random.default_rng(inputs['seed'])
    bad = []

    class Box:
        computed = 0

        def __init__(self, v):
            self.v = v

        @weak_lru_cache()
        def f(self, k=0, *, scale=1):
            Box.computed += 1
            return (self.v * 1000 + k) * scale

        def g(self, k=0, *, scale=1):
            return (self.v * 1000 + k) * scale

        @weak_lru_cache()
        def f2(self, a=0, b=0):
            return (self.v, 'a', a, 'b', b)

        def g2(self, a=0, b=0):
            return (self.v, 'a', a, 'b', b)

        @weak_lru_cache()
        def h(self, k=0):
            if k >= 0:
                raise ValueError(f'cannot analyse {self.v}')
            return k
    live = []
    import weakref
    for step in range(int(inputs.get('steps', 300))):
        op = rng.choice(['create', 'create', 'query', 'query', 'query', 'drop', 'gc', 'churn'])
        if op == 'create' or not live:
            live.append(Box(int(rng.integers(0, 10 ** 6))))
        elif op == 'query':
            b = live[int(rng.integers(len(live)))]
            k, sc = int(rng.integers(0, 3)), int(rng.integers(1, 3))
            # optional parameters given by keyword in any subset and order
            if b.f2(b=k) != b.g2(b=k) or b.f2(a=k) != b.g2(a=k) or b.f2(k, b=sc) != b.g2(k, b=sc) or b.f2(b=sc, a=k) != b.g2(b=sc, a=k) or b.f2() != b.g2():
                bad.append(f'step {step}: cached value differs from recomputation for keyword arguments')
                break
            if b.f(k, scale=sc) != b.g(k, scale=sc) or b.f(k) != b.g(k):
                bad.append(f'step {step}: cached value differs from recomputation')
                break
            del b
        elif op == 'drop':
            i_ = int(rng.integers(len(live)))
            w = weakref.ref(live[i_])
            live[i_].f(1)
            for _rep in range(2):
                try:
                    live[i_].h(int(rng.integers(0, 3)))  # a cached method whose computation fails: the error propagates, nothing is kept
                    bad.append(f'step {step}: the failing cached method returned instead of raising')
                except ValueError:
                    pass
            del live[i_]
            gc.collect()
            if w() is not None:
                bad.append(f'step {step}: dropped object kept alive by the cache')
                break
        elif op == 'gc':
            gc.collect()
        else:
            # allocate-free-allocate to provoke address reuse
            ids = set()
            for _ in range(50):
                t = Box(int(rng.integers(0, 10 ** 6)))
                t.f(0)
                ids.add(id(t))
                v = t.f(0)
                if v != t.g(0):
                    bad.append(f'step {step}: stale value served after address reuse')
                del t
        if len(live) < 140 and rng.random() < 0.6:
            live.append(Box(int(rng.integers(0, 10 ** 6))))
    # real classes: cached vs __wrapped__
    tr, jumps = _mk_jumps(inputs['seed'])
    if not np.array_equal(type(jumps).matrix(jumps), type(jumps).matrix.__wrapped__(jumps)):
        bad.append('Jumps.matrix: cached != uncached')
    if dict(jumps.counter()) != dict(type(jumps).counter.__wrapped__(jumps)):
        bad.append('Jumps.counter: cached != uncached')
    # every cached method without required arguments, on real objects: cached value == uncached recomputation done afterwards on the same object
    import inspect
    from verif.native.purity import same as _same, snap as _snap
    objs = [tr, jumps, tr.trajectory.metrics()]
    try:
        objs.append(jumps.collective(max_dist=3.5))
    except Exception as e:
        bad.append(f'Jumps.collective raised {type(e).__name__}: {e}')
    for o in objs:
        for name, member in inspect.getmembers(type(o)):
            w = getattr(member, '__wrapped__', None)
            if w is None or name.startswith('_') or isinstance(member, property):
                continue
            sig = inspect.signature(w)
            if any(p_.default is inspect.Parameter.empty and p_.kind in (p_.POSITIONAL_OR_KEYWORD, p_.KEYWORD_ONLY) for n_, p_ in list(sig.parameters.items())[1:]):
                continue
            try:
                c_val = _snap(getattr(o, name)())
                c_again = _snap(getattr(o, name)())
                u_val = _snap(w(o))
            except ValueError:
                continue  # e.g. known finding C19-empty-part in Jumps.rates
            if not _same(c_val, u_val) or not _same(c_val, c_again):
                bad.append(f'{type(o).__name__}.{name}: cached value differs from an uncached recomputation on the same object')
    # cached methods with optional arguments on real objects, arguments by keyword in every subset
    import networkx as _nx
    for kw_ in ({'max_e_act': 0.3}, {'min_e_act': 0.05}, {'min_e_act': 0.05, 'max_e_act': 0.3}, {}):
        try:
            g_c, g_u = jumps.to_graph(**kw_), type(jumps).to_graph.__wrapped__(jumps, **kw_)
            if sorted(map(repr, g_c.edges(data=True))) != sorted(map(repr, g_u.edges(data=True))):
                bad.append(f'Jumps.to_graph({kw_}): cached graph differs from the uncached one')
        except (ValueError, _nx.NetworkXError):
            pass
    for kw_ in ({'dimensions': 2}, {'dimensions': 1}):
        m_ = tr.trajectory.metrics()
        if abs(float(m_.tracer_diffusivity(**kw_)) - float(type(m_).tracer_diffusivity.__wrapped__(m_, **kw_))) > 0:
            bad.append(f'tracer_diffusivity({kw_}): cached != uncached')
    tr2, jumps2 = _mk_jumps(inputs['seed'] + 1)
    if jumps.n_jumps != jumps2.n_jumps and np.array_equal(jumps.matrix(), jumps2.matrix()) and not np.array_equal(type(jumps).matrix.__wrapped__(jumps2), jumps.matrix()):
        bad.append('a result of one Jumps object was served for another')
    return {'reproduced': bool(bad), 'detail': '; '.join(bad[:3]) or f'{len(live)} live objects at the end'}


def bounded_interleavings(tier, seed):
    n = 6 if tier == 'quick' else 40  # 40 x 1500 steps take about a third of the job's wall-time budget on an idle machine (100 came within a quarter of it)
    steps = 250 if tier == 'quick' else 1500
    st = Stand('C20.interleavings', f'{n} random interleavings of {steps} steps (create / query with varying arguments / drop / gc / address churn, > 128 live objects), '
               'cached vs uncached on a probe class and on real Jumps objects; liveness via weakref + gc.collect()',
               'seeded random; every interleaving distinct and non-trivial (contains evictions and drops)')
    for c in range(n):
        inp = {'seed': seed * 100 + c + 1, 'steps': steps}
        r = st.guard(replay_interleaving, inp)
        if r is None:
            continue
        st.case(inp, nontrivial=True, sample=inp)
        if r['reproduced']:
            st.violation('interleaving', r['detail'], 'verif.props.c20:replay_interleaving', inp)
    r = st.guard(replay_alive, {'method': 'all-but-collective'})
    if r is not None:
        st.case({'alive': True}, nontrivial=True)
        if r['reproduced']:
            st.violation('alive', r['detail'], 'verif.props.c20:replay_alive', {'method': 'all-but-collective'})
    return st.result()


# generic purity stand-in (arguments unchanged, second call equal, fresh call equal) over this property's API calls
from verif.native.purity import make_bounded as _make_purity  # noqa: E402
from verif.props.purity_reg import REG as _PURITY_REG  # noqa: E402
PURITY = _PURITY_REG['C20']
bounded_purity = _make_purity('C20', PURITY)


# plumbing around the anchored functions: forwarding contracts of the public wrappers, no state shared between calls or objects
from verif.props import plumbing as _plumbing  # noqa: E402


def unit_plumbing(tier):
    return _plumbing.unit_plumbing(PROPERTY)


bounded_plumbing = _plumbing.make_bounded(PROPERTY)

"""C02 — site assignment follows the true minimum-image distance for every cell and radius."""
from __future__ import annotations

import z3

from verif.bounded import Stand
from verif.engine import values as V
from verif.engine import world as W
from verif.engine.core import Unsupported
from verif.engine.interp import PyFn, SymIter
from verif.engine.unit import Unit
from verif.engine.values import SObj, SSeq, STensor, as_tensor, to_z3
from verif.props.common import install_common, positions_contract, sym_trajectory

PROPERTY = 'C02'
MANIFEST = {
    'level_text': 'Proved for all lattices (any orientation), frame/atom/site counts, radii and inner fractions 0 < f <= 1, relative to the '
                  'assumed PeriodicKDTree contract: the coordinates handed to the tree are expressed in the tree\'s own cell orientation with '
                  'the same metric (C02.kd.box), the search radius never exceeds the tree cut-off, every (frame, atom) gets site k only if '
                  'mindist(position, site k) <= R and NOSITE only if no site is closer than R (ties at exactly R unspecified), the '
                  '(T*N) <-> (T,N) reshape bookkeeping is a bijection; per-label radii return the global index of the group member '
                  '(C02.remap) with integer_remap = key[rank in palette]; _compute_site_radius returns r with 2r <= minimal site distance '
                  'or raises. Inner-site subset of outer site and float-radius normalisation are proved on from_trajectory\'s call '
                  'arguments; uniqueness under non-overlap is bounded only.',
    'level_note': 'Trusted: MDAnalysis PeriodicKDTree(box).set_coords/search_tree contract (pairs within r under the minimum-image metric of '
                  'the box in its own a||x, b in xy orientation; float32 internals ignored), pymatgen Lattice.from_parameters(*params, '
                  'vesta=True) has the same metric and the MDAnalysis orientation (conformance-tested, not proved), numpy contracts, '
                  'Trajectory.positions contract (C01), pyvc itself.',
    'technique': 'deductive: VCs from the real AST of _calculate_atom_states (single-radius and per-label paths), integer_remap, '
                 '_compute_site_radius, Transitions.from_trajectory; z3; counter-models replayed natively against a brute-force '
                 'minimum-image oracle; random rotated/triclinic cells as bounded stand-in',
}
UNITS = ['unit_states_two_labels', 'unit_integer_remap', 'unit_states_single', 'unit_states_label', 'unit_site_radius', 'unit_from_trajectory', 'unit_plumbing']
BOUNDED = ['bounded_states', 'bounded_lattice_conformance', 'bounded_purity', 'bounded_plumbing']
META = {
    'clauses': {'C02.kd.box': 'P (obligation at search_tree: tree-orientation lattice with the same metric)', 'C02.kd.cutoff': 'P',
                'C02.remap': 'P', 'C02.scatter': 'P', 'C02.reshape': 'P', 'C02.auto': 'P', 'inner subset of outer': 'P on call arguments + B',
                'uniqueness under non-overlap': 'B'},
    'not_decided': ['tie at distance exactly R; float32 rounding inside MDAnalysis (A-REAL)',
                    'uniqueness of the assignment for non-overlapping spheres (needs triangle inequality of mindist): bounded stand-in'],
}
FN = 'gemdat.transitions._calculate_atom_states'


def _install_tree(u, rec):
    """Assumed contracts: Lattice.parameters / from_parameters(vesta=True), PeriodicKDTree."""
    install_common(u)
    u.contracts['gemdat.trajectory.Trajectory.positions'] = positions_contract

    def from_parameters(interp, line, *params, vesta=False):
        ctx = interp.ctx
        lat = ctx.ghost['lattice_obj']
        same = len(params) == 6 and all(z3.is_expr(p) and p.eq(q) for p, q in zip(params, lat.get('parameters')))
        if not same:
            raise Unsupported('Lattice.from_parameters with parameters other than lattice.parameters')
        ctx.use('pymatgen Lattice.from_parameters(*L.parameters, vesta=True): same metric tensor as L, MDAnalysis orientation '
                '(a along x, b in the xy plane); without vesta=True the orientation is pymatgen\'s own')
        m = [[z3.Real(f'treelat_m{i}{j}') for j in range(3)] for i in range(3)]
        mat = STensor((3, 3), lambda i, j: W._tab(m, i, j), 'real')
        new = SObj('Lattice', matrix=mat, _id=lat.get('_id'), _m=m, volume=lat.get('volume'), lengths=lat.get('lengths'), abc=lat.get('abc'),
                   parameters=lat.get('parameters'), _orient='mda' if vesta is True else 'pymatgen', _gid=lat.get('_gid'))
        return new
    u.lib['pymatgen.core.Lattice.from_parameters'] = from_parameters

    def np_array(interp, line, obj, dtype=None, **kw):
        lat = interp.ctx.ghost.get('lattice_obj')
        if isinstance(obj, tuple) and len(obj) == 6 and lat is not None and all(z3.is_expr(p) and p.eq(q) for p, q in zip(obj, lat.get('parameters'))):
            return SObj('BoxArray', of=lat)
        return u.np.f_array(interp, line, obj, dtype=dtype, **kw)
    u.lib['numpy.array'] = np_array

    def pkdtree(interp, line, box=None):
        if not (isinstance(box, SObj) and box._cls == 'BoxArray'):
            raise Unsupported('PeriodicKDTree box that is not lattice.parameters')
        t = SObj('PKDTree', box_of=box.get('of'))
        rec['tree'] = t
        return t
    u.lib['MDAnalysis.lib.pkdtree.PeriodicKDTree'] = pkdtree

    def set_coords(interp, line, tree, X, cutoff=None):
        tree.set('coords', X)
        tree.set('cutoff', cutoff)
        return None
    u.obj_attrs[('PKDTree', 'set_coords')] = lambda i, o, l: PyFn(lambda ii, ll, *a, **k: set_coords(ii, ll, o, *a, **k))

    def search_tree(interp, line, tree, C, radius):
        ctx = interp.ctx
        fn = interp.cur_func
        X = tree.get('coords')
        cutoff = tree.get('cutoff')
        ctx.oblige(f'{fn}.search-radius<=tree-cutoff@{line}', to_z3(V.cmpop('<=', radius, cutoff)), kind='pre-call', line=line)
        box_lat = tree.get('box_of')
        for what, arr in (('trajectory', X), ('sites', C)):
            src = getattr(arr, 'cart_of', None)
            if src is None:
                ctx.oblige(f'{fn}.tree-coordinates({what})-are-cartesian-images-of-fractional-coordinates@{line}', False, kind='pre-call', line=line)
                raise Unsupported('coordinates of unknown origin handed to the KD-tree')
            frac, lat = src
            same_metric = lat.get('_gid') == box_lat.get('_gid')
            ctx.oblige(f'{fn}.tree-box-and-{what}-coordinates-use-the-same-cell-metric@{line}', z3.BoolVal(bool(same_metric)), kind='pre-call', line=line)
            if lat.get('_orient') == 'mda':
                ctx.oblige(f'{fn}.{what}-coordinates-in-the-tree-orientation@{line}', True, kind='pre-call', line=line)
            else:
                # an arbitrary matrix M is in the tree's orientation iff it is lower triangular with positive diagonal
                m = lat.get('_m')
                tri = z3.And(m[0][1] == 0, m[0][2] == 0, m[1][2] == 0, m[0][0] > 0, m[1][1] > 0, m[2][2] > 0)
                ctx.oblige(f'{fn}.{what}-coordinates-in-the-tree-orientation@{line}', tri, kind='pre-call', line=line)
                ctx.assume(tri)
        Xf, Cf = X.cart_of[0], C.cart_of[0]
        lid = box_lat.get('_id')
        P = ctx.fresh_int('n_pairs')
        ps = ctx.fresh_fun('pair_site', z3.IntSort(), z3.IntSort())
        pa = ctx.fresh_fun('pair_atom', z3.IntSort(), z3.IntSort())
        pidx = ctx.fresh_fun('pair_of', z3.IntSort(), z3.IntSort(), z3.IntSort())
        nS, nA = to_z3(Cf.shape[0]), to_z3(Xf.shape[0])
        k, j, i = z3.Int(ctx.name('k')), z3.Int(ctx.name('j')), z3.Int(ctx.name('i'))
        R = V.to_real(radius)

        def dist(jj, ii):
            return W.MINDIST(lid, *[V.to_real(Cf.at(jj, c)) for c in range(3)], *[V.to_real(Xf.at(ii, c)) for c in range(3)])
        ctx.assume(P >= 0)
        ctx.assume(z3.ForAll([k], z3.Implies(z3.And(k >= 0, k < P), z3.And(ps(k) >= 0, ps(k) < nS, pa(k) >= 0, pa(k) < nA,
                                                                           dist(ps(k), pa(k)) <= R)), patterns=[ps(k), pa(k)]))
        ctx.assume(z3.ForAll([j, i], z3.Implies(z3.And(j >= 0, j < nS, i >= 0, i < nA, dist(j, i) < R),
                                                z3.And(pidx(j, i) >= 0, pidx(j, i) < P, ps(pidx(j, i)) == j, pa(pidx(j, i)) == i)),
                             patterns=[pidx(j, i)]))
        ctx.inst_axioms.append((2, lambda jj, ii: z3.Implies(z3.And(jj >= 0, jj < nS, ii >= 0, ii < nA, dist(jj, ii) < R),
                                                             z3.And(pidx(jj, ii) >= 0, pidx(jj, ii) < P, ps(pidx(jj, ii)) == jj, pa(pidx(jj, ii)) == ii))))
        ctx.use('MDAnalysis PeriodicKDTree.search_tree(C, r): exactly the pairs (site j, point i) with minimum-image distance <= r in the '
                'box (pairs at distance exactly r unspecified; float32 internals ignored)')
        out = STensor((P, 2), lambda a, b: V.z_ite(V.cmpop('==', b, 0), ps(to_z3(a)), pa(to_z3(a))), 'int')
        rec.setdefault('searches', []).append({'P': P, 'ps': ps, 'pa': pa, 'pidx': pidx, 'dist': dist, 'R': R, 'Xf': Xf, 'Cf': Cf})
        return out
    u.obj_attrs[('PKDTree', 'search_tree')] = lambda i, o, l: PyFn(lambda ii, ll, *a, **k: search_tree(ii, ll, o, *a, **k))


def _sites(ctx, lat):
    S = z3.Int('n_sites')
    ctx.assume(S >= 1)
    return S, W.sym_structure(ctx, 'sites', S, lat)


def unit_integer_remap(tier):
    """integer_remap(a, key, palette): for strictly increasing palette and a[i] in palette, out[i] = key[rank of a[i] in palette]."""
    u = Unit('C02.integer_remap')

    def setup(interp):
        ctx = interp.ctx
        n, m = z3.Int('len_a'), z3.Int('len_palette')
        ctx.assume(z3.And(n >= 0, m >= 1))
        af = z3.Function('a', z3.IntSort(), z3.IntSort())
        pf = z3.Function('palette', z3.IntSort(), z3.IntSort())
        kf = z3.Function('key', z3.IntSort(), z3.IntSort())
        rk = z3.Function('rank_of', z3.IntSort(), z3.IntSort())
        i, j = z3.Ints('ri rj')
        ctx.assume(z3.ForAll([i, j], z3.Implies(z3.And(i >= 0, i < j, j < m), pf(i) < pf(j))), tag='requires: palette strictly increasing')
        ctx.assume(z3.ForAll([i], z3.Implies(z3.And(i >= 0, i < n), z3.And(rk(i) >= 0, rk(i) < m, pf(rk(i)) == af(i))), patterns=[af(i)]),
                   tag='requires: every value of a occurs in palette')
        a = STensor((n,), lambda x: af(to_z3(x)), 'int')
        key = STensor((m,), lambda x: kf(to_z3(x)), 'int')
        pal = STensor((m,), lambda x: pf(to_z3(x)), 'int')
        return [], {'a': a, 'key': key, 'palette': pal}, {'n': n, 'm': m, 'af': af, 'pf': pf, 'kf': kf, 'rk': rk}

    def post(interp, st, res):
        i = z3.Int('pi')
        return [('shape', res.shape[0] == st['n']),
                ('out[i] = key[rank(a[i])]', z3.ForAll([i], z3.Implies(z3.And(i >= 0, i < st['n']), res.at(i) == st['kf'](st['rk'](i)))))]

    def conc(model, st, ob):
        n = model.eval(st['n'], model_completion=True).as_long()
        m = model.eval(st['m'], model_completion=True).as_long()
        ev = lambda f, k: model.eval(f(k), model_completion=True).as_long()  # noqa: E731
        return {'a': [ev(st['af'], k) for k in range(n)], 'palette': [ev(st['pf'], k) for k in range(m)], 'key': [ev(st['kf'], k) for k in range(m)]}
    u.prove_function('gemdat.utils', 'integer_remap', setup, post, raises=(),
                     replay={'fn': 'verif.props.c02:replay_remap', 'concretise': conc, 'sizes': lambda st: [st['n'], st['m']]})
    return u


def _states_post(rec, st, res, key_of=None):
    """Sandwich spec of the assignment in terms of the pairs contract and the minimum-image distance."""
    out = []
    T, N, pos = st['T'], st['N'], st['pos']
    if not rec.get('searches'):
        return [('one tree search per radius entry', z3.BoolVal(False))]
    s = rec['searches'][-1]
    t, a, j = z3.Ints('pt pa pj')
    sf = st['sites'].get('_sf')
    lid = st['lat'].get('_id')
    R = s['R']
    nS = to_z3(s['Cf'].shape[0])

    def d_site(jj):  # distance between the position of (t,a) and search centre jj
        return W.MINDIST(lid, *[V.to_real(s['Cf'].at(jj, c)) for c in range(3)], pos(t, a, 0), pos(t, a, 1), pos(t, a, 2))
    rng = z3.And(t >= 0, t < T, a >= 0, a < N)
    out.append(('shape (T,N)', z3.And(res.shape[0] == T, res.shape[1] == N)))
    kmap = key_of or (lambda jj: jj)
    out.append(('assigned => within the radius of that site', z3.ForAll([t, a], z3.Implies(
        z3.And(rng, res.at(t, a) != -1), z3.Exists([j], z3.And(j >= 0, j < nS, res.at(t, a) == kmap(j), d_site(j) <= R))))))
    out.append(('NOSITE => no site strictly within the radius', z3.ForAll([t, a, j], z3.Implies(
        z3.And(rng, res.at(t, a) == -1, j >= 0, j < nS), d_site(j) >= R))))
    return out


def _frame_table(st):
    """the radius table belongs to the caller: _calculate_atom_states must not modify it (from_trajectory passes the same dict twice, users re-use it)"""
    tab, orig = st.get('radius_table'), st.get('radius_table_orig')
    if tab is None:
        return []
    same_keys = list(tab) == list(orig)
    return [('the caller\'s radius table is not modified', z3.And(z3.BoolVal(same_keys), *[V.to_real(tab[k]) == V.to_real(orig[k]) for k in orig if k in tab]))]


def _traj_sites(interp, rec):
    ctx = interp.ctx
    traj, st = sym_trajectory(ctx)
    S, sites = _sites(ctx, st['lat'])
    st.update({'S': S, 'sites': sites})
    f = z3.Real('site_inner_fraction')
    r = z3.Real('radius')
    ctx.assume(z3.And(f > 0, f <= 1, r > 0))
    st.update({'f': f, 'r': r})
    return traj, sites, st


def _conc_states(model, st, ob):
    def rv(x):
        v = model.eval(x, model_completion=True)
        if z3.is_rational_value(v):
            return float(v.numerator_as_long()) / float(v.denominator_as_long())
        a = v.approx(12)
        return float(a.numerator_as_long()) / float(a.denominator_as_long())
    T = model.eval(st['T'], model_completion=True).as_long()
    N = model.eval(st['N'], model_completion=True).as_long()
    S = model.eval(st['S'], model_completion=True).as_long()
    if T * N > 40 or S > 8:
        raise ValueError('too large')
    m = st['lat'].get('_m')
    return {'matrix': [[rv(m[i][j]) for j in range(3)] for i in range(3)], 'model_positions': [[[rv(st['pos'](t, a, c)) for c in range(3)] for a in range(N)] for t in range(T)],
            'fallback_seed': 7}


def unit_states_single(tier):
    u = Unit('C02.states_single')
    rec = {}
    _install_tree(u, rec)

    def setup(interp):
        rec.clear()
        traj, sites, st = _traj_sites(interp, rec)
        st['radius_table'] = {'': st['r']}
        st['radius_table_orig'] = dict(st['radius_table'])
        return [], {'sites': sites, 'trajectory': traj, 'site_radius': st['radius_table'], 'site_inner_fraction': st['f']}, st

    def post(interp, st, res):
        out = _states_post(rec, st, res) + _frame_table(st)
        s = rec['searches'][-1] if rec.get('searches') else None
        if s is not None:
            out.append(('search radius = radius * inner fraction', s['R'] == st['r'] * st['f']))
            j, c = z3.Ints('cj cc')
            sf = st['sites'].get('_sf')
            out.append(('search centres are the site coordinates', z3.ForAll([j, c], z3.Implies(z3.And(j >= 0, j < st['S'], c >= 0, c < 3), s['Cf'].at(j, c) == sf(j, c)))))
            out.append(('all sites searched', to_z3(s['Cf'].shape[0]) == st['S']))
        return out
    u.prove_function('gemdat.transitions', '_calculate_atom_states', setup, post, raises=(),
                     label='gemdat.transitions._calculate_atom_states[single radius]',
                     replay={'fn': 'verif.props.c02:replay_states', 'concretise': _conc_states, 'sizes': lambda st: [st['T'], st['N'], st['S']]})
    return u


def unit_states_label(tier):
    """Per-label radii {L1: r1} and {L1: r1, L2: r2}: each label group is searched with its own radius and the reported index
    is the GLOBAL site index; an unvisited group must not stop the remaining labels from being processed."""
    u = Unit('C02.states_label')
    rec = {}
    _install_tree(u, rec)
    _label_run(u, rec, ['Li1'])
    return u


def unit_states_two_labels(tier):
    u = Unit('C02.states_two_labels')
    rec = {}
    _install_tree(u, rec)
    _label_run(u, rec, ['Li1', 'Li2'])
    return u


def _label_run(u, rec, LABS):
    def setup(interp):
        rec.clear()
        ctx = interp.ctx
        traj, sites, st = _traj_sites(interp, rec)
        S = st['S']
        lab = sites.get('_lab')
        codes = [z3.Int(f'code_of_{name}') for name in LABS]
        radii = [st['r']] + [z3.Real(f'radius_{k}') for k in range(1, len(LABS))]
        for k, cd in enumerate(codes):
            g = z3.Int(f'some_member_{k}')
            ctx.assume(z3.And(g >= 0, g < S, lab(g) == cd), tag='requires: every label of the radius table occurs among the sites')
            ctx.assume(radii[k] > 0)
        if len(codes) == 2:
            ctx.assume(codes[0] != codes[1])
        st.update({'lab': lab, 'codes': codes, 'radii': radii, 'grps': {}})
        sf = sites.get('_sf')

        def iterate_hook(i_, v, line):
            if v is sites:
                return SymIter(S, lambda k: SObj('PeriodicSite', _k=k, frac_coords=STensor((3,), (lambda kk: (lambda c: sf(to_z3(kk), to_z3(c))))(k), 'real'),
                                                 label=SObj('Label', code=lab(to_z3(k)))))
            if isinstance(v, SObj) and v._cls == 'Unzip':
                return [v]
            return NotImplemented
        u.iterate_hook = iterate_hook

        def compare_hook(i_, op, a, b, line):
            if isinstance(a, SObj) and a._cls == 'Label' and b in LABS:
                cd = codes[LABS.index(b)]
                i_.ctx.ghost['cur_label'] = LABS.index(b)
                return (a.get('code') == cd) if op == '==' else (a.get('code') != cd)
            return NotImplemented
        u.compare_hook = compare_hook

        def filter_comprehension(i_, node, gen, it, env):
            """((k, site) for k, site in enumerate(sites) if site.label == label) -> the label group as an ordered selection"""
            from verif.engine.values import SIdx
            label = env.get('label', i_)
            li = LABS.index(label)
            cd = codes[li]
            grp = SIdx(i_.ctx, S, lambda x: lab(x) == cd, base=f'group{li}')
            st['grps'][li] = grp
            seq = SSeq(grp.L, lambda q: (grp.pos(to_z3(q)), it.item(grp.pos(to_z3(q)))[1]))
            return SObj('Unzip', seq=seq, grp=grp)
        u.filter_comprehension = filter_comprehension
        st['radius_table'] = {name: radii[k] for k, name in enumerate(LABS)}
        st['radius_table_orig'] = dict(st['radius_table'])
        return [], {'sites': sites, 'trajectory': traj, 'site_radius': st['radius_table'], 'site_inner_fraction': st['f']}, st

    def patch_interp(interp):
        if getattr(interp, '_c02_patched', False):
            return
        interp._c02_patched = True
        ob = interp.call_builtin

        def call_builtin(name, args, kwargs, line):
            if name == 'zip' and len(args) == 1 and isinstance(args[0], SObj) and args[0]._cls == 'Unzip':
                seq = args[0].get('seq')
                keys = SSeq(seq.length, lambda q: seq.fn(q)[0])
                grp_sites = SSeq(seq.length, lambda q: seq.fn(q)[1])
                if interp.ctx.branch(V.cmpop('==', seq.length, 0), line):
                    from verif.engine.interp import _Raise
                    raise _Raise('ValueError', line=line)
                return [keys, grp_sites]
            return ob(name, args, kwargs, line)
        interp.call_builtin = call_builtin

    def setup2(interp):
        patch_interp(interp)
        return setup(interp)

    def post(interp, st, res):
        grps = st.get('grps', {})
        searches = rec.get('searches', [])
        out = [('one tree search per label, in table order', z3.BoolVal(len(searches) == len(LABS) and sorted(grps) == list(range(len(LABS)))))] + _frame_table(st)
        if len(searches) != len(LABS) or sorted(grps) != list(range(len(LABS))):
            return out
        T, N, pos = st['T'], st['N'], st['pos']
        t, a, j = z3.Ints('pt pa pj')
        lid = st['lat'].get('_id')
        sf = st['sites'].get('_sf')
        rng = z3.And(t >= 0, t < T, a >= 0, a < N)

        def d_glob(k):
            return W.MINDIST(lid, sf(k, 0), sf(k, 1), sf(k, 2), pos(t, a, 0), pos(t, a, 1), pos(t, a, 2))
        out.append(('shape (T,N)', z3.And(res.shape[0] == T, res.shape[1] == N)))
        some = []
        for li in range(len(LABS)):
            grp, s = grps[li], searches[li]
            R = s['R']
            out.append((f'[{LABS[li]}] search radius = its radius * inner fraction', R == st['radii'][li] * st['f']))
            c = z3.Int('cc')
            out.append((f'[{LABS[li]}] search centres are the group members, in order', z3.And(
                to_z3(s['Cf'].shape[0]) == grp.L,
                z3.ForAll([j, c], z3.Implies(z3.And(j >= 0, j < grp.L, c >= 0, c < 3), s['Cf'].at(j, c) == sf(grp.pos(j), c))))))
            some.append(z3.Exists([j], z3.And(j >= 0, j < grp.L, res.at(t, a) == grp.pos(j), d_glob(grp.pos(j)) <= R)))
            out.append((f'[{LABS[li]}] NOSITE => no member strictly within its radius', z3.ForAll([t, a, j], z3.Implies(
                z3.And(rng, res.at(t, a) == -1, j >= 0, j < grp.L), d_glob(grp.pos(j)) >= R))))
        out.append(('assigned => global index of a group member within that label\'s radius', z3.ForAll([t, a], z3.Implies(z3.And(rng, res.at(t, a) != -1), z3.Or(*some)))))
        return out
    u.prove_function('gemdat.transitions', '_calculate_atom_states', setup2, post, raises=(),
                     label=f'gemdat.transitions._calculate_atom_states[per-label radii: {len(LABS)}]',
                     replay={'fn': 'verif.props.c02:replay_states', 'sizes': lambda st: [st['T'], st['N'], st['S']],
                             'concretise': lambda model, st, ob: {'labelled': True, 'fallback_seed': 11, 'unvisited_first': True}})


def unit_site_radius(tier):
    """_compute_site_radius: returns r with 2r <= min_{i<j} mindist(site_i, site_j) (open spheres disjoint) and r > 0.245, or
    raises ValueError exactly when the reduced radius would be below 0.25."""
    u = Unit('C02.site_radius')
    install_common(u)

    def setup(interp):
        ctx = interp.ctx
        traj, st = sym_trajectory(ctx)
        S, sites = _sites(ctx, st['lat'])
        ctx.assume(S >= 2)
        va = z3.Real('vibration_amplitude')
        ctx.assume(va > 0)
        # np.triu_indices_from(pdist, k=1) + np.min: the minimum over i<j of the pair distances (assumed numpy contract)
        mind = z3.Real('min_pair_distance')
        sf = sites.get('_sf')
        lid = st['lat'].get('_id')
        i, j = z3.Ints('si sj')
        d = lambda a, b: W.MINDIST(lid, sf(a, 0), sf(a, 1), sf(a, 2), sf(b, 0), sf(b, 1), sf(b, 2))  # noqa: E731
        wi, wj = z3.Ints('wit_i wit_j')
        ctx.assume(z3.ForAll([i, j], z3.Implies(z3.And(i >= 0, i < j, j < S), mind <= d(i, j))), tag='numpy.min over triu_indices_from(k=1): lower bound of all pair distances, attained')
        ctx.assume(z3.And(wi >= 0, wi < wj, wj < S, mind == d(wi, wj)))
        u.lib['numpy.triu_indices_from'] = lambda ii, ll, a, k=0: SObj('Triu', of=a, k=k)
        orig_index = u.np.index

        def index(ii, t, idx, line, check=True):
            if isinstance(idx, SObj) and idx._cls == 'Triu':
                out = SObj('TriuValues', of=t, k=idx.get('k'))
                return out
            return orig_index(ii, t, idx, line, check=check)
        u.np.index = index
        def np_min(ii, ll, a):
            if not (isinstance(a, SObj) and a._cls == 'TriuValues' and a.get('k') == 1):
                raise Unsupported('np.min form')
            t = a.get('of')
            p_, q_ = z3.Ints('pi pj')
            # the matrix whose strict upper triangle is minimised must be the matrix of minimum-image distances between the sites
            ii.ctx.oblige(f'{ii.cur_func}.pair-distances-are-minimum-image-distances-of-the-sites@{ll}',
                          z3.And(to_z3(t.shape[0]) == S, to_z3(t.shape[1]) == S,
                                 z3.ForAll([p_, q_], z3.Implies(z3.And(p_ >= 0, p_ < q_, q_ < S), V.to_real(t.at(p_, q_)) == d(p_, q_)))), kind='pre', line=ll)
            return mind
        u.lib['numpy.min'] = np_min
        u.lib['numpy.argwhere'] = lambda ii, ll, a: []
        st.update({'S': S, 'sites': sites, 'va': va, 'mind': mind})
        return [], {'trajectory': traj, 'sites': sites, 'vibration_amplitude': va}, st

    def post(interp, st, r):
        return [('spheres do not overlap: 2r <= minimal site distance', 2 * r <= st['mind']),
                ('never larger than twice the amplitude', r <= 2 * st['va'])]

    def on_raise(interp, st, exc):
        return [('raises only when sites are closer than 0.51 A', st['mind'] < z3.RealVal('51/100'))]
    u.prove_function('gemdat.transitions', '_compute_site_radius', setup, post, raises=('ValueError',), on_raise=on_raise,
                     replay={'fn': 'verif.props.c02:replay_states', 'sizes': lambda st: [], 'concretise': lambda m, st, ob: {'auto_radius': True, 'fallback_seed': 5}})
    return u


def unit_from_trajectory(tier):
    """Transitions.from_trajectory: a float radius becomes {'': r}; states use fraction 1, inner states the given fraction, both
    with the same sites/trajectory/radius dict; automatic radius comes from _compute_site_radius."""
    u = Unit('C02.from_trajectory')
    calls = []

    def states_contract(interp, sites=None, trajectory=None, site_radius=None, site_inner_fraction=1.0):
        res_ = STensor((z3.Int('T'), z3.Int('N')), lambda t, a: z3.Int('opaque'), 'int')
        calls.append({'sites': sites, 'trajectory': trajectory, 'site_radius': site_radius, 'f': site_inner_fraction, 'result': res_})
        return res_
    u.contracts['gemdat.transitions._calculate_atom_states'] = states_contract
    u.contracts['gemdat.transitions._calculate_transition_events'] = lambda interp, atom_sites=None, atom_inner_sites=None: SObj('Events', a=atom_sites, b=atom_inner_sites)
    u.contracts['gemdat.trajectory.Trajectory.filter'] = lambda interp, self, species: SObj('Trajectory', _filtered=species, _of=self)
    auto = z3.Real('auto_radius')
    u.contracts['gemdat.transitions._compute_site_radius'] = lambda interp, trajectory=None, sites=None, vibration_amplitude=None: auto
    u.constructors['TrajectoryMetrics'] = lambda i, a, k, l: SObj('TrajectoryMetrics', trajectory=a[0])
    u.obj_attrs[('TrajectoryMetrics', 'vibration_amplitude')] = lambda i, o, l: PyFn(lambda ii, ll: z3.Real('vib'))
    for mode in ('float', 'dict', 'none'):
        def setup(interp, mode=mode):
            calls.clear()
            sites = SObj('Structure', is_ordered=True)
            traj = SObj('Trajectory')
            f = z3.Real('site_inner_fraction')
            r = z3.Real('radius')
            rad = r if mode == 'float' else ({'A': r, 'B': z3.Real('radius_B')} if mode == 'dict' else None)
            from verif.engine.interp import ClassRef
            return [ClassRef('gemdat.transitions', 'Transitions')], {'trajectory': traj, 'sites': sites, 'floating_specie': 'Li', 'site_radius': rad, 'site_inner_fraction': f}, \
                {'sites': sites, 'traj': traj, 'f': f, 'r': r, 'rad': rad}

        def post(interp, st, res, mode=mode):
            ok = len(calls) == 2
            out = [('two state computations', z3.BoolVal(ok))]
            if not ok:
                return out
            c0, c1 = calls
            out.append(('outer states use the full radius', z3.BoolVal(isinstance(c0['f'], float) and c0['f'] == 1.0)))
            out.append(('inner states use the given fraction', z3.BoolVal(c1['f'] is st['f'])))
            out.append(('same sites and radius table for both', z3.BoolVal(c0['sites'] is st['sites'] and c1['sites'] is st['sites'] and c0['site_radius'] is c1['site_radius'])))
            out.append(('both on the filtered (diffusing) trajectory', z3.BoolVal(all(isinstance(c['trajectory'], SObj) and c['trajectory'].has('_filtered') and c['trajectory'].get('_filtered') == 'Li' and c['trajectory'].get('_of') is st['traj'] for c in calls))))
            sr = c0['site_radius']
            if mode == 'float':
                out.append(('float radius becomes the unlabelled entry', z3.BoolVal(isinstance(sr, dict) and list(sr) == [''] and sr[''] is st['r'])))
            elif mode == 'dict':
                out.append(('per-label radii passed through', z3.BoolVal(sr is st['rad'])))
            else:
                out.append(('automatic radius from _compute_site_radius', z3.BoolVal(isinstance(sr, dict) and list(sr) == [''] and z3.is_expr(sr['']) and sr[''].eq(auto))))
            ev = res.get('events') if isinstance(res, SObj) and res.has('events') else None
            out.append(('events built from (states, inner states)', z3.BoolVal(isinstance(ev, SObj) and ev._cls == 'Events' and ev.get('a') is c0['result'] and ev.get('b') is c1['result'])))
            out.append(('the full-radius states become .states and the inner-fraction states .inner_states', z3.BoolVal(
                isinstance(res, SObj) and res.has('states') and res.get('states') is c0['result'] and res.has('inner_states') and res.get('inner_states') is c1['result'])))
            out.append(('the object keeps the full trajectory, the diffusing-species trajectory and the sites it was built from', z3.BoolVal(
                isinstance(res, SObj) and res.has('trajectory') and res.get('trajectory') is st['traj'] and res.has('sites') and res.get('sites') is st['sites']
                and res.has('diff_trajectory') and res.get('diff_trajectory') is c0['trajectory'])))
            return out
        u.prove_function('gemdat.transitions', 'Transitions.from_trajectory', setup, post, raises=(), label=f'gemdat.transitions.Transitions.from_trajectory[radius:{mode}]',
                         replay={'fn': 'verif.props.c02:replay_states', 'sizes': lambda st: [], 'concretise': lambda m, st, ob: {'fallback_seed': 3}})
    return u


# ---------------------------------------------------------------------------------------------------------------

def replay_remap(inputs):
    import numpy as np
    from gemdat.utils import integer_remap
    a, pal, key = np.array(inputs['a'], dtype=int), np.array(inputs['palette'], dtype=int), np.array(inputs['key'], dtype=int)
    if len(pal) == 0 or (np.diff(pal) <= 0).any() or not set(a.tolist()) <= set(pal.tolist()):
        return {'reproduced': False, 'detail': 'precondition not met'}
    res = integer_remap(a, key, palette=pal)
    exp = np.array([key[list(pal).index(v)] for v in a], dtype=int)
    return {'reproduced': bool((res != exp).any()), 'detail': f'a={a.tolist()} palette={pal.tolist()} key={key.tolist()} -> {res.tolist()}, expected {exp.tolist()}'}


def _brute_states(lat, positions, site_frac, radius_of, labels, f):
    """Brute-force oracle: for each position the set of admissible answers (ties and overlaps give several)."""
    import numpy as np
    from verif.native.synth import brute_mindist
    T, N, _ = positions.shape
    d = brute_mindist(lat.matrix, positions.reshape(-1, 3), site_frac, rng=3).reshape(T, N, -1)
    return d


def replay_states(inputs):
    import numpy as np
    from pymatgen.core import Lattice
    from verif.native.synth import hopping_system, random_rotation
    from gemdat.transitions import Transitions, _calculate_atom_states
    seed = inputs.get('fallback_seed', 1)
    rng = np.random.default_rng(seed)
    matrix = inputs.get('matrix')
    fam = inputs.get('family')
    traj, sites, info = hopping_system(seed, n_frames=inputs.get('n_frames', 25), n_diff=3, n_sites=inputs.get('n_sites', 5), family=fam,
                                       rotate=inputs.get('rotate', True), labels=inputs.get('labels'), vib=0.25)
    if inputs.get('skewed_pair'):
        # a 60-degree cell with two sites whose nearest periodic image is NOT the component-wise nearest one (fractional difference (0.45, 0.45, 0)):
        # the automatic radius must be limited by their true distance
        from pymatgen.core import Structure
        M0 = Lattice.from_parameters(6.0, 6.0, 7.0, 90, 90, 60).matrix
        sp0 = np.array([[0.1, 0.1, 0.5], [0.55, 0.55, 0.5], [0.1, 0.6, 0.1]])
        traj, sites, info = hopping_system(seed, n_frames=20, n_diff=2, n_sites=3, site_positions=sp0, labels=['A', 'B', 'A'], vib=0.25, rotate=False, family='cubic')
        matrix = (M0 @ random_rotation(rng).T).tolist() if inputs.get('rotate', True) else M0.tolist()
    if matrix is not None:
        M = np.array(matrix, dtype=float)
        if abs(np.linalg.det(M)) > 1e-3 and np.all(np.linalg.norm(M, axis=1) < 50) and np.all(np.linalg.norm(M, axis=1) > 1.5):
            from gemdat.trajectory import Trajectory
            from pymatgen.core import Structure
            traj = Trajectory(species=traj.species, coords=traj.positions, lattice=M, time_step=1e-15, metadata={'temperature': 300})
            sites = Structure(Lattice(M), ['Li'] * len(sites), sites.frac_coords, labels=sites.labels)
    lat = __import__('pymatgen.core', fromlist=['Lattice']).Lattice(__import__('numpy').array(traj.lattice, dtype=float).reshape(3, 3))  # the raw cell the trajectory was built with, not the library's get_lattice()
    diff = traj.filter('Li')
    labels = list(sites.labels)
    f = float(inputs.get('inner_fraction', 1.0))
    if inputs.get('labelled'):
        radius = {lab: float(r) for lab, r in zip(sorted(set(labels)), [0.9, 1.2, 0.7, 0.8])}
        if inputs.get('unvisited_first'):
            # put the labels nobody comes near first (an unvisited group must not hide the later ones)
            from verif.native.synth import brute_mindist
            dmin = brute_mindist(lat.matrix, diff.positions.reshape(-1, 3), sites.frac_coords, rng=3).min(axis=0)
            far = [lab for lab in radius if all(dmin[k] > radius[lab] + 0.05 for k in range(len(labels)) if labels[k] == lab)]
            radius = {**{lab: radius[lab] for lab in far}, **{lab: r for lab, r in radius.items() if lab not in far}}
        if inputs.get('single_entry'):
            # a table with one entry that names only some of the labels: the sites of the other labels take no atoms
            keep = sorted(radius)[int(inputs['single_entry']) % len(radius)]
            radius = {keep: max(radius[keep], 1.0)}
    else:
        radius = {'': float(inputs.get('radius', 1.0))}
    bad = []
    try:
        if inputs.get('auto_radius'):
            from gemdat.transitions import _compute_site_radius
            from gemdat.metrics import TrajectoryMetrics
            r = _compute_site_radius(trajectory=traj, sites=sites, vibration_amplitude=TrajectoryMetrics(diff).vibration_amplitude())
            radius = {'': float(r)}
            try:
                tr = Transitions.from_trajectory(trajectory=traj, sites=sites, floating_specie='Li', site_inner_fraction=f)
                got = tr.states
            except ValueError as e_:
                if 'need at least one array' not in str(e_):
                    raise
                # no atom ever changes its state: the event builder has nothing to stack and the public route raises (not this property); the
                # states themselves are still checked, computed with the automatic radius
                got = _calculate_atom_states(sites=sites, trajectory=diff, site_radius=radius, site_inner_fraction=1.0)
            from verif.native.synth import brute_mindist
            ds = brute_mindist(lat.matrix, sites.frac_coords, sites.frac_coords, rng=3)
            md = ds[np.triu_indices_from(ds, k=1)].min()
            if 2 * r > md + 1e-9:
                bad.append(f'automatic radius {r} overlaps: minimal site distance {md}')
            # the same with a vibration amplitude large enough to force the reduction to half the smallest site distance
            try:
                r_big = float(_compute_site_radius(trajectory=traj, sites=sites, vibration_amplitude=0.6 * md))
                if 2 * r_big > md + 1e-9:
                    bad.append(f'automatic radius {r_big} (large vibration amplitude) overlaps: minimal site distance {md}')
            except ValueError:
                if md >= 0.51:
                    bad.append(f'_compute_site_radius raised although the sites are {md} A apart')
            # the same sites handed over in a reference cell 4 % larger than the simulation cell (the fractional coordinates are what counts; the
            # distances that limit the radius are those in the simulation cell)
            from pymatgen.core import Structure as _Structure
            sites_ref = _Structure(Lattice(np.asarray(sites.lattice.matrix) * 1.04), [s_.specie for s_ in sites], sites.frac_coords, labels=list(sites.labels))
            try:
                r_ref = float(_compute_site_radius(trajectory=traj, sites=sites_ref, vibration_amplitude=0.6 * md))
                if 2 * r_ref > md + 1e-9:
                    bad.append(f'automatic radius {r_ref} for sites given in a 4 % larger reference cell overlaps: minimal site distance in the simulation cell {md}')
            except ValueError:
                if md >= 0.51:
                    bad.append(f'_compute_site_radius raised for sites given in a larger reference cell although the sites are {md} A apart')
            f_eff = 1.0
        else:
            got = _calculate_atom_states(sites=sites, trajectory=diff, site_radius=radius, site_inner_fraction=f)
            f_eff = f
            # the public route with the same radius table, its entries given in the order of the structure's labels and in the reverse order:
            # .states / .inner_states are what the state computation gives for that table (fraction 1 / fraction f)
            for tab in ([radius] if '' in radius else [dict(radius), dict(reversed(list(radius.items())))]):
                arg = dict(tab) if '' not in tab else float(tab[''])
                keys_before = list(tab)
                try:
                    pub = Transitions.from_trajectory(trajectory=traj, sites=sites, floating_specie='Li', site_radius=arg, site_inner_fraction=f)
                except ValueError as e_:
                    if 'need at least one array' in str(e_):
                        continue  # no atom ever changes its state for this table: the event builder has nothing to stack (not this property)
                    raise
                exp_out = _calculate_atom_states(sites=sites, trajectory=diff, site_radius=dict(tab), site_inner_fraction=1.0)
                exp_in = _calculate_atom_states(sites=sites, trajectory=diff, site_radius=dict(tab), site_inner_fraction=f)
                if not np.array_equal(np.asarray(pub.states), exp_out) or not np.array_equal(np.asarray(pub.inner_states), exp_in):
                    bad.append(f'Transitions.from_trajectory(site_radius={arg}, site_inner_fraction={f}): states / inner states differ from the state computation with that table '
                               f'({int((np.asarray(pub.states) != exp_out).sum())} / {int((np.asarray(pub.inner_states) != exp_in).sum())} entries)')
                if isinstance(arg, dict) and list(arg) != keys_before:
                    bad.append('from_trajectory changed the radius table it was given')
    except Exception as e:
        return {'reproduced': True, 'detail': f'raised {type(e).__name__}: {e} (lattice {np.round(lat.matrix, 3).tolist()})'}
    pos = diff.positions
    d = _brute_states(lat, pos, sites.frac_coords, None, labels, f_eff)
    T, N, S = d.shape
    eps = 1e-4  # float32 tolerance of the KD-tree around the sphere surface
    nbad = 0
    tree_pairs, known_hits = {}, []
    for t in range(T):
        for a in range(N):
            Rk = np.array([radius.get(labels[k], radius.get('', None)) if (labels[k] in radius or '' in radius) else np.nan for k in range(S)], dtype=float) * f_eff
            inside = [k for k in range(S) if not np.isnan(Rk[k]) and d[t, a, k] < Rk[k] - eps]
            maybe = [k for k in range(S) if not np.isnan(Rk[k]) and d[t, a, k] <= Rk[k] + eps]
            g = got[t, a]
            ok = (g == -1 and not inside) or (g in maybe)
            if not ok and g == -1 and inside:
                # known finding C02-kdtree-degenerate-cell: if the periodic KD-tree, asked directly with these coordinates, does not return the pair
                # either, the miss is the tree's (recorded finding, same call site), not a new defect of the state assignment
                cut_ = float(np.nanmax(Rk)) / f_eff if f_eff else float(np.nanmax(Rk))
                lost = True
                for k_ in inside:
                    key_ = round(float(Rk[k_]), 12)
                    if key_ not in tree_pairs:
                        tree_pairs[key_] = kdtree_direct_pairs(lat.matrix, pos, sites.frac_coords, Rk[k_], cut_)
                    if (k_, t * N + a) in tree_pairs[key_]:
                        lost = False
                if lost:
                    known_hits.append((t, a))
                    continue
            if not ok:
                nbad += 1
                if len(bad) < 3:
                    bad.append(f'(t={t}, atom={a}): assigned {g}, sites strictly inside their sphere {inside}, distances {np.round(d[t, a], 3).tolist()}')
    if nbad:
        bad.append(f'{nbad} of {T * N} assignments contradict the brute-force minimum-image distances')
    note = f' [{len(known_hits)} atom-frame(s) inside a sphere but lost by the periodic KD-tree itself: known finding C02-kdtree-degenerate-cell]' if known_hits else ''
    return {'reproduced': bool(bad), 'detail': f'lattice={np.round(lat.matrix, 3).tolist()} radius={radius} f={f}: ' + '; '.join(bad[:4]) + note}


def kdtree_direct_pairs(lat_matrix, positions_flat, site_frac, R, cutoff):
    """What the periodic KD-tree of MDAnalysis answers when asked directly - no gemdat code involved: (site, flat atom-frame index) pairs within R.
    Used only to tell an instance of the known finding C02-kdtree-degenerate-cell (the tree itself loses the pair) from a defect of the library
    under test (the tree finds the pair, the reported state does not show it)."""
    import numpy as np
    from MDAnalysis.lib.pkdtree import PeriodicKDTree
    from pymatgen.core import Lattice
    lat = Lattice(np.asarray(lat_matrix, dtype=float))
    tl = Lattice.from_parameters(*lat.parameters, vesta=True)
    tree = PeriodicKDTree(box=np.array(lat.parameters, dtype=np.float32))
    tree.set_coords(tl.get_cartesian_coords(np.asarray(positions_flat, dtype=float).reshape(-1, 3)), cutoff=float(cutoff))
    res = tree.search_tree(tl.get_cartesian_coords(np.asarray(site_frac, dtype=float).reshape(-1, 3)), float(R))
    return {(int(i), int(j)) for i, j in np.asarray(res).reshape(-1, 2)}


def replay_kdtree_skewed(inputs):
    """Witness of the known finding C02-kdtree-degenerate-cell: one atom 0.29 A from a site, both well inside a 60-degree rhombohedral cell, is
    reported at no site.  (The periodic KD-tree of MDAnalysis assumes a reduced box, |b_x| <= a_x/2, |c_x| <= a_x/2, |c_y| <= b_y/2; at 60 degrees
    b_x = a_x/2 exactly and its wrapping puts the site one cell away from the atom without generating the image.)"""
    import numpy as np
    from pymatgen.core import Element, Lattice, Structure
    from gemdat.trajectory import Trajectory
    from gemdat.transitions import _calculate_atom_states
    a = float(inputs.get('a', 9.2732628705608))
    ang = float(inputs.get('angle', 60.0))
    lat = Lattice.from_parameters(a, a, a, ang, ang, ang)
    site = np.array(inputs.get('site', [0.09947173, 0.69343658, 0.68547275]))
    atom = np.array(inputs.get('atom', [0.13592477, 0.66969477, 0.68064121]))
    sites = Structure(lat, ['Li'], [site], labels=['A'])
    traj = Trajectory(species=[Element('Li')], coords=np.array([[atom]]), lattice=lat.matrix, time_step=1e-15)
    got = int(np.asarray(_calculate_atom_states(sites=sites, trajectory=traj, site_radius={'': 1.0}, site_inner_fraction=1.0))[0, 0])
    d = float(lat.get_all_distances(atom, site)[0, 0])
    return {'reproduced': got != 0 and d < 0.9, 'detail': f'atom {d:.3f} A from the only site in a rhombohedral cell (a = {a:.4f} A, angles {ang}): state {got}, expected 0'}


def replay_first_only(inputs):
    """The only atom-frame inside any sphere is (frame 0, atom 0) at the FIRST site of its group: every index the search reports is zero."""
    import numpy as np
    from pymatgen.core import Element, Lattice, Structure
    from gemdat.trajectory import Trajectory
    from gemdat.transitions import _calculate_atom_states
    lat = Lattice.orthorhombic(9.0, 10.0, 11.0)
    sp = np.array([[0.1, 0.1, 0.1], [0.6, 0.2, 0.3], [0.2, 0.7, 0.8]])
    labels = ['A', 'B', 'A']
    sites = Structure(lat, ['Li'] * 3, sp, labels=labels)
    at = int(inputs.get('at', 0))  # the site the atom visits in frame 0 (0 = first site overall and first of group A, 1 = first and only site of group B)
    far = np.array([0.45, 0.45, 0.55])
    T = int(inputs.get('frames', 3))
    coords = np.array([[sp[at] + 0.001]] + [[far]] * (T - 1))
    traj = Trajectory(species=[Element('Li')], coords=coords, lattice=lat.matrix, time_step=1e-15)
    radius = {'': 1.0} if not inputs.get('labelled') else ({'A': 1.0, 'B': 0.8} if inputs.get('order', 0) == 0 else {'B': 0.8, 'A': 1.0})
    bad = []
    for f in (1.0, 0.5):
        try:
            got = np.asarray(_calculate_atom_states(sites=sites, trajectory=traj, site_radius=radius, site_inner_fraction=f))
        except Exception as e:
            return {'reproduced': True, 'detail': f'raised {type(e).__name__}: {e}'}
        exp = np.full((T, 1), -1)
        exp[0, 0] = at
        if got.shape != exp.shape or (got != exp).any():
            bad.append(f'atom at the centre of site {at} in frame 0 only (radius table {radius}, inner fraction {f}): states {got.ravel().tolist()}, expected {exp.ravel().tolist()}')
    return {'reproduced': bool(bad), 'detail': '; '.join(bad) or 'ok'}


def bounded_states(tier, seed):
    import numpy as np
    n = 40 if tier == 'quick' else 800
    st = Stand('C02.states.bruteforce', f'{n} synthetic systems: 5 lattice families x (as given / randomly rotated), sites on faces, float / '
               'per-label / automatic radius, inner fractions 1, 0.5, 0.1; label groups with never-visited members',
               'seeded random vs explicit-image brute force; non-trivial = rotated or non-orthogonal cell; distinct by input')
    rng = np.random.default_rng(seed + 202)
    fams = ['cubic', 'orthorhombic', 'hexagonal', 'monoclinic', 'triclinic']
    for at_ in (0, 1, 2):
        for lab_ in (False, True):
            for order_ in ((0, 1) if lab_ else (0,)):
                for fr_ in (1, 3):
                    inp = {'at': at_, 'labelled': lab_, 'order': order_, 'frames': fr_}
                    r = st.guard(replay_first_only, inp)
                    if r is not None:
                        st.case(('first-only', at_, lab_, order_, fr_), nontrivial=True)
                        if r['reproduced']:
                            st.violation('states-first-only', r['detail'], 'verif.props.c02:replay_first_only', inp)
    for c in range(n):
        inp = {'fallback_seed': int(rng.integers(1, 10 ** 6)), 'family': fams[c % 5], 'rotate': bool(c % 2), 'inner_fraction': [1.0, 0.5, 0.1][c % 3],
               'radius': float(rng.choice([0.6, 1.0, 1.4]))}
        if c % 4 == 1:
            inp['labelled'] = True
            inp['labels'] = ['A', 'B', 'A', 'A', 'C', 'A', 'D'][:7]
            if c % 8 == 1:
                # label names of which one is a prefix of another (Li, Li1, Li10, Li11), the shorter ones with the larger radii: a label selects the
                # sites that carry exactly that label
                inp['labels'] = [{'A': 'Li1', 'B': 'Li10', 'C': 'Li11', 'D': 'Li'}[x] for x in inp['labels']]
            inp['n_sites'] = 7
            inp['unvisited_first'] = True
            if c % 8 == 5:
                inp['single_entry'] = 1 + c // 8
                inp['unvisited_first'] = False
        if c % 4 == 3:
            inp['auto_radius'] = True
            if c % 8 == 7:
                inp['skewed_pair'] = True
        r = st.guard(replay_states, inp)
        if r is None:
            continue
        st.case(inp, nontrivial=inp['rotate'] or inp['family'] not in ('cubic', 'orthorhombic'), sample=inp)
        if r['reproduced']:
            st.violation('states', r['detail'], 'verif.props.c02:replay_states', inp)
    return st.result()


def bounded_lattice_conformance(tier, seed):
    """Conformance test of the assumed contract: Lattice.from_parameters(*p, vesta=True) == MDAnalysis triclinic_vectors(p),
    same metric tensor as the original lattice."""
    import numpy as np
    from MDAnalysis.lib.mdamath import triclinic_vectors
    from pymatgen.core import Lattice
    from verif.native.synth import random_lattice
    n = 50 if tier == 'quick' else 1000
    st = Stand('C02.lib.from_parameters', f'{n} random cells', 'library-contract conformance (testing, not proof)')
    rng = np.random.default_rng(seed + 2)
    for c in range(n):
        lat = random_lattice(rng)
        L2 = Lattice.from_parameters(*lat.parameters, vesta=True)
        tv = triclinic_vectors(np.array(lat.parameters, dtype=np.float32))
        st.case(np.round(lat.matrix, 6).tolist(), nontrivial=True, sample=None)
        if np.abs(L2.matrix - tv).max() > 1e-4 or np.abs(L2.metric_tensor - lat.metric_tensor).max() > 1e-8:
            st.violation('from_parameters', f'contract broken for {lat.parameters}', None, None)
    return st.result()


# generic purity stand-in (arguments unchanged, second call equal, fresh call equal) over this property's API calls
from verif.native.purity import make_bounded as _make_purity  # noqa: E402
from verif.props.purity_reg import REG as _PURITY_REG  # noqa: E402
PURITY = _PURITY_REG['C02']
bounded_purity = _make_purity('C02', PURITY)


# plumbing around the anchored functions: forwarding contracts of the public wrappers, no state shared between calls or objects
from verif.props import plumbing as _plumbing  # noqa: E402


def unit_plumbing(tier):
    return _plumbing.unit_plumbing(PROPERTY)


bounded_plumbing = _plumbing.make_bounded(PROPERTY)

"""C14 — derived metrics obey their formulas and physical scaling laws."""
from __future__ import annotations

import z3

from verif.bounded import Stand
from verif.engine import values as V
from verif.engine.interp import PyFn
from verif.engine import world as W
from verif.engine.core import Unsupported
from verif.engine.unit import Unit
from verif.engine.values import SObj, SSeq, STensor, to_z3
from verif.props.common import install_common

PROPERTY = 'C14'
MANIFEST = {
    'level_text': 'Proved (floats as reals, scipy constants as exact decimals): particle_density = N / (V 1e-30), mol_per_liter = density 1e-3 / N_A, '
                  'tracer_diffusivity = mean_i(dist[i,last]^2) A^2 / (2 d T dt), tracer_conductivity = e^2 z^2 D rho / (k_B T), haven_ratio = D / D_com '
                  'with D_com the same formula on center_of_mass(), speed = first difference of the distances (prepend 0), attempt frequency = '
                  '(mean, std) of meanfreq(speed, 1/dt), TrajectoryMetricsStd = (mean, std) over the per-trajectory values; relational scaling '
                  'lemmas over these formulas: cell x k => D x k^2, density / k^3, speed and amplitudes x k; time step x s => D / s; the '
                  'telescoping lemma: the speeds of an atom sum to its final distance, so its amplitudes (a partition of the speed row) do too; '
                  'identical motion => centre-of-mass displacement = common displacement (induction lemma) => Haven ratio one. '
                  'amplitudes(): loop invariant over the real sign-flip splitting - for every atom the chunks of np.array_split cover its whole speed row '
                  '(ascending cut points in range: obligation of the assumed array_split contract) and each amplitude is the sum of the speeds of its chunk. '
                  'meanfreq / periodogram is bounded only.',
    'level_note': 'Trusted: FloatWithUnit behaves as float, uncertainties.ufloat, numpy mean/std/diff/average contracts, scipy.signal.periodogram '
                  '(homogeneity P(kx) = k^2 P(x), f proportional to fs), atomic masses positive, callee contracts of '
                  'distances_from_base_position (C01) and center_of_mass, floats as reals, pyvc itself.',
    'technique': 'deductive: VCs from the real AST of the TrajectoryMetrics methods, relational/induction lemmas over the proved formulas; z3/cvc5; '
                 'native replay; random trajectories with scale factors as bounded stand-in',
}
UNITS = ['unit_formulas', 'unit_center_of_mass', 'unit_speed_freq', 'unit_amplitudes', 'unit_std', 'unit_lemmas', 'unit_dependencies', 'unit_plumbing']
BOUNDED = ['bounded_metrics', 'bounded_purity', 'bounded_plumbing']
META = {'clauses': {'formulas': 'P', 'scaling': 'P (lemmas over the formulas) + A (periodogram homogeneity)', 'amplitudes partition': 'P (loop invariant over the real splitting + telescoping lemmas)',
                    'identical motion => Haven 1': 'P (lemma) + B'},
        'not_decided': ['meanfreq / periodogram internals (assumed homogeneity), numpy.array_split contract (assumed; its preconditions are obligations)']}

ANG = z3.RealVal('1/10000000000')


def _metrics(ctx, u):
    T, N = z3.Int('T'), z3.Int('N')
    dt, vol, temp = z3.Real('time_step'), z3.Real('volume'), z3.Real('temperature')
    ctx.assume(z3.And(T >= 1, N >= 1, dt > 0, vol > 0, temp > 0))
    dist = z3.Function('dist', z3.IntSort(), z3.IntSort(), z3.RealSort())
    lat = SObj('Lattice', volume=vol)
    mm = [[z3.Real(f'cell_{i_}{j_}') for j_ in range(3)] for i_ in range(3)]
    cell = STensor((3, 3), lambda i_, j_: W._tab(mm, i_, j_), 'real')
    traj = SObj('Trajectory', time_step=dt, species=SSeq(N, lambda k: SObj('Element')), metadata={'temperature': temp}, _n=T, _lat=lat, lattice=cell)

    def det(ii, ll, a):
        # assumed numpy contract: the signed determinant; its absolute value is the cell volume (positive only for a right-handed triple of vectors)
        if a is not cell:
            raise Unsupported('determinant of something that is not the cell matrix')
        dv = z3.Real('det_cell')
        ii.ctx.assume(dv * dv == vol * vol, tag='numpy.linalg.det(cell): |det| = volume, sign = handedness of the lattice vectors')
        return dv
    u.lib['numpy.linalg.det'] = det
    u.obj_attrs[('Trajectory', 'get_lattice')] = lambda i, o, l: PyFn(lambda ii, ll, *a: o.get('_lat'))
    u.obj_attrs[('Trajectory', 'distances_from_base_position')] = lambda i, o, l: PyFn(lambda ii, ll: STensor((N, T), lambda a, t: dist(to_z3(a), to_z3(t)), 'real'))
    m = SObj('TrajectoryMetrics', trajectory=traj)
    return m, {'T': T, 'N': N, 'dt': dt, 'vol': vol, 'temp': temp, 'dist': dist, 'traj': traj, 'm': m}


def unit_formulas(tier):
    u = Unit('C14.formulas')
    install_common(u)
    NA = z3.RealVal('602214076000000000000000')
    E = z3.RealVal('1602176634') / z3.RealVal(10) ** 28
    KB = z3.RealVal('1380649') / z3.RealVal(10) ** 29

    def run(name, kwargs, post, contracts=None, requires=None):
        def setup(interp):
            m, st = _metrics(interp.ctx, u)
            if requires is not None:
                interp.ctx.assume(requires(st))
            for k, v in (contracts or {}).items():
                u.contracts[k] = v(st)
            st['kw'] = {k: (v(st) if callable(v) else v) for k, v in kwargs.items()}
            return [m], st['kw'], st
        u.prove_function('gemdat.metrics', f'TrajectoryMetrics.{name}', setup, post, raises=(),
                         replay={'fn': 'verif.props.c14:replay_metrics', 'sizes': lambda st: [], 'concretise': lambda mm, st, ob: {'seed': 5, 'left_handed': True}})

    run('particle_density', {}, lambda i, st, r: [('rho = N / (V * 1e-30)', r == z3.ToReal(st['N']) / (st['vol'] * ANG * ANG * ANG))])

    rho = z3.Real('rho')
    run('mol_per_liter', {}, lambda i, st, r: [('molarity = rho * 1e-3 / N_A', r == (rho * z3.RealVal('1/1000')) / NA)],
        contracts={'gemdat.metrics.TrajectoryMetrics.particle_density': lambda st: (lambda interp, self: rho)})

    def post_tracer(interp, st, r):
        sums = interp.ctx.ghost.get('sums', [])
        if len(sums) != 1:
            return [('one mean over atoms', z3.BoolVal(False))]
        a = z3.Int('pa')
        d = st['dist']
        S, f = sums[0]['S'], sums[0]['f']
        dd = st['kw']['dimensions']
        return [('summand = squared final distance of each atom', z3.ForAll([a], z3.Implies(z3.And(a >= 0, a < st['N']), f(a) == d(a, st['T'] - 1) * d(a, st['T'] - 1)))),
                ('D = mean * A^2 / (2 d T dt)', r == ((S(st['N']) / z3.ToReal(st['N'])) * (ANG * ANG)) / (2 * z3.ToReal(dd) * (z3.ToReal(st['T']) * st['dt'])))]
    dim = z3.Int('dimensions')
    run('tracer_diffusivity', {'dimensions': lambda st: dim}, lambda i, st, r: post_tracer(i, st, r), requires=lambda st: z3.And(dim >= 1, dim <= 3))

    D, z_ion = z3.Real('D'), z3.Int('z_ion')
    run('tracer_conductivity', {'z_ion': z_ion, 'dimensions': dim},
        lambda i, st, r: [('sigma = e^2 z^2 D rho / (k_B T)', r == ((E * E) * z3.ToReal(z_ion * z_ion) * D * rho) / (KB * st['temp']))],
        contracts={'gemdat.metrics.TrajectoryMetrics.particle_density': lambda st: (lambda interp, self: rho),
                   'gemdat.metrics.TrajectoryMetrics.tracer_diffusivity': lambda st: (lambda interp, self, dimensions=3: D)})

    Dc = z3.Real('D_com')
    run('haven_ratio', {'dimensions': dim}, lambda i, st, r: [('H = D / D_com', r == D / Dc)],
        contracts={'gemdat.metrics.TrajectoryMetrics.tracer_diffusivity': lambda st: (lambda interp, self, dimensions=3: D),
                   'gemdat.metrics.TrajectoryMetrics.tracer_diffusivity_center_of_mass': lambda st: (lambda interp, self, dimensions=3: Dc)},
        requires=lambda st: Dc != 0)  # the ratio is undefined when the centre of mass ends where it started

    # tracer_diffusivity_center_of_mass: the same estimator on center_of_mass()
    rec = {}

    def setup_com(interp):
        m, st = _metrics(interp.ctx, u)
        com = SObj('Trajectory', _is_com=True)
        u.obj_attrs[('Trajectory', 'center_of_mass')] = lambda i, o, l: PyFn(lambda ii, ll: com)
        u.constructors['TrajectoryMetrics'] = lambda i, a, k, l: SObj('TrajectoryMetrics', trajectory=a[0])
        u.contracts['gemdat.metrics.TrajectoryMetrics.tracer_diffusivity'] = lambda interp, self, dimensions=3: rec.update({'of': self.get('trajectory'), 'dim': dimensions}) or Dc
        st['com'] = com
        return [m], {'dimensions': dim}, st
    u.prove_function('gemdat.metrics', 'TrajectoryMetrics.tracer_diffusivity_center_of_mass', setup_com,
                     lambda i, st, r: [('tracer diffusivity of the centre-of-mass trajectory, same dimensions', z3.BoolVal(rec.get('of') is st['com'] and rec.get('dim') is dim and r is Dc))], raises=())
    return u


def unit_center_of_mass(tier):
    """Trajectory.center_of_mass: one pseudo-atom at sum_a m_a (base_a + cum_{t,a}) / sum_a m_a, same lattice, time step, metadata."""
    from verif.engine.interp import ClassRef, LoopSpec
    from verif.props.common import traj_object
    u = Unit('C14.center_of_mass')
    install_common(u)
    FN = 'gemdat.trajectory.Trajectory.center_of_mass'
    rec = {}

    def construct(interp, args, kwargs, line):
        rec.setdefault('built', []).append(kwargs)
        return SObj('Trajectory', _built=kwargs, **{k: v for k, v in kwargs.items()})
    u.constructors['Trajectory'] = construct
    u.obj_attrs[('Trajectory', '__class__')] = lambda i, o, l: ClassRef('gemdat.trajectory', 'Trajectory')
    cum = z3.Function('cum', z3.IntSort(), z3.IntSort(), z3.IntSort(), z3.RealSort())
    mass = z3.Function('atomic_mass', z3.IntSort(), z3.RealSort())

    def average(interp, line, x, axis=None, weights=None):
        ctx = interp.ctx
        ctx.use('numpy.average(x, axis=1, weights=w) = sum_a w_a x[t,a,c] / sum_a w_a')
        if axis != 1 or weights is None or x.ndim != 3:
            from verif.engine.core import Unsupported
            raise Unsupported('np.average form', line)
        N = x.shape[1]
        wf = weights.fn
        rec['w_len'] = weights.length
        xf = x.fn
        SW = u.sum_fn(ctx, lambda k: wf(k), N, 'real', label='SumW')
        SWX = u.sum_fn(ctx, lambda t, c, k: V.to_real(wf(k)) * V.to_real(xf(t, k, c)), N, 'real', nparams=2, label='SumWX')
        rec['SW'], rec['SWX'] = SW, SWX
        j, k = z3.Int('wj'), z3.Int('wk')
        ctx.assume(z3.Implies(z3.ForAll([j], z3.Implies(z3.And(j >= 0, j < to_z3(N)), V.to_real(wf(j)) > 0)),
                              z3.ForAll([k], z3.Implies(z3.And(k >= 1, k <= to_z3(N)), SW(k) > 0), patterns=[SW(k)])),
                   tag='lemma C14.positive-weights-positive-sum (proved by induction in unit C14.lemmas)')
        interp.division_guard(SW(to_z3(N)), line)
        return STensor((x.shape[0], x.shape[2]), lambda t, c: SWX(to_z3(t), to_z3(c), to_z3(N)) / SW(to_z3(N)), 'real')
    u.lib['numpy.average'] = average

    def setup(interp):
        ctx = interp.ctx
        rec.clear()
        tr, st = traj_object(ctx, 'displacements')
        N, T = st['N'], st['T']
        k = z3.Int('mk')
        ctx.assume(z3.ForAll([k], mass(k) > 0, patterns=[mass(k)]), tag='requires: atomic masses are positive')
        tr.set('species', SSeq(N, lambda j: SObj('Element', atomic_mass=mass(to_z3(j)), __isa__=('Element', 'Species'))))
        u.contracts['gemdat.trajectory.Trajectory.cumulative_displacements'] = lambda ii, self: STensor((T, N, 3), lambda t, a, c: cum(to_z3(t), to_z3(a), to_z3(c)), 'real')
        ctx.ghost['st'] = st
        st['tr'] = tr
        return [tr], {}, st

    def maker(interp, env, k):
        g = interp.ctx.fresh_fun('weight', z3.IntSort(), z3.RealSort())
        return SSeq(k, lambda j: g(to_z3(j)))

    def invariant(interp, env, k):
        w = env.get('weights', interp)
        if isinstance(w, list):
            return [('empty at entry', z3.BoolVal(len(w) == 0))]
        j = z3.Int('ij')
        return [('length', to_z3(w.length) == k), ('weights[j] = atomic mass of atom j', z3.ForAll([j], z3.Implies(z3.And(j >= 0, j < k), to_z3(w.fn(j)) == mass(j))))]
    u.loops[(FN, 0)] = LoopSpec({'weights': maker}, invariant)

    def post(interp, st, res):
        b = res.get('_built')
        co = b.get('coords')
        T, N, bp = st['T'], st['N'], st['bp']
        SW, SWX = rec.get('SW'), rec.get('SWX')
        if SW is None:
            return [('one weighted average', z3.BoolVal(False))]
        sums = interp.ctx.ghost.get('sums', [])
        t, c, a = z3.Ints('pt pc pa')
        fw, fwx = sums[0]['f'], sums[1]['f']
        return [('shape (T,1,3)', z3.And(co.shape[0] == T, co.shape[1] == 1, co.shape[2] == 3)),
                ('weights are the atomic masses, one per atom', z3.And(to_z3(rec['w_len']) == N, z3.ForAll([a], z3.Implies(z3.And(a >= 0, a < N), fw(a) == mass(a))))),
                ('summand = mass * unwrapped position (base + cumulative displacement)', z3.ForAll([t, c, a], z3.Implies(
                    z3.And(t >= 0, t < T, c >= 0, c < 3, a >= 0, a < N), fwx(t, c, a) == mass(a) * (bp(a, c) + cum(t, a, c))))),
                ('com[t,0,c] = sum(m x) / sum(m)', z3.ForAll([t, c], z3.Implies(z3.And(t >= 0, t < T, c >= 0, c < 3), co.at(t, 0, c) == SWX(t, c, N) / SW(N)))),
                ('one pseudo-atom; lattice, time step and metadata kept; position mode', z3.BoolVal(
                    b.get('species') == ['X'] and b.get('lattice') is st['lat'] and b.get('time_step') is st['dt'] and b.get('metadata') is st['tr'].get('metadata')
                    and not b.get('coords_are_displacement', False)))]
    u.prove_function('gemdat.trajectory', 'Trajectory.center_of_mass', setup, post, raises=(),
                     replay={'fn': 'verif.props.c14:replay_metrics', 'sizes': lambda st: [], 'concretise': lambda mm, st, ob: {'seed': 5}})
    return u


def unit_speed_freq(tier):
    u = Unit('C14.speed')
    install_common(u)

    def setup(interp):
        m, st = _metrics(interp.ctx, u)
        return [m], {}, st

    def post(interp, st, r):
        a, t = z3.Ints('pa pt')
        d = st['dist']
        rng = z3.And(a >= 0, a < st['N'])
        return [('speed[a,0] = dist[a,0]', z3.ForAll([a], z3.Implies(rng, r.at(a, 0) == d(a, 0)))),
                ('speed[a,t] = dist[a,t] - dist[a,t-1]', z3.ForAll([a, t], z3.Implies(z3.And(rng, t >= 1, t < st['T']), r.at(a, t) == d(a, t) - d(a, t - 1)))),
                ('shape', z3.And(r.shape[0] == st['N'], r.shape[1] == st['T']))]
    u.prove_function('gemdat.metrics', 'TrajectoryMetrics.speed', setup, post, raises=(),
                     replay={'fn': 'verif.props.c14:replay_metrics', 'sizes': lambda st: [], 'concretise': lambda mm, st, ob: {'seed': 4}})

    rec = {}

    def setup_f(interp):
        m, st = _metrics(interp.ctx, u)
        sp = STensor((st['N'], st['T']), lambda a, t: z3.Real('s'), 'real')
        u.contracts['gemdat.metrics.TrajectoryMetrics.speed'] = lambda ii, self: sp
        fq = z3.Function('meanfreq', z3.IntSort(), z3.RealSort())
        u.contracts['gemdat.utils.meanfreq'] = lambda ii, x, fs=1.0: rec.update({'x': x, 'fs': fs}) or STensor((st['N'], 1), lambda a, o: fq(to_z3(a)), 'real')
        u.lib['numpy.std'] = lambda ii, ll, x, **k: SObj('Std', of=x)
        u.lib['numpy.mean'] = lambda ii, ll, x, **k: SObj('Mean', of=x)
        st['sp'] = sp
        return [m], {}, st

    def post_f(interp, st, r):
        ok = isinstance(r, tuple) and len(r) == 2 and isinstance(r[0], SObj) and r[0]._cls == 'Mean' and isinstance(r[1], SObj) and r[1]._cls == 'Std' and r[0].get('of') is r[1].get('of')
        fs = rec.get('fs')
        return [('(mean, std) of the per-atom mean frequencies', z3.BoolVal(bool(ok))),
                ('mean frequency of the speed sampled at 1/dt', z3.And(z3.BoolVal(rec.get('x') is st['sp']), (fs == 1 / st['dt']) if z3.is_expr(fs) else z3.BoolVal(False)))]
    u.prove_function('gemdat.metrics', 'TrajectoryMetrics.attempt_frequency', setup_f, post_f, raises=())
    return u


def unit_amplitudes(tier):
    """TrajectoryMetrics.amplitudes: for every atom the speed row is cut (np.array_split at the sign flips) into consecutive chunks covering the
    whole row, and the amplitudes are the chunk sums, atom after atom.  With the telescoping lemmas of C14.lemmas the amplitudes of an atom
    therefore sum to the sum of its speeds = its final distance."""
    from verif.engine.interp import LoopSpec
    from verif.engine.core import Unsupported
    u = Unit('C14.amplitudes')
    install_common(u)
    I = z3.IntSort()
    FN = 'gemdat.metrics.TrajectoryMetrics.amplitudes'
    spd = z3.Function('speed', I, I, z3.RealSort())  # speed[a, t]
    PS = z3.Function('prefix_sum', I, I, z3.RealSort())  # PS(a, k) = sum_{t<k} speed[a, t]
    E = z3.Function('edge', I, I, I)  # ghost: E(a, j) = start of chunk j of atom a (defined by the code's own split points)
    M = z3.Function('n_chunks', I, I)
    OFF = z3.Function('first_amplitude_of', I, I)
    rec = {}

    def setup(interp):
        ctx = interp.ctx
        T, N = z3.Int('T'), z3.Int('N')
        ctx.assume(z3.And(T >= 1, N >= 1))
        m = SObj('TrajectoryMetrics')
        u.contracts['gemdat.metrics.TrajectoryMetrics.speed'] = lambda ii, self: STensor((N, T), lambda a, t: spd(to_z3(a), to_z3(t)), 'real')
        rec.clear()
        return [m], {}, {'T': T, 'N': N}

    def defs(ctx):
        if ctx.ghost.get('c14_amp_defs'):
            return
        ctx.ghost['c14_amp_defs'] = True
        a, k = z3.Ints('ga gk')
        ctx.assume(z3.And(OFF(0) == 0, z3.ForAll([a], z3.Implies(a >= 0, OFF(a + 1) == OFF(a) + M(a)), patterns=[OFF(a + 1)])), tag='ghost definition: first_amplitude_of')
        ctx.assume(z3.ForAll([a, k], z3.And(PS(a, 0) == 0, z3.Implies(k >= 0, PS(a, k + 1) == PS(a, k) + spd(a, k))), patterns=[PS(a, k + 1)]),
                   tag='definition: prefix sums of the speed row of every atom')

    def array_split(interp, line, row, idx):
        """numpy.array_split(row, indices): sections row[0:i0], row[i0:i1], ..., row[i_last:]  (assumed contract)"""
        ctx = interp.ctx
        ctx.use('numpy.array_split(a, sorted indices): consecutive sections a[0:i0], a[i0:i1], ..., a[i_last:]')
        a = rec.get('atom')
        if a is None:
            raise Unsupported('array_split outside the per-atom loop', line)
        n = row.shape[0]
        it = V.as_tensor(idx)
        m = it.shape[0]
        j = z3.Int('ej')
        # obligations of the contract: indices ascending and inside [0, n]
        ctx.oblige(f'{interp.cur_func}.array_split-indices-ascending-in-range@{line}', z3.ForAll([j], z3.Implies(z3.And(j >= 0, j < to_z3(m)), z3.And(
            to_z3(it.at(j)) >= 0, to_z3(it.at(j)) <= to_z3(n), z3.Implies(j + 1 < to_z3(m), to_z3(it.at(j)) <= to_z3(it.at(j + 1)))))), kind='pre', line=line)
        # ghost definition of this atom's edges (a is the arbitrary iteration index; E(a,.) and M(a) are constrained nowhere else)
        ctx.assume(z3.And(M(a) == to_z3(m) + 1, E(a, 0) == 0, E(a, to_z3(m) + 1) == to_z3(n),
                          z3.ForAll([j], z3.Implies(z3.And(j >= 0, j < to_z3(m)), E(a, j + 1) == to_z3(it.at(j))), patterns=[E(a, j + 1)])), tag='ghost definition: edges of the chunks of this atom')
        rf = row.fn

        def chunk(jj):
            jz = to_z3(jj)
            lo, hi = E(a, jz), E(a, jz + 1)
            t = STensor((hi - lo,), lambda i: rf(lo + to_z3(i)), 'real')
            t.chunk = (a, lo, hi, row)
            return t
        return SSeq(binop_add(m, 1), chunk)

    def binop_add(x, y):
        return V.binop('+', x, y)

    def np_sum(interp, line, x, axis=None):
        ch = getattr(x, 'chunk', None)
        if ch is None:
            return u.np.f_sum(interp, line, x, axis=axis)
        a, lo, hi, row = ch
        ctx = interp.ctx
        ctx.use('numpy.sum of a contiguous section = difference of prefix sums (recursive spec function)')
        k = z3.Int('pk')
        rf = row.fn
        if not ctx.suppress_obligations if hasattr(ctx, 'suppress_obligations') else True:
            ctx.oblige(f'{interp.cur_func}.summed-section-is-cut-from-the-speed-row-of-this-atom@{line}',
                       z3.ForAll([k], z3.Implies(z3.And(k >= 0, k < to_z3(row.shape[0])), V.to_real(rf(k)) == spd(a, k))), kind='pre', line=line)
        return PS(a, hi) - PS(a, lo)
    u.lib['numpy.array_split'] = array_split
    u.lib['numpy.sum'] = np_sum
    u.lib['numpy.asarray'] = lambda interp, line, x, **k: STensor((x.length,), (lambda f: (lambda i: f(to_z3(i))))(x.fn), 'real') if isinstance(x, SSeq) else u.np.f_array(interp, line, x)

    def maker(interp, env, k):
        ctx = interp.ctx
        g = ctx.fresh_fun('amplitude', I, z3.RealSort())
        L = ctx.fresh_int('n_amplitudes')
        ctx.assume(L >= 0)
        return SSeq(L, lambda j: g(to_z3(j)))

    def invariant(interp, env, k):
        ctx = interp.ctx
        defs(ctx)
        kz = to_z3(k)
        if getattr(interp, 'inv_mode', 'prove') == 'assume':
            rec['atom'] = kz  # the atom handled by the iteration that follows
        out_ = env.get('amplitudes', interp)
        if isinstance(out_, list):
            return [('empty at entry', z3.BoolVal(len(out_) == 0 and True))] + ([('offset', OFF(0) == 0)])
        a, j = z3.Ints('ia ij')
        return [('length = number of chunks of the atoms done', to_z3(out_.length) == OFF(kz)),
                ('every atom has at least one chunk, its chunks start at 0, end at T, with ascending edges', z3.ForAll([a], z3.Implies(z3.And(a >= 0, a < kz), z3.And(
                    M(a) >= 1, E(a, 0) == 0, E(a, M(a)) == interp.ctx.ghost['state']['T'])), patterns=[M(a)])),
                ('amplitude j of atom a = sum of its speeds over chunk j', z3.ForAll([a, j], z3.Implies(z3.And(a >= 0, a < kz, j >= 0, j < M(a)), z3.And(
                    OFF(a) + j < to_z3(out_.length), to_z3(out_.fn(OFF(a) + j)) == PS(a, E(a, j + 1)) - PS(a, E(a, j)))), patterns=[E(a, j + 1)]))]
    u.loops[(FN, 0)] = LoopSpec({'amplitudes': maker}, invariant)

    def post(interp, st, res):
        a, j, t = z3.Ints('pa pj pt')
        N, T = st['N'], st['T']
        return [('one amplitude per chunk, atom after atom', to_z3(res.shape[0]) == OFF(N)),
                ('chunks of an atom cover its whole speed row', z3.ForAll([a], z3.Implies(z3.And(a >= 0, a < N), z3.And(M(a) >= 1, E(a, 0) == 0, E(a, M(a)) == T)), patterns=[M(a)])),
                ('amplitude = sum of the speeds of its chunk', z3.ForAll([a, j], z3.Implies(z3.And(a >= 0, a < N, j >= 0, j < M(a)),
                                                                                          to_z3(res.at(OFF(a) + j)) == PS(a, E(a, j + 1)) - PS(a, E(a, j))), patterns=[E(a, j + 1)])),
                ]
    u.prove_function('gemdat.metrics', 'TrajectoryMetrics.amplitudes', setup, post, raises=(),
                     replay={'fn': 'verif.props.c14:replay_metrics', 'sizes': lambda st: [], 'concretise': lambda mm, st, ob: {'seed': 6}})
    return u


def unit_std(tier):
    """TrajectoryMetricsStd.tracer_diffusivity / tracer_conductivity / vibration_amplitude: ufloat(mean, std) over the per-trajectory values."""
    u = Unit('C14.std')
    install_common(u)
    rec = {}
    u.lib['numpy.std'] = lambda ii, ll, x, **k: SObj('Std', of=x)
    u.lib['numpy.mean'] = lambda ii, ll, x, **k: SObj('Mean', of=x)
    u.lib['uncertainties.ufloat'] = lambda ii, ll, a, b: SObj('ufloat', mean=a, std=b)
    for name, kw, callee in (('tracer_diffusivity', {'dimensions': 2}, 'tracer_diffusivity'), ('tracer_conductivity', {'z_ion': 1, 'dimensions': 3}, 'tracer_conductivity'),
                             ('vibration_amplitude', {}, 'vibration_amplitude')):
        def setup(interp, name=name, kw=kw, callee=callee):
            rec.clear()
            K = z3.Int('n_trajectories')
            interp.ctx.assume(K >= 1)
            vals = z3.Function('value_of', z3.IntSort(), z3.RealSort())
            ms = SSeq(K, lambda j: SObj('TrajectoryMetrics', _j=j))
            u.contracts[f'gemdat.metrics.TrajectoryMetrics.{callee}'] = lambda ii, self, **k2: rec.setdefault('kw', k2) and vals(to_z3(self.get('_j'))) if k2 else vals(to_z3(self.get('_j')))
            o = SObj('TrajectoryMetricsStd', metrics=ms)
            return [o], dict(kw), {'K': K, 'vals': vals, 'kw': kw}

        def post(interp, st, r, name=name):
            ok = isinstance(r, SObj) and r._cls == 'ufloat' and isinstance(r.get('mean'), SObj) and r.get('mean')._cls == 'Mean' and r.get('std')._cls == 'Std' \
                and r.get('mean').get('of') is r.get('std').get('of')
            out = [('ufloat(mean, std) of one list of per-trajectory values', z3.BoolVal(bool(ok)))]
            if ok:
                lst = r.get('mean').get('of')
                j = z3.Int('pj')
                out.append(('one value per trajectory, each the metric of that trajectory', z3.And(to_z3(lst.length) == st['K'], z3.ForAll([j], z3.Implies(z3.And(j >= 0, j < st['K']), lst.fn(j) == st['vals'](j))))))
                out.append(('arguments passed through', z3.BoolVal(rec.get('kw', {}) == st['kw'] or not st['kw'])))
            return out
        u.prove_function('gemdat.metrics', f'TrajectoryMetricsStd.{name}', setup, post, raises=())
    return u


def unit_lemmas(tier):
    u = Unit('C14.lemmas')

    def scale_cell(ctx):
        """cell x k: every Cartesian length x k (L-scale) => mean squared final distance x k^2, volume x k^3"""
        k, msd, vol, N, d, Tt = z3.Reals('k msd vol N d total_time')
        ctx.assume(z3.And(k > 0, vol > 0, N > 0, d > 0, Tt > 0))
        D = lambda m: (m * ANG * ANG) / (2 * d * Tt)  # noqa: E731
        rho = lambda v: N / (v * ANG * ANG * ANG)  # noqa: E731
        return [('D(k) = k^2 D', D(k * k * msd) == k * k * D(msd)), ('rho(k) = rho / k^3', rho(k * k * k * vol) * (k * k * k) == rho(vol)),
                ('speed and amplitude differences scale by k', k * z3.Real('d1') - k * z3.Real('d0') == k * (z3.Real('d1') - z3.Real('d0')))]
    u.lemma('C14.scaling.cell', scale_cell)

    def scale_time(ctx):
        s, msd, d, T, dt = z3.Reals('s msd d T dt')
        ctx.assume(z3.And(s > 0, d > 0, T > 0, dt > 0))
        D = lambda step: (msd * ANG * ANG) / (2 * d * (T * step))  # noqa: E731
        return [('D(s dt) = D(dt) / s', D(s * dt) * s == D(dt)), ('sampling frequency 1/(s dt) = (1/dt)/s', (1 / (s * dt)) * s == 1 / dt)]
    u.lemma('C14.scaling.time-step', scale_time)

    def meanfreq_scale(ctx):
        """meanfreq = sum(P f) / sum(P): invariant under P -> k^2 P (cell scaling), proportional to f -> f / s (time step scaling)"""
        k, s, PF, Pw = z3.Reals('k s sumPf sumP')
        ctx.assume(z3.And(k > 0, s > 0, Pw > 0))
        return [('cell scaling leaves the mean frequency unchanged', (k * k * PF) / (k * k * Pw) == PF / Pw),
                ('time-step scaling divides it by s', ((PF / s)) / Pw == (PF / Pw) / s)]
    u.lemma('C14.scaling.attempt-frequency (given periodogram homogeneity)', meanfreq_scale)

    def telescoping(ctx):
        """sum_{t<=k} speed[t] = dist[k]  (speed[0] = dist[0], speed[t] = dist[t]-dist[t-1]): induction on k"""
        d = z3.Function('d', z3.IntSort(), z3.RealSort())
        sp = z3.Function('speed', z3.IntSort(), z3.RealSort())
        S = z3.Function('S', z3.IntSort(), z3.RealSort())
        k = z3.Int('k')
        ctx.assume(k >= 0)
        ctx.assume(z3.And(sp(0) == d(0), sp(k + 1) == d(k + 1) - d(k), S(0) == sp(0), S(k + 1) == S(k) + sp(k + 1)))
        ctx.assume(S(k) == d(k))
        return [('base', S(0) == d(0)), ('step', S(k + 1) == d(k + 1))]
    u.lemma('C14.amplitudes.speeds-sum-to-final-distance(induction)', telescoping)

    def partition(ctx):
        """consecutive chunks [e_j, e_j+1) of one row: sum of chunk sums = total (prefix sums telescope): induction on the chunk index"""
        PS = z3.Function('prefix_sum', z3.IntSort(), z3.RealSort())
        e = z3.Function('edge', z3.IntSort(), z3.IntSort())
        C = z3.Function('chunk_total', z3.IntSort(), z3.RealSort())
        j = z3.Int('j')
        ctx.assume(j >= 0)
        ctx.assume(z3.And(e(0) == 0, C(0) == 0, C(j + 1) == C(j) + (PS(e(j + 1)) - PS(e(j))), PS(0) == 0))
        ctx.assume(C(j) == PS(e(j)))
        return [('base', C(0) == PS(e(0))), ('step', C(j + 1) == PS(e(j + 1)))]
    u.lemma('C14.amplitudes.partition-telescopes(induction)', partition)

    def possum(ctx):
        """all weights positive => every non-empty prefix sum positive: induction on k"""
        w = z3.Function('w', z3.IntSort(), z3.RealSort())
        S = z3.Function('S', z3.IntSort(), z3.RealSort())
        k = z3.Int('k')
        ctx.assume(k >= 1)
        ctx.assume(z3.And(w(0) > 0, w(k) > 0, S(0) == 0, S(1) == S(0) + w(0), S(k + 1) == S(k) + w(k)))
        ctx.assume(S(k) > 0)
        return [('base', S(1) > 0), ('step', S(k + 1) > 0)]
    u.lemma('C14.positive-weights-positive-sum(induction)', possum)

    def haven(ctx):
        """all atoms move identically (x_a = x): weighted average = x (induction step of sum w_a x = x sum w_a), hence D_com = D and H = 1"""
        w = z3.Function('w', z3.IntSort(), z3.RealSort())
        SW = z3.Function('SW', z3.IntSort(), z3.RealSort())
        SWX = z3.Function('SWX', z3.IntSort(), z3.RealSort())
        x = z3.Real('x')
        k = z3.Int('k')
        ctx.assume(k >= 0)
        ctx.assume(z3.And(SW(0) == 0, SWX(0) == 0, SW(k + 1) == SW(k) + w(k), SWX(k + 1) == SWX(k) + w(k) * x))
        ctx.assume(SWX(k) == x * SW(k))
        D = z3.Real('D')
        ctx.assume(D != 0)
        return [('base', SWX(0) == x * SW(0)), ('step', SWX(k + 1) == x * SW(k + 1)), ('Haven ratio one for equal diffusivities', D / D == 1)]
    u.lemma('C14.haven.identical-motion(induction)', haven)
    return u


def unit_dependencies(tier):
    """distances_from_base_position / _lengths (Cartesian length through the metric tensor, C01) carry every diffusivity and amplitude:
    their units are re-run here so that a change breaking them is reported under C14 too."""
    from verif.props import c01
    from verif.props.common import merge_units
    return merge_units('C14.dependencies', [c01.unit_lengths(tier), c01.unit_distances(tier)])


# ---------------------------------------------------------------------------------------------------------------

def replay_metrics(inputs):
    import numpy as np
    import warnings
    from scipy import constants as C
    from gemdat.trajectory import Trajectory
    from gemdat.metrics import TrajectoryMetricsStd
    from pymatgen.core import Element
    from verif.native.synth import random_lattice
    warnings.filterwarnings('ignore')
    seed = inputs['seed']
    rng = np.random.default_rng(seed)
    lat = random_lattice(rng)
    if inputs.get('left_handed', seed % 4 == 1):
        from pymatgen.core import Lattice as _Lattice
        lat = _Lattice(np.asarray(lat.matrix)[[1, 0, 2]])  # the same cell with two lattice vectors listed in the other order (a left-handed triple)
    T, N = int(rng.integers(12, 40)), int(rng.integers(2, 5))
    steps = rng.normal(scale=0.03, size=(T, N, 3))
    if inputs.get('weak'):
        steps *= 1e-4  # very weak vibrations: the spectral power is tiny in absolute terms, ratios of it must still be scale-free
    steps[0] = 0
    if inputs.get('frozen', seed % 3 == 0) and N >= 2:
        steps[:, 1 + seed % (N - 1)] = 0  # an atom that never moves, after at least one that does
    base = rng.random((N, 3))
    coords = base + np.cumsum(steps, axis=0)
    dt = 2e-15
    temp = 650.0
    sp = [Element('Na') if a_ % 2 else Element('Li') for a_ in range(N)]  # interleaved species: masses follow the atom order, not a grouped order

    def mk(matrix, time_step, x=coords):
        return Trajectory(species=sp, coords=x, lattice=matrix, time_step=time_step, metadata={'temperature': temp})
    tr = mk(lat.matrix, dt)
    m = tr.metrics()
    bad = []
    cum = np.cumsum(steps, axis=0)
    dist = np.linalg.norm(cum @ lat.matrix, axis=-1).T

    def close(a, b, what, rtol=1e-9, atol=0.0):
        if not np.allclose(a, b, rtol=rtol, atol=atol, equal_nan=True):  # the mean frequency of an atom that never moves is 0/0 in both representations
            bad.append(f'{what}: {a} != {b}')
    rho = N / (lat.volume * 1e-30)
    close(float(m.particle_density()), rho, 'particle_density')
    close(float(m.mol_per_liter()), rho * 1e-3 / C.Avogadro, 'mol_per_liter')
    for d in (1, 2, 3):
        D = np.mean(dist[:, -1] ** 2) * 1e-20 / (2 * d * T * dt)
        close(float(m.tracer_diffusivity(dimensions=d)), D, f'tracer_diffusivity(d={d})')
        for z in (1, -2, 3):
            close(float(m.tracer_conductivity(z_ion=z, dimensions=d)), C.e ** 2 * z ** 2 * D * rho / (C.k * temp), f'tracer_conductivity(z={z},d={d})')
    masses = np.array([float(s.atomic_mass) for s in sp])
    com = (masses[None, :, None] * (base + cum)).sum(axis=1) / masses.sum()
    dcom = np.linalg.norm((com - com[0]) @ lat.matrix, axis=-1)
    Dcom = dcom[-1] ** 2 * 1e-20 / (2 * 3 * T * dt)
    close(float(m.tracer_diffusivity_center_of_mass(dimensions=3)), Dcom, 'tracer_diffusivity_center_of_mass', rtol=1e-7)
    close(float(m.haven_ratio(dimensions=3)), float(m.tracer_diffusivity(dimensions=3)) / Dcom, 'haven_ratio', rtol=1e-7)
    close(m.speed(), np.diff(dist, prepend=0), 'speed', atol=1e-9 * float(np.abs(dist).max() or 1.0))  # differences of nearly equal distances: absolute scale
    amps = m.amplitudes()
    close(amps.sum(), dist[:, -1].sum(), 'sum of amplitudes = sum of final distances', rtol=1e-8)
    amps0, speed0 = np.array(amps, copy=True), np.array(m.speed(), copy=True)
    m.vibration_amplitude(), m.attempt_frequency(), m.tracer_diffusivity(dimensions=3)
    if not np.array_equal(np.asarray(m.amplitudes()), amps0) or not np.array_equal(np.asarray(m.speed()), speed0):
        bad.append('amplitudes() / speed() of the same metrics object changed after other metrics were queried')
    # per atom: amplitudes are consecutive chunk sums of the speed row
    k, s = float(inputs.get('k', 1.7)), float(inputs.get('s', 3.0))
    m2 = mk(lat.matrix * k, dt).metrics()
    close(float(m2.tracer_diffusivity(dimensions=3)), k ** 2 * float(m.tracer_diffusivity(dimensions=3)), 'D scales with k^2')
    close(float(m2.particle_density()), float(m.particle_density()) / k ** 3, 'density scales with k^-3')
    close(float(m2.vibration_amplitude()), k * float(m.vibration_amplitude()), 'vibration amplitude scales with k', rtol=1e-7)
    close(float(m2.attempt_frequency()[0]), float(m.attempt_frequency()[0]), 'attempt frequency unchanged by cell scaling', rtol=1e-7)
    m3 = mk(lat.matrix, dt * s).metrics()
    close(float(m3.tracer_diffusivity(dimensions=3)), float(m.tracer_diffusivity(dimensions=3)) / s, 'D scales with 1/s')
    close(float(m3.attempt_frequency()[0]), float(m.attempt_frequency()[0]) / s, 'attempt frequency scales with 1/s', rtol=1e-7)
    same = base + np.cumsum(np.repeat(steps[:, :1], N, axis=1), axis=0)
    mh = mk(lat.matrix, dt, same).metrics()
    close(float(mh.haven_ratio(dimensions=3)), 1.0, 'Haven ratio for identical motion', rtol=1e-7)
    parts = tr.split(3, equal_parts=True)
    std = TrajectoryMetricsStd(parts)
    vals = [float(p.metrics().tracer_diffusivity(dimensions=3)) for p in parts]
    uf = std.tracer_diffusivity(dimensions=3)
    close(uf.n, np.mean(vals), 'Std.tracer_diffusivity mean')
    close(uf.s, np.std(vals), 'Std.tracer_diffusivity std', rtol=1e-7)
    return {'reproduced': bool(bad), 'detail': f'seed={seed}: ' + '; '.join(bad[:4])}


def bounded_metrics(tier, seed):
    import numpy as np
    n = 12 if tier == 'quick' else 2000
    st = Stand('C14.metrics.random', f'{n} random unwrapped trajectories (12-40 frames, 2-4 atoms, all lattice families), k in {{0.5,1.7,3}}, s in {{0.5,3}}, z in {{1,-2,3}}, dimensions 1-3',
               'seeded random vs independent numpy formulas; every case non-trivial')
    rng = np.random.default_rng(seed + 1414)
    for c in range(n):
        inp = {'seed': int(rng.integers(1, 10 ** 6)), 'k': float(rng.choice([0.5, 1.7, 3.0])), 's': float(rng.choice([0.5, 3.0])), 'weak': c % 4 == 2, 'left_handed': c % 3 == 1}
        if inp['weak']:
            inp['frozen'] = False
        r = st.guard(replay_metrics, inp)
        if r is None:
            continue
        st.case(inp, nontrivial=True, sample=inp)
        if r['reproduced']:
            st.violation('metrics', r['detail'], 'verif.props.c14:replay_metrics', inp)
    return st.result()


# generic purity stand-in (arguments unchanged, second call equal, fresh call equal) over this property's API calls
from verif.native.purity import make_bounded as _make_purity  # noqa: E402
from verif.props.purity_reg import REG as _PURITY_REG  # noqa: E402
PURITY = _PURITY_REG['C14']
bounded_purity = _make_purity('C14', PURITY)


# plumbing around the anchored functions: forwarding contracts of the public wrappers, no state shared between calls or objects
from verif.props import plumbing as _plumbing  # noqa: E402


def unit_plumbing(tier):
    return _plumbing.unit_plumbing(PROPERTY)


bounded_plumbing = _plumbing.make_bounded(PROPERTY)

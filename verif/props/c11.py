"""C11 — radial distributions equal brute-force histograms and partition over states."""
from __future__ import annotations

import z3

from verif.bounded import Stand
from verif.engine import values as V
from verif.engine.interp import SymIter
from verif.engine.unit import Unit
from verif.engine.values import SObj, SSeq, STensor, to_z3
from verif.props.common import install_common, sym_trajectory

PROPERTY = 'C11'
MANIFEST = {
    'level_text': 'Proved for all numbers of sites / labels / frames / atoms: _uniqify_labels maps NOSITE to -1 and site k to the code of its own '
                  'label (np.digitize + table lookup index algebra); the state code s*1e6+p*1e3+q is injective for fewer than 1000 labels and '
                  '_get_states_array combines the codes of (site, previous site, next site) of each atom-frame; '
                  'radial_distribution_between_species divides the histogram of the all-pairs minimum-image distances by '
                  'rho_2 * 4/3 pi ((r+dr)^3 - r^3), rho_2 = N_2/V, on bins k*dr. Bounded only: the three nested accumulation loops of '
                  'radial_distribution (partition of the pair counts over states and bins), the state-name table, symmetry of raw counts.',
    'level_note': 'Trusted: numpy digitize/arange/histogram/bincount contracts, python set()/list.index as an arbitrary bijection between labels '
                  'and codes, pymatgen get_all_distances as mindist, Trajectory.filter contract (C13/C15), pi as a symbolic constant, pyvc.',
    'technique': 'deductive: VCs from the real AST of _uniqify_labels, _get_states_array, radial_distribution_between_species + an injectivity '
                 'lemma; z3/cvc5; finite-scope counter-models replayed natively; brute-force triple-loop oracle as bounded stand-in',
}
UNITS = ['unit_uniqify', 'unit_code_injective', 'unit_states_array', 'unit_between_species', 'unit_dep_ffill', 'unit_dep_bfill', 'unit_dep_prev_next', 'unit_plumbing']
BOUNDED = ['bounded_rdf', 'bounded_purity', 'bounded_plumbing']
META = {
    'clauses': {'C11.uniq': 'P', 'C11.code': 'P (injectivity lemma) + B (_get_states name table)', 'C11.sem': 'P given C11.uniq and C03 prev/next',
                'C11.part': 'B', 'C11.pair': 'P (formula, bins) + A (np.histogram) ; symmetry B'},
    'not_decided': ['radial_distribution accumulation loops (dict keyed by state string x symbol): bounded brute-force oracle only',
                    'symmetry of raw pair counts under swapping the species (needs Count-under-bijection meta lemma): bounded'],
}


def _labels(ctx, u):
    n = z3.Int('n_sites')
    ctx.assume(n >= 1)
    lab = z3.Function('label_code', z3.IntSort(), z3.IntSort())
    labels = SSeq(n, lambda k: lab(to_z3(k)))
    labels.is_labels = True
    return n, lab, labels


def _install_labels(u):
    """python set(labels) / list(set) / list.index over a symbolic label list: an arbitrary bijection ulab between the
    distinct labels and 0..U-1 (the iteration order of a set is unspecified)."""
    ulab = z3.Function('ulab', z3.IntSort(), z3.IntSort())
    u.ulab = ulab

    def set_hook(interp, v, line):
        if isinstance(v, SSeq) and getattr(v, 'is_labels', False):
            return SObj('LabelSet', seq=v)
        return NotImplemented
    u.set_hook = set_hook

    def iterate_hook(interp, v, line):
        if isinstance(v, SObj) and v._cls == 'LabelSet':
            ctx = interp.ctx
            U = z3.Int('n_unique_labels')
            seq = v.get('seq')
            k, k2 = z3.Int(ctx.name('k')), z3.Int(ctx.name('k'))
            n = to_z3(seq.length)
            ctx.assume(z3.And(U >= 1, U <= n))
            ctx.assume(z3.ForAll([k], z3.Implies(z3.And(k >= 0, k < n), z3.And(ulab(seq.fn(k)) >= 0, ulab(seq.fn(k)) < U)), patterns=[ulab(seq.fn(k))]),
                       tag='list(set(labels)).index(label): a bijection between distinct labels and 0..U-1')
            ctx.assume(z3.ForAll([k, k2], z3.Implies(z3.And(k >= 0, k < n, k2 >= 0, k2 < n, ulab(seq.fn(k)) == ulab(seq.fn(k2))), seq.fn(k) == seq.fn(k2))))
            it = SymIter(U, lambda j: z3.Int('opaque_label'))
            it.is_ulabels = True
            return it
        return NotImplemented
    u.iterate_hook = iterate_hook

    def seq_index_method(interp, line, base, item):
        return ulab(to_z3(item))
    u.bound['seq.index'] = seq_index_method


def unit_uniqify(tier):
    u = Unit('C11.uniqify')
    _install_labels(u)

    def setup(interp):
        ctx = interp.ctx
        n, lab, labels = _labels(ctx, u)
        T, N = z3.Int('T'), z3.Int('N')
        ctx.assume(z3.And(T >= 1, N >= 1))
        sf = z3.Function('site_of', z3.IntSort(), z3.IntSort(), z3.IntSort())
        t, a = z3.Ints('t a')
        ctx.assume(z3.ForAll([t, a], z3.And(sf(t, a) >= -1, sf(t, a) < n), patterns=[sf(t, a)]), tag='requires: states in [-1, n_sites)')
        arr = STensor((T, N), lambda i, j: sf(to_z3(i), to_z3(j)), 'int')
        return [arr, labels], {}, {'n': n, 'lab': lab, 'sf': sf, 'T': T, 'N': N}

    def post(interp, st, res):
        t, a = z3.Ints('pt pa')
        sf, lab = st['sf'], st['lab']
        rng = z3.And(t >= 0, t < st['T'], a >= 0, a < st['N'])
        return [('shape', z3.And(res.shape[0] == st['T'], res.shape[1] == st['N'])),
                ('nosite-stays-nosite', z3.ForAll([t, a], z3.Implies(z3.And(rng, sf(t, a) == -1), res.at(t, a) == -1))),
                ('site-gets-its-own-label', z3.ForAll([t, a], z3.Implies(z3.And(rng, sf(t, a) >= 0), res.at(t, a) == u.ulab(lab(sf(t, a))))))]

    def concretise(model, st, ob):
        n = model.eval(st['n'], model_completion=True).as_long()
        T = model.eval(st['T'], model_completion=True).as_long()
        N = model.eval(st['N'], model_completion=True).as_long()
        if n > 12 or T * N > 60:
            raise ValueError('too large')
        codes = [model.eval(st['lab'](k), model_completion=True).as_long() for k in range(n)]
        names = {c: f'L{i}' for i, c in enumerate(sorted(set(codes)))}
        return {'labels': [names[c] for c in codes],
                'arr': [[model.eval(st['sf'](t, a), model_completion=True).as_long() for a in range(N)] for t in range(T)]}
    u.prove_function('gemdat.rdf', '_uniqify_labels', setup, post, raises=(),
                     replay={'fn': 'verif.props.c11:replay_uniqify', 'concretise': concretise, 'sizes': lambda st: [st['n'], st['T'], st['N']]})
    return u


def unit_code_injective(tier):
    u = Unit('C11.code')

    def build(ctx):
        L = z3.Int('n_labels')
        v = z3.Ints('s p q s2 p2 q2')
        ctx.assume(z3.And(L >= 1, L < 1000, *[z3.And(x >= -1, x < L) for x in v]))
        c1 = v[0] * 1000000 + v[1] * 1000 + v[2]
        c2 = v[3] * 1000000 + v[4] * 1000 + v[5]
        return [('code-injective-below-1000-labels', z3.Implies(c1 == c2, z3.And(v[0] == v[3], v[1] == v[4], v[2] == v[5])))]
    u.lemma('C11.code.injective', build)
    return u


def unit_states_array(tier):
    """_get_states_array: code(t,a) = u(state)*1e6 + u(prev)*1e3 + u(next) with the three views taken from the transitions."""
    u = Unit('C11.states_array')
    calls = []

    def uniq_contract(interp, arr, labels):
        k = len(calls)
        calls.append(arr)
        f = z3.Function(f'ucode_{k}', z3.IntSort(), z3.IntSort(), z3.IntSort())
        interp.ctx.use('contract of _uniqify_labels (unit C11.uniqify)')
        out = STensor(arr.shape, lambda t, a: f(to_z3(t), to_z3(a)), 'int')
        out.ucode = f
        return out
    u.contracts['gemdat.rdf._uniqify_labels'] = uniq_contract

    def setup(interp):
        calls.clear()
        T, N = z3.Int('T'), z3.Int('N')
        interp.ctx.assume(z3.And(T >= 1, N >= 1))
        mk = lambda nm: STensor((T, N), lambda t, a: z3.Int(nm), 'int')  # noqa: E731
        views = {'states': mk('s'), 'prev': mk('p'), 'next': mk('n')}
        tr = SObj('Transitions', states=views['states'])
        u.obj_attrs[('Transitions', 'states_prev')] = lambda i, o, l: __import__('verif.engine.interp', fromlist=['PyFn']).PyFn(lambda ii, ll: views['prev'])
        u.obj_attrs[('Transitions', 'states_next')] = lambda i, o, l: __import__('verif.engine.interp', fromlist=['PyFn']).PyFn(lambda ii, ll: views['next'])
        return [tr, SSeq(z3.Int('n_sites'), lambda k: z3.Int('lab'))], {}, {'T': T, 'N': N, 'views': views}

    def post(interp, st, res):
        t, a = z3.Ints('pt pa')
        ok = len(calls) == 3 and calls[0] is st['views']['states'] and calls[1] is st['views']['prev'] and calls[2] is st['views']['next']
        out = [('views are (states, states_prev, states_next) in this order', z3.BoolVal(bool(ok)))]
        if ok:
            f = [z3.Function(f'ucode_{k}', z3.IntSort(), z3.IntSort(), z3.IntSort()) for k in range(3)]
            rng = z3.And(t >= 0, t < st['T'], a >= 0, a < st['N'])
            out.append(('code', z3.ForAll([t, a], z3.Implies(rng, res.at(t, a) == f[0](t, a) * 1000000 + f[1](t, a) * 1000 + f[2](t, a)))))
        return out
    u.prove_function('gemdat.rdf', '_get_states_array', setup, post, raises=(),
                     replay={'fn': 'verif.props.c11:replay_rdf', 'sizes': lambda st: [], 'concretise': lambda m, st, ob: {'seed': 2}})
    return u


def unit_dep_ffill(tier):
    """C11.sem rests on the contract of states_prev (ffill): its obligations are re-discharged here (modular dependency)."""
    from verif.props.c03 import unit_ffill
    return unit_ffill(tier)


def unit_dep_bfill(tier):
    from verif.props.c03 import unit_bfill
    return unit_bfill(tier)


def unit_dep_prev_next(tier):
    from verif.props.c03 import unit_prev_next
    return unit_prev_next(tier)


def unit_between_species(tier):
    """radial_distribution_between_species: x = k*dr; y[k] = hist[k] / (rho2 * 4/3 pi ((x_k+dr)^3 - x_k^3)), rho2 = N2 / V,
    hist = np.histogram of all pair distances mindist(species1 atom, species2 atom) over all frames on the edges k*dr."""
    u = Unit('C11.between_species')
    install_common(u)
    rec = {}

    def filter_contract(interp, self, species):
        ctx = interp.ctx
        k = len(rec.setdefault('filters', []))
        Nk = z3.Int(f'N_sel{k}')
        ctx.assume(Nk >= 1)
        pos = z3.Function(f'sel{k}_pos', z3.IntSort(), z3.IntSort(), z3.IntSort(), z3.RealSort())
        T = self.get('_T')
        coords = STensor((T, Nk, 3), lambda t, a, c: pos(to_z3(t), to_z3(a), to_z3(c)), 'real')
        rec['filters'].append({'species': species, 'N': Nk, 'pos': pos})
        ctx.use('contract of Trajectory.filter (C13/C15): the atoms of the named species, in order')
        return SObj('Trajectory', coords=coords, _T=T)
    u.contracts['gemdat.trajectory.Trajectory.filter'] = filter_contract

    def np_concatenate(interp, line, seq, axis=0):
        rec['concat'] = seq
        if isinstance(seq, SSeq):
            return SObj('AllDists', seq=seq)
        raise Exception('expected a per-frame list')
    u.lib['numpy.concatenate'] = np_concatenate
    u.obj_attrs[('AllDists', 'flatten')] = lambda i, o, l: __import__('verif.engine.interp', fromlist=['PyFn']).PyFn(lambda ii, ll: o)

    def np_histogram(interp, line, data, bins=None, density=False):
        ctx = interp.ctx
        ctx.use('numpy.histogram(x, bins): hist[k] = #{x: bins[k] <= x < bins[k+1]} (last bin closed), for increasing bins')
        rec['hist'] = {'data': data, 'bins': bins, 'density': density}
        H = z3.Function('hist', z3.IntSort(), z3.IntSort())
        k = z3.Int('hk')
        ctx.assume(z3.ForAll([k], H(k) >= 0, patterns=[H(k)]))
        nb = bins.shape[0]
        return STensor((V.binop('-', nb, 1),), lambda i: H(to_z3(i)), 'int'), bins
    u.lib['numpy.histogram'] = np_histogram

    def setup(interp):
        ctx = interp.ctx
        rec.clear()
        traj, st = sym_trajectory(ctx)
        md, dr = z3.Real('max_dist'), z3.Real('resolution')
        ctx.assume(z3.And(md > 0, dr > 0))
        st.update({'md': md, 'dr': dr})
        return [], {'trajectory': traj, 'specie_1': 'Li', 'specie_2': 'O', 'max_dist': md, 'resolution': dr}, st

    def post(interp, st, res):
        out = []
        fl = rec.get('filters', [])
        out.append(('filters species_1 then species_2', z3.BoolVal(len(fl) == 2 and fl[0]['species'] == 'Li' and fl[1]['species'] == 'O')))
        h = rec.get('hist')
        cat = rec.get('concat')
        out.append(('histogram of the concatenated per-frame distance blocks, not normalised by numpy',
                    z3.BoolVal(h is not None and isinstance(h['data'], SObj) and h['data'].get('seq') is cat and h['density'] is False)))
        if len(fl) != 2 or h is None or not isinstance(cat, SSeq):
            return out
        t, i, j, k = z3.Ints('pt pi pj pk')
        T = st['T']
        out.append(('one block per frame', to_z3(cat.length) == T))
        blk = cat.fn(t)
        p1, p2 = fl[0]['pos'], fl[1]['pos']
        from verif.engine import world as W
        lid = st['lat'].get('_id')
        out.append(('block[t][i,j] = mindist(species1 atom i, species2 atom j) at frame t', z3.ForAll([t, i, j], z3.Implies(
            z3.And(t >= 0, t < T, i >= 0, i < fl[0]['N'], j >= 0, j < fl[1]['N']),
            blk.at(i, j) == W.MINDIST(lid, p1(t, i, 0), p1(t, i, 1), p1(t, i, 2), p2(t, j, 0), p2(t, j, 1), p2(t, j, 2))))))
        out.append(('block shape', z3.And(blk.shape[0] == fl[0]['N'], blk.shape[1] == fl[1]['N'])))
        bins = h['bins']
        dr, md = st['dr'], st['md']
        out.append(('bin edges k*dr', z3.ForAll([k], z3.Implies(z3.And(k >= 0, k < bins.shape[0]), bins.at(k) == z3.ToReal(k) * dr))))
        out.append(('edges cover [0, max_dist]: the last edge is not below the cut-off', z3.And(bins.shape[0] >= 2, z3.ToReal(bins.shape[0] - 1) * dr >= md)))
        x, y = res.get('x'), res.get('y')
        H = z3.Function('hist', z3.IntSort(), z3.IntSort())
        rho = z3.ToReal(fl[1]['N']) / st['lat'].get('volume')
        pi = u._pi
        xk = z3.ToReal(k) * dr
        shell = (xk + dr) * (xk + dr) * (xk + dr) - xk * xk * xk
        out.append(('x[k] = k*dr', z3.ForAll([k], z3.Implies(z3.And(k >= 0, k < x.shape[0]), x.at(k) == xk))))
        out.append(('y[k] = hist[k] / (rho2 * 4/3 pi shell_k)', z3.ForAll([k], z3.Implies(z3.And(k >= 0, k < y.shape[0]),
                                                                                       y.at(k) == z3.ToReal(H(k)) / (rho * (z3.RealVal(4) / 3) * pi * shell)))))
        out.append(('lengths', z3.And(x.shape[0] == bins.shape[0] - 1, y.shape[0] == bins.shape[0] - 1)))
        return out
    u.prove_function('gemdat.rdf', 'radial_distribution_between_species', setup, post, raises=(),
                     replay={'fn': 'verif.props.c11:replay_rdf', 'sizes': lambda st: [], 'concretise': lambda m, st, ob: {'seed': 2}})
    return u


# ---------------------------------------------------------------------------------------------------------------

def replay_uniqify(inputs):
    import numpy as np
    from gemdat.rdf import _uniqify_labels
    labels = inputs['labels']
    arr = np.array(inputs['arr'], dtype=int)
    try:
        res = _uniqify_labels(arr, labels)
    except Exception as e:
        return {'reproduced': True, 'detail': f'raised {type(e).__name__}: {e}'}
    # recover the (arbitrary) label->code bijection from the result and check consistency
    bad = []
    code = {}
    for v, r in zip(arr.ravel(), res.ravel()):
        if v == -1:
            if r != -1:
                bad.append(f'NOSITE mapped to {r}')
            continue
        lab = labels[v]
        if r == -1:
            bad.append(f'site {v} (label {lab}) mapped to -1 (no site)')
        elif code.setdefault(lab, r) != r:
            bad.append(f'label {lab} has two codes {code[lab]} and {r}')
    if len(set(code.values())) != len(code):
        bad.append(f'two labels share a code: {code}')
    return {'reproduced': bool(bad), 'detail': f'labels={labels} arr={arr.tolist()} -> {res.tolist()}: ' + '; '.join(sorted(set(bad))[:4])}


def replay_rdf(inputs):
    """Brute-force oracle for radial_distribution (per state) and radial_distribution_between_species."""
    import numpy as np
    from gemdat.rdf import _get_states, radial_distribution, radial_distribution_between_species
    from verif.native.synth import hopping_system
    seed = inputs['seed']
    rng = np.random.default_rng(seed)
    labels = inputs.get('labels') or [['A', 'B', 'A', 'B'], ['A', 'A', 'B', 'B'], ['B', 'A', 'C', 'A'], ['A', 'A', 'A', 'A']][seed % 4]
    traj, sites, info = hopping_system(seed, n_frames=inputs.get('n_frames', 25), n_diff=2, n_sites=len(labels), labels=labels,
                                       n_frame_atoms=5, frame_symbols=('O', 'O', 'P'), hop_prob=0.3, interleave=bool(seed % 2),  # 2 Li, 4 O, 1 P: unequal counts
                                       edge_transit=(3, 4) if inputs.get('edge', seed % 3 == 0) else None)  # an atom that starts, and one that ends, the run between sites
    bad = []
    if inputs.get('displacement_mode', seed % 5 in (1, 2)):
        _ = traj.displacements  # the same trajectory object was used for a displacement analysis before (it is held in displacement mode now)
    lat = __import__('pymatgen.core', fromlist=['Lattice']).Lattice(__import__('numpy').array(traj.lattice, dtype=float).reshape(3, 3))  # the raw cell, not the library's get_lattice()
    max_dist, res = float(inputs.get('max_dist', 3.0)), float(inputs.get('resolution', 0.5))
    # ---- between species
    r = radial_distribution_between_species(trajectory=traj, specie_1='Li', specie_2='O', max_dist=max_dist, resolution=res)
    c1, c2 = traj.filter('Li').positions, traj.filter('O').positions
    d = np.concatenate([lat.get_all_distances(c1[t], c2[t]).ravel() for t in range(len(traj))])
    edges = np.arange(0, max_dist + res, res)
    hist = np.array([((d >= edges[k]) & ((d < edges[k + 1]) if k < len(edges) - 2 else (d <= edges[k + 1]))).sum() for k in range(len(edges) - 1)])
    rho = c2.shape[1] / lat.volume
    exp = hist / (rho * 4 / 3 * np.pi * ((edges[:-1] + res) ** 3 - edges[:-1] ** 3))
    if len(r.y) != len(exp) or not np.allclose(r.y, exp, rtol=1e-9, atol=1e-12) or not np.allclose(r.x, edges[:-1]):
        bad.append('radial_distribution_between_species differs from the brute-force normalised histogram')
    r2 = radial_distribution_between_species(trajectory=traj, specie_1='O', specie_2='Li', max_dist=max_dist, resolution=res)
    if len(r.y) == len(exp) and len(r2.y) == len(exp):
        raw1 = r.y * (rho * 4 / 3 * np.pi * ((edges[:-1] + res) ** 3 - edges[:-1] ** 3))
        rho1 = c1.shape[1] / lat.volume
        raw2 = r2.y * (rho1 * 4 / 3 * np.pi * ((edges[:-1] + res) ** 3 - edges[:-1] ** 3))
        if not np.allclose(raw1, raw2, rtol=1e-9, atol=1e-9):
            bad.append('raw pair counts are not symmetric in the two species')
    # ---- per state
    try:
        tr = traj.transitions_between_sites(sites, 'Li', site_radius=1.0)
    except Exception as e:
        return {'reproduced': bool(bad), 'detail': f'seed={seed}: transitions failed ({type(e).__name__}) - per-state part skipped; ' + '; '.join(bad)}
    rd = radial_distribution(transitions=tr, floating_specie='Li', max_dist=max_dist, resolution=res)
    states = tr.states
    T, N = states.shape
    # independent oracle for the previous / next visited site (not the library's own views)
    prev = np.full_like(states, -1)
    nxt = np.full_like(states, -1)
    for a in range(N):
        last = -1
        for t in range(T):
            if states[t, a] != -1:
                last = states[t, a]
            prev[t, a] = last
        last = -1
        for t in range(T - 1, -1, -1):
            if states[t, a] != -1:
                last = states[t, a]
            nxt[t, a] = last
    coords = traj.positions
    sp = traj.filter('Li').positions
    symbols = [s.symbol for s in traj.species]
    nb = len(edges)
    brute = {}
    total_pairs = 0
    for t in range(T):
        dist = lat.get_all_distances(sp[t], coords[t])
        for a in range(N):
            s = states[t, a]
            if s >= 0:
                name = '@' + labels[s]
            elif prev[t, a] >= 0 and nxt[t, a] >= 0:
                name = labels[prev[t, a]] + '->' + labels[nxt[t, a]]
            else:
                name = None  # '~>' states: not named by the property
            for o in range(coords.shape[1]):
                b = int(np.digitize(dist[a, o], edges, right=True))
                if b < nb:
                    total_pairs += 1
                    if name is not None:
                        key = (name, symbols[o])
                        brute.setdefault(key, np.zeros(nb, dtype=int))[b] += 1
    got_total = 0
    got = {}
    for state, coll in rd.items():
        for item in coll:
            got[(state, item.label)] = np.asarray(item.y)
            got_total += int(np.asarray(item.y).sum())
    if got_total != total_pairs:
        bad.append(f'per-state RDFs count {got_total} pairs within the cut-off, brute force finds {total_pairs} (every pair exactly once)')
    for key, v in brute.items():
        g = got.get(key)
        if g is None:
            if v.sum():
                bad.append(f'state {key} missing')
        elif len(g) != nb or (g != v).any():
            bad.append(f'state {key}: counts {g.tolist()} != brute force {v.tolist()}')
    for key in got:
        if not key[0].startswith('~>') and key not in brute and got[key].sum():
            bad.append(f'state {key} reported but never occupied')
    st_names = _get_states(labels)
    if len(set(st_names.keys())) != (len(set(labels)) + 1) ** 3:
        bad.append('state-code table is not injective')
    return {'reproduced': bool(bad), 'detail': f'seed={seed} labels={labels}: ' + '; '.join(bad[:4])}


def replay_rdf_exact(inputs):
    """Distances exactly on bin edges and exactly at the cut-off (dyadic coordinates in an 8 A cubic cell: exact in binary floating point):
    the histogram uses half-open bins [k dr, (k+1) dr) with the last one closed, so a pair exactly at max_dist is counted in the last shell."""
    import numpy as np
    from pymatgen.core import Element
    from gemdat.rdf import radial_distribution_between_species
    from gemdat.trajectory import Trajectory
    md, res = float(inputs.get('max_dist', 2.0)), float(inputs.get('resolution', 0.5))
    # Li at the origin; O at distances 0.5, 1.0, 2.0 (exactly the cut-off), 2.5 (beyond) along the axes, one frame repeated twice
    frame = np.array([[0.0, 0.0, 0.0], [0.0625, 0.0, 0.0], [0.0, 0.125, 0.0], [0.0, 0.0, 0.25], [0.3125, 0.0, 0.0]])
    traj = Trajectory(species=[Element('Li')] + [Element('O')] * 4, coords=np.stack([frame, frame]), lattice=np.eye(3) * 8.0, time_step=1e-15)
    r = radial_distribution_between_species(trajectory=traj, specie_1='Li', specie_2='O', max_dist=md, resolution=res)
    d = np.array([0.5, 1.0, 2.0, 2.5] * 2)
    edges = np.arange(0, md + res, res)
    hist = np.array([((d >= edges[k]) & ((d < edges[k + 1]) if k < len(edges) - 2 else (d <= edges[k + 1]))).sum() for k in range(len(edges) - 1)])
    rho = 4 / 8.0 ** 3
    exp = hist / (rho * 4 / 3 * np.pi * ((edges[:-1] + res) ** 3 - edges[:-1] ** 3))
    bad = []
    if len(r.y) != len(exp) or not np.allclose(r.y, exp, rtol=1e-12, atol=0):
        bad.append(f'pairs at distances {sorted(set(d.tolist()))} with cut-off {md}, shell width {res}: y = {np.asarray(r.y).tolist()}, brute force {exp.tolist()}')
    return {'reproduced': bool(bad), 'detail': '; '.join(bad) or 'ok'}


def bounded_rdf(tier, seed):
    import itertools
    import numpy as np
    n = 8 if tier == 'quick' else 120
    st = Stand('C11.rdf.bruteforce', f'{n} synthetic 3-species systems (25 frames, 2 diffusing + 3 framework atoms, 4 sites, label layouts '
               'ABAB/AABB/BACA/AAAA) vs a brute-force triple loop; exhaustive _uniqify_labels over label lists of length <= 4 on 3 labels',
               'seeded random + exhaustive; non-trivial = system with >= 2 labels; distinct by input')
    rng = np.random.default_rng(seed + 1111)
    for labs in itertools.chain.from_iterable(itertools.product('ABC', repeat=k) for k in range(1, 5)):
        arr = [[-1] + list(range(len(labs)))]
        inp = {'labels': list(labs), 'arr': arr}
        r = replay_uniqify(inp)
        st.case(inp, nontrivial=len(set(labs)) > 1)
        if r['reproduced']:
            st.violation('uniqify', r['detail'], 'verif.props.c11:replay_uniqify', inp)
    for md_, res_ in ((2.0, 0.5), (2.0, 1.0), (1.0, 0.5), (2.5, 0.5)):
        inp = {'max_dist': md_, 'resolution': res_}
        r = st.guard(replay_rdf_exact, inp)
        if r is not None:
            st.case(inp, nontrivial=True)
            if r['reproduced']:
                st.violation('rdf-exact-edges', r['detail'], 'verif.props.c11:replay_rdf_exact', inp)
    for c in range(n):
        inp = {'seed': int(rng.integers(1, 10 ** 6)), 'max_dist': float(rng.choice([2.0, 3.0, 4.5])), 'resolution': float(rng.choice([0.25, 0.5, 1.0])),
               'edge': c % 2 == 0, 'displacement_mode': c % 3 == 1}
        r = st.guard(replay_rdf, inp)
        if r is None:
            continue
        st.case(inp, nontrivial=inp['seed'] % 4 != 3, sample=inp)
        if r['reproduced']:
            st.violation('rdf', r['detail'], 'verif.props.c11:replay_rdf', inp)
    return st.result()


# generic purity stand-in (arguments unchanged, second call equal, fresh call equal) over this property's API calls
from verif.native.purity import make_bounded as _make_purity  # noqa: E402
from verif.props.purity_reg import REG as _PURITY_REG  # noqa: E402
PURITY = _PURITY_REG['C11']
bounded_purity = _make_purity('C11', PURITY)


# plumbing around the anchored functions: forwarding contracts of the public wrappers, no state shared between calls or objects
from verif.props import plumbing as _plumbing  # noqa: E402


def unit_plumbing(tier):
    return _plumbing.unit_plumbing(PROPERTY)


bounded_plumbing = _plumbing.make_bounded(PROPERTY)

"""Registry of the API calls exercised by the generic purity stand-in (verif.native.purity), per property."""
from __future__ import annotations

import numpy as np

from verif.native.purity import history, system, transitions


def _hist_transitions(seed, inner=True):
    from verif.native.synth import make_transitions
    st, inn = history(seed)
    return make_transitions(st, inner_states=inn if inner else None, n_sites=3, labels=['A', 'B', 'A'], seed=seed)


def _volume(seed):
    traj, sites, info = system(seed, n_frames=25)
    return traj.filter('Li').to_volume(resolution=0.9)


def _grid(seed):
    rng = np.random.default_rng(seed)
    F = rng.uniform(0.0, 3.0, size=(3, 4, 3))
    F[rng.random(F.shape) < 0.2] = 1e8
    F[0, 0, 0] = 0.1
    F[2, 3, 2] = 0.2
    F[1, 1, 1] = 0.3
    return F


def _orient(seed):
    from gemdat.orientations import Orientations
    from verif.props.c18 import _tetra_system
    traj, lat = _tetra_system(seed)
    return Orientations(traj, 'P', 'O')


REG = {}

# ---- C02 ----------------------------------------------------------------------------------------------------------
def _c02_dict(seed):
    from gemdat.transitions import Transitions
    traj, sites, info = system(seed)
    rad = {'A': 1.0, 'B': 0.8, 'C': 1.1}
    return (lambda traj, sites, rad: Transitions.from_trajectory(trajectory=traj, sites=sites, floating_specie='Li', site_radius=rad, site_inner_fraction=0.6)), \
        {'traj': traj, 'sites': sites, 'rad': rad}


def _c02_float(seed):
    from gemdat.transitions import Transitions
    traj, sites, info = system(seed)
    return (lambda traj, sites: Transitions.from_trajectory(trajectory=traj, sites=sites, floating_specie='Li', site_radius=1.0, site_inner_fraction=0.7)), {'traj': traj, 'sites': sites}


def _c02_states(seed):
    from gemdat.transitions import _calculate_atom_states
    traj, sites, info = system(seed)
    rad = {'': 1.0}
    diff = traj.filter('Li')
    return (lambda sites, diff, rad: _calculate_atom_states(sites=sites, trajectory=diff, site_radius=rad, site_inner_fraction=0.5)), {'sites': sites, 'diff': diff, 'rad': rad}


REG['C02'] = [('Transitions.from_trajectory(per-label radii)', _c02_dict), ('Transitions.from_trajectory(float radius)', _c02_float), ('_calculate_atom_states', _c02_states)]

# ---- C03 ----------------------------------------------------------------------------------------------------------
def _c03_events(seed):
    from gemdat.transitions import _calculate_transition_events
    st, inn = history(seed)
    return (lambda atom_sites, atom_inner_sites: _calculate_transition_events(atom_sites=atom_sites, atom_inner_sites=atom_inner_sites)), {'atom_sites': st, 'atom_inner_sites': inn}


def _c03_prev_next(seed):
    tr = _hist_transitions(seed)
    return (lambda tr: (tr.states_prev(), tr.states_next(), tr.states_next(), tr.states_prev())), {'tr': tr}


def _c03_fill(seed):
    from gemdat.utils import bfill, ffill
    st, inn = history(seed)
    return (lambda arr: (ffill(arr, fill_val=-1, axis=0), bfill(arr, fill_val=-1, axis=0))), {'arr': st}


REG['C03'] = [('_calculate_transition_events', _c03_events), ('Transitions.states_prev/states_next', _c03_prev_next), ('ffill/bfill', _c03_fill)]

# ---- C04 ----------------------------------------------------------------------------------------------------------
def _c04_jumps(m):
    def build(seed):
        from gemdat.jumps import _generic_transitions_to_jumps
        tr = _hist_transitions(seed)

        def call(tr):
            try:
                return _generic_transitions_to_jumps(tr, minimal_residence=m)
            except ValueError as e:
                return str(e)
        return call, {'tr': tr}
    return build


def _c04_object(seed):
    tr = _hist_transitions(seed)

    def call(tr):
        try:
            j = tr.jumps(minimal_residence=1)
            return (j.data, j.n_jumps)
        except ValueError as e:
            return str(e)
    return call, {'tr': tr}


REG['C04'] = [('_generic_transitions_to_jumps(residence 0)', _c04_jumps(0)), ('_generic_transitions_to_jumps(residence 2)', _c04_jumps(2)), ('Transitions.jumps', _c04_object)]

# ---- C05 ----------------------------------------------------------------------------------------------------------
def _c05_all(seed):
    tr = _hist_transitions(seed, inner=False)

    def call(tr):
        out = [tr.matrix(), tr.occupancy(), tr.atom_locations(), tr.matrix()]
        try:
            j = tr.jumps()
            out += [j.matrix(), j.counter(), j.to_graph(), j.jump_diffusivity(3), j.rates(n_parts=1) if False else None, j.matrix()]
        except ValueError as e:
            out.append(str(e))
        return out
    return call, {'tr': tr}


REG['C05'] = [('Transitions.matrix/occupancy/atom_locations, Jumps.matrix/counter/to_graph/jump_diffusivity', _c05_all)]

# ---- C06 ----------------------------------------------------------------------------------------------------------
def _c06(seed):
    traj, sites, info = system(seed)
    li = traj.filter('Li')
    return (lambda li: (li.mean_squared_displacement(), li.distances_from_base_position(), li.metrics().tracer_diffusivity(dimensions=2), li.mean_squared_displacement())), {'li': li}


def _c06_direct(seed):
    traj, sites, info = system(seed)
    return (lambda traj: (np.array(traj.mean_squared_displacement(), copy=True), np.array(traj.distances_from_base_position(), copy=True),
                          traj.metrics().tracer_diffusivity(dimensions=3), np.array(traj.cumulative_displacements, copy=True), traj.mean_squared_displacement())), {'traj': traj}


REG['C06'] = [('mean_squared_displacement / distances_from_base_position / tracer_diffusivity', _c06), ('the same on a directly constructed trajectory', _c06_direct)]

# ---- C07: the whole pipeline ---------------------------------------------------------------------------------------
def _c07(seed):
    traj, sites, info = system(seed)

    def call(traj, sites):
        tr = traj.transitions_between_sites(sites, 'Li', site_radius=1.0, site_inner_fraction=0.7)
        out = [tr.states, tr.events]
        try:
            j = tr.jumps(minimal_residence=1)
            out += [j.data, j.matrix(), j.jump_diffusivity(3), j.collective(max_dist=3.0)]
        except ValueError as e:
            out.append(str(e))
        return out
    return call, {'traj': traj, 'sites': sites}


REG['C07'] = [('transitions -> jumps -> collective pipeline', _c07)]

# ---- C08 / C09 / C10 ------------------------------------------------------------------------------------------------
def _c08(seed):
    traj, sites, info = system(seed)
    li = traj.filter('Li')

    def call(li):
        v = li.to_volume(resolution=0.9)
        w = li.to_volume(resolution=1.7)
        return [v, w, v.voxel_size, v.frac_coords_to_voxel(v.voxel_to_frac_coords(np.array([[0, 1, 2]])))]
    return call, {'li': li}


def _c08_direct(seed):
    traj, sites, info = system(seed)  # directly constructed trajectory: its coordinate array is C-contiguous, reshapes of it are views

    def call(traj):
        v = traj.to_volume(resolution=0.9)
        w = traj.to_volume(resolution=1.7)
        return [v, w, traj.to_volume(resolution=0.9)]
    return call, {'traj': traj}


REG['C08'] = [('Trajectory.to_volume (two resolutions) / voxel mapping', _c08), ('Trajectory.to_volume on a directly constructed trajectory', _c08_direct)]


def _c09(seed):
    vol = _volume(seed)

    def call(vol):
        with np.errstate(divide='ignore'):
            f = vol.get_free_energy(temperature=600.0)
            g = f.free_energy_graph(max_energy_threshold=1e7)
            h = f.free_energy_graph()
        return [vol.probability(), f, len(g), len(h), vol.get_free_energy(temperature=300.0)]
    return call, {'vol': vol}


REG['C09'] = [('Volume.probability / get_free_energy / free_energy_graph (two thresholds)', _c09)]


def _c10_paths(seed):
    from gemdat import path as gpath
    F = _grid(seed)
    G = gpath.free_energy_graph(F, max_energy_threshold=1e7, diagonal=True)

    def call(F, G):
        import networkx as nx
        out = []
        for method in ('dijkstra', 'bellman-ford', 'dijkstra-exp', 'simple'):
            try:
                p = gpath.optimal_path(G, start=(0, 0, 0), stop=(2, 3, 2), method=method)
                out.append(p)
            except nx.NetworkXNoPath:
                out.append('no path')
        return out
    return call, {'F': F, 'G': G}


def _c10_perc(seed):
    from gemdat import path as gpath
    from gemdat.volume import FreeEnergyVolume
    from pymatgen.core import Lattice
    F = FreeEnergyVolume(data=_grid(seed), lattice=Lattice.cubic(5.0))
    peaks = np.array([[0, 0, 0], [2, 3, 2], [1, 1, 1]])

    def call(F, peaks):
        return [gpath.optimal_percolating_path(F, peaks=peaks, percolate=d) for d in ('x', 'yz')]
    return call, {'F': F, 'peaks': peaks}


REG['C10'] = [('free_energy_graph + optimal_path (4 methods)', _c10_paths), ('optimal_percolating_path', _c10_perc)]

# ---- C11 / C12 -------------------------------------------------------------------------------------------------------
def _c11(seed):
    from gemdat.rdf import radial_distribution, radial_distribution_between_species
    traj, sites, tr = transitions(seed)

    def call(traj, tr):
        a = radial_distribution_between_species(trajectory=traj, specie_1='Li', specie_2='O', max_dist=3.0, resolution=0.5)
        b = radial_distribution(transitions=tr, floating_specie='Li', max_dist=3.0, resolution=0.5)
        return [a, {k: list(v) for k, v in b.items()}]
    return call, {'traj': traj, 'tr': tr}


REG['C11'] = [('radial_distribution_between_species / radial_distribution', _c11)]


def _c12(seed):
    tr = _hist_transitions(seed, inner=False)

    def call(tr):
        try:
            j = tr.jumps()
        except ValueError as e:
            return str(e)
        c = j.collective(max_dist=3.5)
        return [c, c.n_solo_jumps, c.n_coll_jumps, [(tuple(int(x) for x in a[['atom index', 'start site', 'destination site']]), tuple(int(x) for x in b[['atom index', 'start site', 'destination site']])) for a, b in c.collective]]
    return call, {'tr': tr}


REG['C12'] = [('Jumps.collective', _c12)]

# ---- C13 / C14 -------------------------------------------------------------------------------------------------------
def _c13(seed):
    traj, sites, info = system(seed)
    fixed = ['O']

    def call(traj, fixed):
        c = traj.apply_drift_correction(fixed_species=fixed)
        return [traj.drift(fixed_species=fixed), traj.drift(floating_species='Li'), c, traj.filter('Li'), c.drift(fixed_species=fixed)]
    return call, {'traj': traj, 'fixed': fixed}


REG['C13'] = [('drift / apply_drift_correction / filter', _c13)]


def _c14(seed):
    traj, sites, info = system(seed)
    li = traj.filter('Li')

    m = li.metrics()  # the metrics object (and its memoised arrays) lives across the calls; arrays are copied the moment they are obtained

    def call(li, m):
        cp = lambda a: np.array(a, copy=True)  # noqa: E731
        return [cp(m.amplitudes()), cp(m.speed()), m.vibration_amplitude(), cp(m.amplitudes()), m.attempt_frequency(), cp(m.speed()), m.particle_density(), m.mol_per_liter(),
                m.tracer_diffusivity(dimensions=3), m.tracer_conductivity(z_ion=1, dimensions=3), m.haven_ratio(dimensions=3), cp(m.amplitudes()), li.center_of_mass()]
    return call, {'li': li, 'm': m}


REG['C14'] = [('every TrajectoryMetrics method on one object', _c14)]

# ---- C17 / C18 / C19 / C20 ---------------------------------------------------------------------------------------------
def _c17(seed):
    from gemdat.shape import ShapeAnalyzer
    from pymatgen.core import Lattice, PeriodicSite
    from pymatgen.symmetry.groups import SpaceGroup
    rng = np.random.default_rng(seed)
    lat = Lattice.orthorhombic(7.0, 8.0, 9.0)
    site = PeriodicSite('Li', rng.random(3), lat, label='A')
    an = ShapeAnalyzer(sites=[site], lattice=lat, spacegroup=SpaceGroup('Pnma'))
    pos = rng.random((80, 3))
    return (lambda an, site, pos: an.find_equivalent_positions(site=site, positions=pos, radius=2.5)), {'an': an, 'site': site, 'pos': pos}


REG['C17'] = [('ShapeAnalyzer.find_equivalent_positions', _c17)]


def _c18(seed):
    ori = _orient(seed)
    A = np.random.default_rng(seed).normal(size=(3, 3))

    def call(ori, A):
        return [ori.normalize(), ori.transform(A), ori.symmetrize(sym_group='mmm'), ori.vectors_spherical, ori.normalize().vectors, ori.vectors]
    return call, {'ori': ori, 'A': A}


REG['C18'] = [('Orientations.normalize / transform / symmetrize / vectors_spherical', _c18)]


def _c19(seed):
    tr = _hist_transitions(seed)
    n_ev = len(tr.events)

    def call(tr):
        parts = tr.split(max(1, min(3, n_ev)))
        return [[p.states for p in parts], [p.events for p in parts], [t for t in tr.trajectory.split(3, equal_parts=True)]]
    return call, {'tr': tr}


REG['C19'] = [('Transitions.split / Trajectory.split', _c19)]


def _c20(seed):
    tr = _hist_transitions(seed, inner=False)

    m = tr.trajectory.metrics()
    try:
        j = tr.jumps()
    except ValueError:
        j = None

    def call(tr, m, j):
        cp = lambda a: np.array(a, copy=True)  # noqa: E731   copied the moment they are obtained: the cache entry itself may be changed later
        out = [cp(tr.matrix()), tr.occupancy(), cp(m.amplitudes()), cp(m.speed()), m.vibration_amplitude(), cp(m.amplitudes()), m.attempt_frequency(), cp(m.speed())]
        if j is not None:
            out += [cp(j.matrix()), j.to_graph(), j.jump_diffusivity(2), j.jump_diffusivity(3), cp(j.matrix()), j.counter()]
        return out
    return call, {'tr': tr, 'm': m, 'j': j}


REG['C20'] = [('cached methods of Transitions / TrajectoryMetrics / Jumps on one object', _c20)]

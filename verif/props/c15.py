"""C15 — select/slice/split/extend and read-only queries never alter the data."""
from __future__ import annotations

import ast

import z3

from verif.bounded import Stand
from verif.engine import values as V
from verif.engine.interp import ClassRef, LoopSpec
from verif.engine.source import SourceTree, module_path
from verif.engine.unit import Unit
from verif.engine.values import SObj, SSeq, STensor, to_z3
from verif.props.common import frac, install_common, traj_object

PROPERTY = 'C15'
MANIFEST = {
    'level_text': 'Data structure against an abstract view (positions modulo 1 + species, lattice, time step, metadata). Proved: (frame) the '
                  'transitive write-set of every read-only trajectory query - computed from the AST through self.method / super() / '
                  'property reads - is contained in {coords, coords_are_displacement}, and those writes preserve the view (C01 round-trip '
                  'lemmas, re-discharged here); (slice) self[start:stop] executed through the installed pymatgen __getitem__ returns '
                  'frames start..stop-1 of the view from either representation, with species, lattice, time step, metadata, class kept; '
                  '(split) parts are self[b_k:b_k+1] for b = trunc(k(T-1)/n), contiguous, ordered, non-overlapping, equal-length when '
                  'requested (loop invariant for the minimum); (extend) view = concatenation and the appended trajectory is not changed; '
                  '(filter) see C13, re-discharged. The induction over arbitrary call sequences is the standard meta-argument; random call '
                  'sequences against a shadow model are the bounded stand-in.',
    'level_note': 'Trusted: pymatgen Trajectory.__init__ attribute layout (contract), numpy fancy indexing/concatenate/linspace, slice.indices for '
                  'step 1, python attribute semantics of the AST write-set analysis (no setattr/exec tricks in the analysed methods), floats as '
                  'reals, pyvc itself.',
    'technique': 'deductive: AST frame (write-set) analysis + VCs from the real AST of gemdat/pymatgen __getitem__, split, extend, filter; z3; native '
                 'replay; random API call sequences vs a shadow model as bounded stand-in',
}
UNITS = ['unit_frame', 'unit_getitem', 'unit_split', 'unit_extend', 'unit_dep_filter', 'unit_dep_view_lemmas', 'unit_dep_to_positions', 'unit_plumbing']
BOUNDED = ['bounded_sequences']
META = {'clauses': {'C15.frame': 'P (AST analysis)', 'C15.view': 'P (C01 lemmas)', 'C15.slice': 'P (slices with step 1; int / list index B)', 'C15.filter': 'P (C13)',
                    'C15.split': 'P', 'C15.extend': 'P', 'C15.query': 'P via the contracts of C01/C06/C08/C13/C14'},
        'not_decided': ['slices with a step other than 1 and list / integer indexing: bounded stand-in only',
                        'aliasing through the shared metadata dict or arrays mutated by the caller (not a read-only query)',
                        'induction over arbitrary finite call sequences is a meta-argument over the per-method facts']}

READ_ONLY = ['positions', 'displacements', 'cumulative_displacements', 'distances_from_base_position', 'filter', 'split', 'get_lattice', 'center_of_mass',
             'drift', 'apply_drift_correction', 'to_volume', 'mean_squared_displacement', 'transitions_between_sites', 'metrics', '__getitem__', 'total_time',
             'sampling_frequency', 'time_step_ps', 'to_cache', '__repr__']
ALLOWED_WRITES = {'coords', 'coords_are_displacement'}


def _write_set(tree, module, cls, method, seen, out, via):
    """Attributes of `self` assigned by cls.method, transitively through self.m(), super().m() and property reads."""
    key = (module, cls, method)
    if key in seen:
        return
    seen.add(key)
    fi = None
    home = None
    chain = [(module, cls)]
    info = tree.load(module)
    if info and cls in info['classes']:
        for b in tree.class_bases(module, cls):
            if b == 'PymatgenTrajectory':
                chain.append(('pymatgen.core.trajectory', 'Trajectory'))
    for m, c in chain:
        fi = tree.function(m, f'{c}.{method}')
        if fi is not None:
            home = (m, c)
            break
    if fi is None:
        return
    for node in ast.walk(fi.node):
        targets = []
        if isinstance(node, ast.Assign):
            targets = node.targets
        elif isinstance(node, (ast.AugAssign, ast.AnnAssign)):
            targets = [node.target]
        elif isinstance(node, ast.Delete):
            targets = node.targets
        for t in targets:
            for sub in ast.walk(t):
                if isinstance(sub, ast.Attribute) and isinstance(sub.value, ast.Name) and sub.value.id == 'self':
                    out.setdefault(sub.attr, []).append(f'{home[1]}.{method}@{node.lineno}' + (f' via {via}' if via else ''))
        if isinstance(node, ast.Call):
            f = node.func
            # setattr(self, ...) / self.__dict__ tricks
            if isinstance(f, ast.Name) and f.id in ('setattr', 'delattr', 'exec', 'eval'):
                out.setdefault('<dynamic>', []).append(f'{home[1]}.{method}@{node.lineno}')
            for kw in node.keywords:
                if kw.arg == 'out' and isinstance(kw.value, ast.Attribute) and isinstance(kw.value.value, ast.Name) and kw.value.value.id == 'self':
                    out.setdefault(kw.value.attr, []).append(f'{home[1]}.{method}@{node.lineno} (out=)')
        if isinstance(node, ast.Attribute) and isinstance(node.value, ast.Name) and node.value.id == 'self':
            _write_set(tree, module, cls, node.attr, seen, out, via or method)
        if isinstance(node, ast.Attribute) and isinstance(node.value, ast.Call) and isinstance(node.value.func, ast.Name) and node.value.func.id == 'super':
            # super().m -> same method name in the base class
            for m, c in chain[1:]:
                _write_set(tree, m, c, node.attr, seen, out, via or method)
    # in-place stores through local aliases of self attributes (x = self.coords; x[...] = ...) are reported conservatively
    aliases = set()

    def returned_attr(attr):
        """self.<attr> is a stored attribute, or a property whose body returns self.<other> (then the result aliases <other>)"""
        for m, c in chain:
            pf = tree.function(m, f'{c}.{attr}')
            if pf is not None and pf.is_property:
                for n2 in ast.walk(pf.node):
                    if isinstance(n2, ast.Return) and isinstance(n2.value, ast.Attribute) and isinstance(n2.value.value, ast.Name) and n2.value.value.id == 'self':
                        return n2.value.attr
                return None
        return attr
    for node in ast.walk(fi.node):
        if isinstance(node, ast.Assign) and isinstance(node.value, ast.Attribute) and isinstance(node.value.value, ast.Name) and node.value.value.id == 'self':
            for t in node.targets:
                if isinstance(t, ast.Name):
                    ra = returned_attr(node.value.attr)
                    if ra is not None:
                        aliases.add((t.id, ra))
    for node in ast.walk(fi.node):
        if isinstance(node, ast.Call):
            for kw in node.keywords:
                if kw.arg == 'out' and isinstance(kw.value, ast.Name):
                    for nm, attr in aliases:
                        if kw.value.id == nm:
                            out.setdefault(attr, []).append(f'{home[1]}.{method}@{node.lineno} (out= through alias {nm})')
    for node in ast.walk(fi.node):
        tg = []
        if isinstance(node, ast.Assign):
            tg = node.targets
        elif isinstance(node, ast.AugAssign):
            tg = [node.target]
        for t in tg:
            if isinstance(t, ast.Subscript) and isinstance(t.value, ast.Name):
                for nm, attr in aliases:
                    if t.value.id == nm:
                        out.setdefault(attr, []).append(f'{home[1]}.{method}@{node.lineno} (through alias {nm})')
            if isinstance(node, ast.AugAssign) and isinstance(t, ast.Name):
                for nm, attr in aliases:
                    if t.id == nm:
                        out.setdefault(attr, []).append(f'{home[1]}.{method}@{node.lineno} (in-place {nm} op=)')


def unit_frame(tier):
    u = Unit('C15.frame')
    tree = u.sources

    def build(ctx):
        goals = []
        for meth in READ_ONLY:
            out = {}
            _write_set(tree, 'gemdat.trajectory', 'Trajectory', meth, set(), out, None)
            extra = {k: v for k, v in out.items() if k not in ALLOWED_WRITES}
            goals.append((f'write-set({meth}) = {sorted(out)} within {{coords, coords_are_displacement}}', z3.BoolVal(not extra)))
            # the representation may only be rewritten by the two mode switches, whose bodies are proved view-preserving (C01)
            sites = [w for k, v in out.items() if k in ALLOWED_WRITES for w in v]
            foreign = [w for w in sites if not (w.startswith('Trajectory.to_positions@') or w.startswith('Trajectory.to_displacements@'))]
            goals.append((f'{meth}: coords rewritten only inside to_positions/to_displacements {foreign}', z3.BoolVal(not foreign)))
            if meth not in ('positions', 'displacements', '__getitem__', 'filter', 'split', 'to_volume', 'to_cache', '__repr__') and 'coords' in out:
                pass
        # a memoised query on an object that extend() mutates in place would serve stale results
        info = tree.load('gemdat.trajectory')
        memo = [n for n, fi in info['functions'].items() if n.startswith('Trajectory.') and any(('cache' in d) for d in fi.decorators)]
        goals.append((f'no Trajectory method is memoised (extend mutates the object in place) {memo}', z3.BoolVal(not memo)))
        ctx.use('AST frame analysis: attribute stores on self, transitively through self.method(), super().method() and property reads')
        return goals
    u.lemma('C15.frame.write-sets', build)

    # helper functions that receive a trajectory must not assign its attributes either
    def build2(ctx):
        goals = []
        for module, fn, param in (('gemdat.volume', 'trajectory_to_volume', 'trajectory'), ('gemdat.transitions', '_calculate_atom_states', 'trajectory'),
                                  ('gemdat.transitions', '_compute_site_radius', 'trajectory'), ('gemdat.rdf', 'radial_distribution_between_species', 'trajectory')):
            fi = tree.function(module, fn)
            bad = []
            if fi is None:
                goals.append((f'{fn} present', z3.BoolVal(False)))
                continue
            for node in ast.walk(fi.node):
                tg = node.targets if isinstance(node, ast.Assign) else ([node.target] if isinstance(node, (ast.AugAssign, ast.AnnAssign)) else [])
                for t in tg:
                    for sub in ast.walk(t):
                        if isinstance(sub, ast.Attribute) and isinstance(sub.value, ast.Name) and sub.value.id == param:
                            bad.append(f'{sub.attr}@{node.lineno}')
            goals.append((f'{fn} assigns no attribute of its trajectory argument {bad}', z3.BoolVal(not bad)))
        for cls in ('TrajectoryMetrics',):
            info = tree.load('gemdat.metrics')
            bad = []
            for name, fi in info['functions'].items():
                if not name.startswith(cls + '.'):
                    continue
                for node in ast.walk(fi.node):
                    tg = node.targets if isinstance(node, ast.Assign) else ([node.target] if isinstance(node, (ast.AugAssign, ast.AnnAssign)) else [])
                    for t in tg:
                        for sub in ast.walk(t):
                            if isinstance(sub, ast.Attribute) and isinstance(sub.value, ast.Attribute) and sub.value.attr == 'trajectory':
                                bad.append(f'{name}:{sub.attr}@{node.lineno}')
            goals.append((f'TrajectoryMetrics assigns no attribute of self.trajectory {bad}', z3.BoolVal(not bad)))
        return goals
    u.lemma('C15.frame.clients', build2)
    return u


def _construct(u, rec):
    from verif.props.c13 import _construct_trajectory
    _construct_trajectory(u, rec)


def unit_getitem(tier):
    """gemdat Trajectory.__getitem__(slice(start, stop)) -> pymatgen __getitem__ (installed source) -> new trajectory."""
    u = Unit('C15.getitem')
    install_common(u)
    rec = {}
    _construct(u, rec)
    for mode in ('positions', 'displacements'):
        def setup(interp, mode=mode):
            ctx = interp.ctx
            rec.clear()
            tr, st = traj_object(ctx, mode)
            a, b = z3.Int('start'), z3.Int('stop')
            ctx.assume(z3.And(a >= 0, a <= b, b <= st['T']))
            st.update({'a': a, 'b': b})
            return [tr, slice(a, b)], {}, st

        def post(interp, st, new, mode=mode):
            ctx = interp.ctx
            T, N, x, bp, a, b = st['T'], st['N'], st['x'], st['bp'], st['a'], st['b']
            tr = st['tr']
            out = []
            if not isinstance(new, SObj) or not new.has('_built'):
                return [('returns a new trajectory', z3.BoolVal(False))]
            bld = new.get('_built')
            co = bld.get('coords')
            k, at, c = z3.Ints('pk pa pc')
            if mode == 'positions':
                raw = lambda t: x(t, at, c)  # noqa: E731
            else:
                sums = ctx.ghost.get('sums', [])
                if len(sums) != 1:
                    return [('one cumulative sum', z3.BoolVal(False))]
                S = sums[0]['S']
                raw = lambda t: bp(at, c) + S(at, c, t + 1)  # noqa: E731
                out.append(('cumsum over the source displacements', z3.ForAll([k, at, c], z3.Implies(z3.And(k >= 0, k < T, at >= 0, at < N, c >= 0, c < 3), sums[0]['f'](at, c, k) == x(k, at, c)))))
            out.append(('frames start..stop-1 of the view', z3.ForAll([k, at, c], z3.Implies(
                z3.And(k >= 0, k < b - a, at >= 0, at < N, c >= 0, c < 3), co.at(k, at, c) == frac(raw(a + k))))))
            out.append(('shape', z3.And(co.shape[0] == b - a, co.shape[1] == N)))
            nb = new.get('base_positions')
            out.append(('base positions of the result are its own first frame', z3.Implies(b - a >= 1, z3.ForAll([at, c], z3.Implies(
                z3.And(at >= 0, at < N, c >= 0, c < 3), nb.at(at, c) == frac(raw(a))))) if isinstance(nb, STensor) else z3.BoolVal(False)))
            out.append(('position mode, species, lattice, time step kept', z3.BoolVal(
                bld.get('coords_are_displacement') is False and bld.get('species') is tr.get('species') and bld.get('time_step') is st['dt'] and bld.get('lattice') is tr.get('lattice'))))
            out.append(('metadata carried over', z3.BoolVal(new.get('metadata') is tr.get('metadata'))))
            src = tr.get('coords')
            out.append(('source view unchanged', z3.ForAll([k, at, c], z3.Implies(z3.And(k >= 0, k < T, at >= 0, at < N, c >= 0, c < 3), src.at(k, at, c) == frac(raw(k))))))
            return out
        u.prove_function('gemdat.trajectory', 'Trajectory.__getitem__', setup, post, raises=(), label=f'gemdat.trajectory.Trajectory.__getitem__[slice, from {mode}]',
                         replay={'fn': 'verif.props.c15:replay_sequence', 'sizes': lambda st: [], 'concretise': lambda m, st, ob: {'seed': 5, 'ops': ['disp', 'slice', 'pos', 'slice']}})
    return u


def unit_split(tier):
    u = Unit('C15.split')
    install_common(u)
    FN = 'gemdat.trajectory.Trajectory.split'

    def getitem_contract(interp, self, frames):
        interp.ctx.use('contract of Trajectory.__getitem__(slice) (unit C15.getitem)')
        if not isinstance(frames, slice):
            raise Exception('slice expected')
        return SObj('Trajectory', _slice=(frames.start, frames.stop), _of=self)
    u.contracts['gemdat.trajectory.Trajectory.__getitem__'] = getitem_contract

    def len_hook(interp, v, line):
        if isinstance(v, SObj) and v.has('_T'):
            return v.get('_T')
        return NotImplemented
    u.len_hook = len_hook
    B = z3.Function('bounds', z3.IntSort(), z3.IntSort())

    def linspace(interp, line, start, stop, num=50, dtype=None, endpoint=True):
        """callee contract L-linint of np.linspace(0, K, n+1, dtype=int) (facts proved from the formula in lemma C15.split.linint)"""
        ctx = interp.ctx
        st = ctx.ghost['st']
        ok = (not z3.is_expr(start)) and start == 0 and z3.is_expr(stop) and z3.simplify(stop == st['T'] - 1).eq(z3.BoolVal(True)) and z3.simplify(to_z3(num) == st['n'] + 1).eq(z3.BoolVal(True))
        ctx.oblige(f'{interp.cur_func}.interval = linspace(0, len-1, n_parts+1, dtype=int)@{line}', z3.BoolVal(bool(ok) and getattr(dtype, 'name', None) == 'int'), kind='pre-call', line=line)
        k = z3.Int(ctx.name('k'))
        n, T = st['n'], st['T']
        ctx.assume(z3.And(B(0) == 0, B(n) == T - 1))
        ctx.assume(z3.ForAll([k], z3.Implies(z3.And(k >= 0, k < n), z3.And(B(k) <= B(k + 1), B(k) >= 0, B(k + 1) <= T - 1)), patterns=[B(k)]))
        ctx.use('L-linint: linspace(0,K,n+1,dtype=int) starts at 0, ends at K, is non-decreasing (lemma C15.split.linint)')
        return STensor((n + 1,), lambda i: B(to_z3(i)), 'int')
    u.lib['numpy.linspace'] = linspace

    def linint(ctx):
        K, n, k = z3.Ints('K n k')
        ctx.assume(z3.And(K >= 0, n >= 1, k >= 0, k < n))
        f = lambda q: z3.ToInt(z3.ToReal(q) * z3.ToReal(K) / z3.ToReal(n))  # noqa: E731
        return [('starts at 0', f(z3.IntVal(0)) == 0), ('ends at K', f(n) == K), ('non-decreasing', f(k) <= f(k + 1)), ('inside [0,K]', z3.And(f(k) >= 0, f(k + 1) <= K))]
    u.lemma('C15.split.linint', linint)
    for equal in (False, True):
        def setup(interp, equal=equal):
            ctx = interp.ctx
            T, n = z3.Int('T'), z3.Int('n_parts')
            ctx.assume(z3.And(T >= 1, n >= 1))
            tr = SObj('Trajectory', _T=T)
            st = {'T': T, 'n': n, 'tr': tr}
            ctx.ghost['st'] = st
            return [tr], {'n_parts': n, 'equal_parts': equal}, st

        def b_(st, k):
            return B(k)

        def maker(interp, env, k):
            return interp.ctx.fresh_int('minsize')

        def invariant(interp, env, k):
            st = interp.ctx.ghost['st']
            ms = env.get('minsize', interp)
            j = z3.Int('ij')
            size = lambda q: b_(st, q + 1) - b_(st, q)  # noqa: E731
            return [('minsize is a lower bound of the sizes seen', z3.ForAll([j], z3.Implies(z3.And(j >= 0, j < k), ms <= size(j)))),
                    ('minsize is attained (or still the total length)', z3.Or(ms == st['T'], z3.Exists([j], z3.And(j >= 0, j < k, ms == size(j)))))]
        u.loops[(FN, 0)] = LoopSpec({'minsize': maker}, invariant)

        def post(interp, st, res, equal=equal):
            T, n, tr = st['T'], st['n'], st['tr']
            out = []
            if not isinstance(res, SSeq):
                return [('list of parts', z3.BoolVal(False))]
            out.append(('n_parts parts', to_z3(res.length) == n))
            J = z3.Int('J')
            part = res.fn(J)
            if not isinstance(part, SObj) or not part.has('_slice'):
                return out + [('each part is a slice', z3.BoolVal(False))]
            lo, hi = b_(st, J), b_(st, J + 1)
            rng = z3.And(J >= 0, J < n)
            if not equal:
                s0, s1 = part.get('_slice')
                out.append(('part J = self[b_J : b_J+1]', z3.Implies(rng, z3.And(to_z3(s0) == lo, to_z3(s1) == hi, z3.BoolVal(part.get('_of') is tr)))))
            else:
                inner = part.get('_of')
                ok = isinstance(inner, SObj) and inner.has('_slice') and inner.get('_of') is tr
                out.append(('part J = self[b_J : b_J+1][0 : minsize]', z3.BoolVal(bool(ok))))
                if ok:
                    s0, s1 = inner.get('_slice')
                    t0, t1 = part.get('_slice')
                    j = z3.Int('pj')
                    out.append(('trimmed to the smallest part', z3.Implies(rng, z3.And(
                        to_z3(s0) == lo, to_z3(s1) == hi, to_z3(t0) == 0,
                        z3.ForAll([j], z3.Implies(z3.And(j >= 0, j < n), to_z3(t1) <= b_(st, j + 1) - b_(st, j))), to_z3(t1) <= hi - lo, to_z3(t1) >= 0))))
            out.append(('bounds: 0 = b_0 <= b_J <= b_J+1 <= T-1 (contiguous, ordered, inside the source)', z3.Implies(rng, z3.And(b_(st, z3.IntVal(0)) == 0, lo <= hi, lo >= 0, hi <= T - 1))))
            return out
        u.prove_function('gemdat.trajectory', 'Trajectory.split', setup, post, raises=(), label=f'gemdat.trajectory.Trajectory.split[equal_parts={equal}]',
                         replay={'fn': 'verif.props.c15:replay_sequence', 'sizes': lambda st: [], 'concretise': lambda m, st, ob: {'seed': 9, 'ops': ['split', 'split_equal']}})
    return u


def unit_extend(tier):
    """pymatgen Trajectory.extend (installed source) on two gemdat trajectories of equal species / time step."""
    u = Unit('C15.extend')
    install_common(u)
    same_species = z3.Bool('same_species')

    def compare_hook(interp, op, a, b, line):
        if isinstance(a, SSeq) and isinstance(b, SSeq):
            return same_species if op == '==' else z3.Not(same_species)
        return NotImplemented
    u.compare_hook = compare_hook
    for ma in ('positions', 'displacements'):
        for mb in ('positions', 'displacements'):
            def setup(interp, ma=ma, mb=mb):
                ctx = interp.ctx
                A, sa = traj_object(ctx, ma, 'a')
                B, sb = traj_object(ctx, mb, 'b')
                B.set('lattice', A.get('lattice'))
                ctx.assume(sa['N'] == sb['N'])
                return [A, B], {}, {'a': sa, 'b': sb, 'A': A, 'B': B}

            def post(interp, st, res, ma=ma, mb=mb):
                ctx = interp.ctx
                sa, sb, A, B = st['a'], st['b'], st['A'], st['B']
                Ta, Tb, N = sa['T'], sb['T'], sa['N']
                sums = ctx.ghost.get('sums', [])
                t, at, c = z3.Ints('pt pa pc')
                it = iter(sums)

                def raw(s, mode):
                    if mode == 'positions':
                        return lambda tt: s['x'](tt, at, c)
                    S = next(it)['S']
                    return lambda tt: s['bp'](at, c) + S(at, c, tt + 1)
                ra, rb = raw(sa, ma), raw(sb, mb)
                co = A.get('coords')
                rng = z3.And(at >= 0, at < N, c >= 0, c < 3)
                return [('length adds up', co.shape[0] == Ta + Tb),
                        ('first the frames of self', z3.ForAll([t, at, c], z3.Implies(z3.And(rng, t >= 0, t < Ta), co.at(t, at, c) == frac(ra(t))))),
                        ('then the frames of the other', z3.ForAll([t, at, c], z3.Implies(z3.And(rng, t >= Ta, t < Ta + Tb), co.at(t, at, c) == frac(rb(t - Ta))))),
                        ('the appended trajectory keeps its view', z3.ForAll([t, at, c], z3.Implies(z3.And(rng, t >= 0, t < Tb), B.get('coords').at(t, at, c) == frac(rb(t))))),
                        ('position mode', z3.BoolVal(A.get('coords_are_displacement') is False))]

            def on_raise(interp, st, exc):
                return [('ValueError only for different time step or species', z3.Or(st['a']['dt'] != st['b']['dt'], z3.Not(same_species)))]
            u.prove_function('pymatgen.core.trajectory', 'Trajectory.extend', setup, post, raises=('ValueError',), on_raise=on_raise,
                             label=f'pymatgen.core.trajectory.Trajectory.extend[{ma}+{mb}]',
                             replay={'fn': 'verif.props.c15:replay_sequence', 'sizes': lambda st: [], 'concretise': lambda m, st, ob: {'seed': 6, 'ops': ['disp', 'extend', 'pos']}})
    return u


def unit_dep_filter(tier):
    from verif.props.c13 import unit_filter
    return unit_filter(tier)


def unit_dep_view_lemmas(tier):
    from verif.props.c01 import unit_lemmas
    return unit_lemmas(tier)


def unit_dep_to_positions(tier):
    from verif.props.c01 import unit_to_positions
    return unit_to_positions(tier)


# ---------------------------------------------------------------------------------------------------------------

def replay_sequence(inputs):
    """Random / given sequence of API calls against a shadow model that only stores the wrapped view."""
    import numpy as np
    from gemdat.trajectory import Trajectory
    from verif.native.synth import hopping_system
    seed = inputs['seed']
    rng = np.random.default_rng(seed)
    # every third system has framework species whose symbols contain one another (S / Si): a selection is by symbol, not by substring
    traj, sites, info = hopping_system(seed, n_frames=int(inputs.get('n_frames', 17)), n_diff=2, n_frame_atoms=2, vib=0.04, hop_prob=0.05, interleave=bool(seed % 2),
                                       frame_symbols=('S', 'Si') if seed % 3 == 0 else ('O', 'P'))
    view = traj.positions.copy()
    symbols = [s.symbol for s in traj.species]
    lat = np.array(traj.lattice, dtype=float).reshape(3, 3).copy()  # the raw cell, not the library's get_lattice()
    meta = dict(traj.metadata)
    bad = []
    # selections by symbol among species whose symbols contain one another, in every string form
    from pymatgen.core import Element as _El
    from gemdat.trajectory import Trajectory as _Tr
    fam = ['Li', 'S', 'Si', 'N', 'Na', 'I']
    tq = _Tr(species=[_El(x) for x in fam], coords=rng.random((3, len(fam), 3)), lattice=np.eye(3) * 9.0, time_step=1e-15)
    for k_, sym_ in enumerate(fam):
        for form_, arg_ in (('str', sym_), ('numpy str', np.str_(sym_)), ('tuple', (sym_,)), ('list', [sym_]), ('list of numpy str', [np.str_(sym_)])):
            try:
                got_ = [x.symbol for x in tq.filter(arg_).species]
            except Exception as e:
                got_ = f'{type(e).__name__}: {e}'
            if got_ != [sym_]:
                bad.append(f'filter({sym_!r} as {form_}) of a trajectory with species {fam} selects {got_}')
    ops = inputs.get('ops') or [str(x) for x in rng.choice(['pos', 'disp', 'cum', 'dist', 'filter', 'slice', 'slice_step', 'split', 'split_equal', 'extend', 'drift', 'volume', 'metrics', 'msd', 'index', 'list'], size=int(inputs.get('n_ops', 10)))]

    def close(a, b):
        d = np.abs(a - b)
        return a.shape == b.shape and np.minimum(d, 1 - d).max(initial=0) < 1e-9

    def check(tr, v, syms, where):
        if not close(tr.positions, v):
            bad.append(f'after {where}: positions differ from the shadow view')
        # derived queries recomputed from the shadow view (catches stale / cached results after in-place changes)
        if len(v) >= 1 and v.shape[1] >= 1:
            d = np.diff(v, axis=0, prepend=v[:1])
            d = d - np.round(d)
            cum = np.cumsum(d, axis=0)
            try:
                got = tr.distances_from_base_position()
                exp = np.linalg.norm(cum @ lat, axis=-1).T
                if got.shape != exp.shape or not np.allclose(got, exp, atol=1e-8):
                    bad.append(f'after {where}: distances_from_base_position differ from the shadow view (shape {got.shape} vs {exp.shape})')
            except Exception as e:
                bad.append(f'after {where}: distances_from_base_position raised {type(e).__name__}')
        if [s.symbol for s in tr.species] != syms:
            bad.append(f'after {where}: species changed')
        if not np.allclose(tr.get_lattice().matrix, lat):
            bad.append(f'after {where}: lattice changed')
    cur, cview, csyms = traj, view, symbols
    for op in ops:
        try:
            if op == 'pos':
                cur.positions
            elif op == 'disp':
                cur.displacements
            elif op == 'cum':
                cur.cumulative_displacements
            elif op == 'dist':
                cur.distances_from_base_position()
            elif op == 'drift':
                cur.drift()
            elif op == 'volume':
                cur.to_volume(resolution=0.9)
            elif op == 'metrics':
                cur.metrics().tracer_diffusivity(dimensions=3)
            elif op == 'msd':
                cur.mean_squared_displacement()
            elif op == 'filter':
                kinds = sorted(set(csyms))
                if len(kinds) >= 2 and rng.random() < 0.5:
                    sym = [str(x) for x in rng.choice(kinds, size=2, replace=False)]  # a selection of several species: atoms keep their source order
                    sel = set(sym)
                else:
                    sym = str(rng.choice(kinds))
                    sel = {sym}
                form = int(rng.integers(0, 4))  # the selection in any of the forms the API accepts
                arg = sym if isinstance(sym, str) else [list, tuple, frozenset, lambda x: dict.fromkeys(x).keys()][form](sym)
                if isinstance(sym, str) and form == 1:
                    arg = (sym,)
                if isinstance(sym, str) and form == 2:
                    arg = np.str_(sym)  # a numpy string (e.g. an element of np.unique(symbols)) is a string
                new = cur.filter(arg)
                mask = np.array([s in sel for s in csyms])
                check(new, cview[:, mask], [s for s in csyms if s in sel], f'filter({sym}) result')
                check(cur, cview, csyms, f'filter({sym}) source')
                if rng.random() < 0.5:
                    cur, cview, csyms = new, cview[:, mask], [s for s in csyms if s in sel]
            elif op in ('slice', 'slice_step'):
                T = len(cur)
                a_, b_ = sorted(int(v) for v in rng.integers(0, T + 1, size=2))
                step = 1 if op == 'slice' else int(rng.choice([2, 3]))
                idx = list(range(a_, b_, step)) if a_ < b_ else [a_] if a_ < T else []
                if len(idx) == 0:
                    continue  # an empty selection is rejected by pymatgen's constructor (outside the property)
                new = cur[a_:b_:step] if a_ < b_ else cur[a_:a_ + 1]
                check(new, cview[idx], csyms, f'slice {a_}:{b_}:{step} result')
                if new.metadata != meta or type(new) is not Trajectory or new.time_step != traj.time_step:
                    bad.append('slice lost metadata / class / time step')
                check(cur, cview, csyms, 'slice source')
                if rng.random() < 0.5 and len(idx) >= 3:
                    cur, cview = new, cview[idx]
            elif op == 'index':
                i_ = int(rng.integers(0, len(cur)))
                s = cur[i_]
                if not close(np.mod(s.frac_coords, 1), cview[i_]):
                    bad.append(f'structure at frame {i_} differs')
            elif op == 'list':
                idx = sorted(set(int(v) for v in rng.integers(0, len(cur), size=3)))
                new = cur[idx]
                check(new, cview[idx], csyms, f'list index {idx}')
            elif op in ('split', 'split_equal'):
                n = int(rng.integers(1, 5))
                if len(cur) - 1 < n:
                    continue
                parts = cur.split(n, equal_parts=(op == 'split_equal'))
                edges = np.linspace(0, len(cur) - 1, n + 1, dtype=int)
                if len(parts) != n:
                    bad.append('split: number of parts')
                sizes = [edges[k + 1] - edges[k] for k in range(n)]
                for k, p in enumerate(parts):
                    L = min(sizes) if op == 'split_equal' else sizes[k]
                    check(p, cview[edges[k]:edges[k] + L], csyms, f'{op}({n}) part {k}')
                check(cur, cview, csyms, 'split source')
            elif op == 'extend':
                other = cur[0:max(1, len(cur) // 2)]
                if rng.random() < 0.5:
                    other.displacements
                oview = cview[0:max(1, len(cur) // 2)].copy()
                cur.extend(other)
                cview = np.concatenate([cview, oview])
                check(other, oview, csyms, 'extend (appended trajectory)')
        except Exception as e:
            bad.append(f'{op} raised {type(e).__name__}: {e}')
            break
        check(cur, cview, csyms, op)
        if cur.metadata != meta:
            bad.append(f'after {op}: metadata changed')
        if bad:
            break
    return {'reproduced': bool(bad), 'detail': f'seed={seed} ops={ops}: ' + '; '.join(bad[:4])}


def bounded_sequences(tier, seed):
    import numpy as np
    n = 40 if tier == 'quick' else 1500
    L = 12 if tier == 'quick' else 40
    st = Stand('C15.sequences', f'{n} random API call sequences of length {L} on synthetic constant-cell trajectories vs a shadow model that stores only the wrapped view',
               'seeded random; non-trivial = sequence containing a mode switch and a constructing call; distinct by (seed)')
    rng = np.random.default_rng(seed + 1515)
    for c in range(n):
        inp = {'seed': int(rng.integers(1, 10 ** 6)), 'n_ops': L}
        r = st.guard(replay_sequence, inp)
        if r is None:
            continue
        st.case(inp, nontrivial=True, sample=inp)
        if r['reproduced']:
            st.violation('sequence', r['detail'], 'verif.props.c15:replay_sequence', inp)
    return st.result()


# plumbing around the anchored functions: forwarding contracts of the public wrappers, no state shared between calls or objects
from verif.props import plumbing as _plumbing  # noqa: E402


def unit_plumbing(tier):
    return _plumbing.unit_plumbing(PROPERTY)

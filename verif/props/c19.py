"""C19 — time-partitioning for statistics conserves states and events."""
from __future__ import annotations

import z3

from verif.bounded import Stand
from verif.engine.interp import LoopSpec
from verif.engine.unit import Unit
from verif.engine.values import SFrame, SObj, SSeq, STensor, to_z3

PROPERTY = 'C19'
MANIFEST = {
    'level_text': 'Proved for all table sizes, numbers of states and n_parts >= 1: _split_transitions_events returns n_parts tables; an '
                  'arbitrary part J holds exactly the source rows with bins[J] <= time < bins[J+1], in source order, all other columns '
                  'untouched, time re-based into [0, bins[J+1]-bins[J]); the source table is not modified; ValueError iff fewer events than '
                  'parts; bins = trunc(k(S+1)/n) start at 0, end at S+1, are non-decreasing, and every event time lies in exactly one bin '
                  '(existence by an induction lemma, uniqueness from monotonicity) - hence every event in exactly one part. '
                  'Transitions.split assembles the k-th pieces in order (loop invariant). Jumps.split raising for a part without jumps is the '
                  'recorded finding C19-empty-part; sub-additivity of jump counts: every default jump of a time window is a default jump of the whole history at the '
                  'shifted frames, and windows that do not overlap give different jumps (lemmas; the counting step |union of disjoint images| <= |whole| is the pigeonhole argument, not mechanised).',
    'level_note': 'Trusted: numpy linspace(dtype=int) = truncation of the real formula, pandas boolean-mask row selection (order-preserving) '
                  'and .copy(), np.array_split (consecutive chunks that concatenate to the input), pairwise/zip, integers unbounded, '
                  'event times in [0, n_states-2] (C03), pyvc itself.',
    'technique': 'deductive: VCs from the real AST of _split_transitions_events (loop invariant on an arbitrary part, heap alias tracked) and '
                 'Transitions.split, induction lemmas on the bin sequence; z3/cvc5; counter-models replayed natively; random stand-in',
}
UNITS = ['unit_split_events', 'unit_bins', 'unit_transitions_split', 'unit_window_lemmas', 'unit_plumbing']
BOUNDED = ['bounded_split', 'bounded_purity', 'bounded_plumbing']
META = {
    'clauses': {'C19.bins': 'P', 'C19.events': 'P', 'C19.states': 'A (array_split) + P (call arguments)', 'C19.parts': 'P',
                'C19.traj': 'see C15.split', 'C19.jumps': 'known finding C19-empty-part', 'C19.sub': 'P (window lemma, injectivity) + argued counting step + B'},
    'not_decided': ['the counting step from the injective embedding of the parts\' jumps into the jumps of the whole to the inequality of the counts (pigeonhole) is argued, not mechanised'],
}
FN = 'gemdat.transitions._split_transitions_events'
COLS = ['atom index', 'start site', 'destination site', 'start inner site', 'destination inner site', 'time']


def _events(ctx):
    R, S, P = z3.Int('n_events'), z3.Int('n_states'), z3.Int('n_parts')
    ctx.assume(z3.And(R >= 0, S >= 2, P >= 1))
    cols = {}
    fns = {}
    for c in COLS:
        f = z3.Function('ev_' + c.replace(' ', '_'), z3.IntSort(), z3.IntSort())
        fns[c] = f
        cols[c] = STensor((R,), (lambda ff: (lambda i: ff(to_z3(i))))(f), 'int')
    r = z3.Int('er')
    et = fns['time']
    ctx.assume(z3.ForAll([r], z3.Implies(z3.And(r >= 0, r < R), z3.And(et(r) >= 0, et(r) <= S - 2)), patterns=[et(r)]),
               tag='C03: event times lie in [0, n_states-2]')
    return R, S, P, fns, SFrame(cols, R)


def _trunc_div(k, S, P):
    v = z3.ToReal(k) * z3.ToReal(S + 1) / z3.ToReal(P)
    return z3.ToInt(v)  # non-negative operand: truncation = floor


def unit_split_events(tier):
    u = Unit('C19.split_events')

    def setup(interp):
        ctx = interp.ctx
        R, S, P, fns, events = _events(ctx)
        J = z3.Int('J')
        ctx.assume(z3.And(J >= 0, J < P))
        st = {'R': R, 'S': S, 'P': P, 'fns': fns, 'events': events, 'J': J}
        ctx.ghost['st'] = st
        return [events], {'n_states': S, 'n_parts': P}, st

    def tracked(interp, env):
        st = interp.ctx.ghost['st']
        parts = env.get('parts', interp)
        return parts, parts.fn(st['J'])

    def maker(interp, env, k):
        ctx = interp.ctx
        st = ctx.ghost['st']
        parts, fr = tracked(interp, env)
        bins = env.get('bins', interp)
        sel = fr.selection
        et = st['fns']['time']
        J = st['J']
        shift = z3.If(J < k, to_z3(bins.at(J)), z3.IntVal(0))
        fr.columns['time'] = STensor((sel.shape[0],), lambda q: et(sel.pos(to_z3(q))) - shift, 'int')
        return parts

    def invariant(interp, env, k):
        ctx = interp.ctx
        st = ctx.ghost['st']
        parts, fr = tracked(interp, env)
        bins = env.get('bins', interp)
        sel = getattr(fr, 'selection', None)
        if sel is None:
            return [('part J is a boolean-mask selection of the events', z3.BoolVal(False))]
        q = z3.Int('iq')
        J = st['J']
        et = st['fns']['time']
        shift = z3.If(J < k, to_z3(bins.at(J)), z3.IntVal(0))
        out = [('time-rebased-iff-processed', z3.ForAll([q], z3.Implies(z3.And(q >= 0, q < sel.shape[0]),
                                                                         fr.columns['time'].at(q) == et(sel.pos(q)) - shift)))]
        for c in COLS[:-1]:
            f = st['fns'][c]
            out.append((f'column[{c}]-untouched', z3.ForAll([q], z3.Implies(z3.And(q >= 0, q < sel.shape[0]), fr.columns[c].at(q) == f(sel.pos(q))))))
        return out
    u.loops[(FN, 0)] = LoopSpec({'parts': maker}, invariant)

    def post(interp, st, res):
        R, S, P, fns, J = st['R'], st['S'], st['P'], st['fns'], st['J']
        out = []
        if not isinstance(res, SSeq):
            return [('list of n_parts tables', z3.BoolVal(False))]
        out.append(('n_parts-tables', res.length == P))
        fr = res.fn(J)
        sel = getattr(fr, 'selection', None)
        if sel is None:
            return out + [('part J is an order-preserving selection of source rows', z3.BoolVal(False))]
        et = fns['time']
        r, q = z3.Ints('pr pq')
        lo, hi = _trunc_div(J, S, P), _trunc_div(J + 1, S, P)
        out.append(('rows-of-part-J-are-exactly-bin-J', z3.ForAll([r], z3.Implies(z3.And(r >= 0, r < R),
                                                                                  to_z3(sel.member(r)) == z3.And(lo <= et(r), et(r) < hi)))))
        out.append(('selection-over-the-whole-table', z3.And(to_z3(sel.n) == R, to_z3(sel.lo) == 0)))
        rows = sel.shape[0]
        out.append(('time-rebased', z3.ForAll([q], z3.Implies(z3.And(q >= 0, q < rows), z3.And(
            fr.columns['time'].at(q) == et(sel.pos(q)) - lo, fr.columns['time'].at(q) >= 0, fr.columns['time'].at(q) < hi - lo)))))
        for c in COLS[:-1]:
            out.append((f'column[{c}]', z3.ForAll([q], z3.Implies(z3.And(q >= 0, q < rows), fr.columns[c].at(q) == fns[c](sel.pos(q))))))
        out.append(('columns-kept', z3.BoolVal(list(fr.columns) == COLS)))
        ev = st['events']
        out.append(('source-table-unmodified', z3.ForAll([r], z3.Implies(z3.And(r >= 0, r < R), z3.And(*[ev.columns[c].at(r) == fns[c](r) for c in COLS])))))
        out.append(('enough-events', R >= P))
        return out

    def on_raise(interp, st, exc):
        return [('ValueError-only-if-fewer-events-than-parts', st['R'] < st['P'])]

    def concretise(model, st, ob):
        R = model.eval(st['R'], model_completion=True).as_long()
        if R > 60:
            raise ValueError('too large')
        rows = [[model.eval(st['fns'][c](k), model_completion=True).as_long() for c in COLS] for k in range(R)]
        return {'rows': rows, 'n_states': model.eval(st['S'], model_completion=True).as_long(),
                'n_parts': model.eval(st['P'], model_completion=True).as_long()}
    u.prove_function('gemdat.transitions', '_split_transitions_events', setup, post, raises=('ValueError',), on_raise=on_raise,
                     replay={'fn': 'verif.props.c19:replay_split_events', 'concretise': concretise,
                             'sizes': lambda st: [st['R'], st['S'], st['P']]})
    return u


def unit_bins(tier):
    """Lemmas on bins[k] = trunc(k (S+1) / n), 0 <= k <= n (the linspace(dtype=int) contract)."""
    u = Unit('C19.bins')

    def base(ctx):
        S, P = z3.Int('S'), z3.Int('P')
        ctx.assume(z3.And(S >= 2, P >= 1))
        b = lambda k: _trunc_div(k, S, P)  # noqa: E731
        return S, P, b

    def ends(ctx):
        S, P, b = base(ctx)
        k = z3.Int('k')
        ctx.assume(z3.And(k >= 0, k < P))
        return [('starts-at-0', b(z3.IntVal(0)) == 0), ('ends-at-S+1', b(P) == S + 1), ('non-decreasing', b(k) <= b(k + 1)),
                ('within', z3.And(b(k) >= 0, b(k + 1) <= S + 1))]
    u.lemma('C19.bins.ends-and-monotone', ends)

    def pairwise_mono(ctx):
        S, P, b = base(ctx)
        a, c = z3.Ints('a c')
        ctx.assume(z3.And(a >= 0, a <= c, c <= P))
        return [('a<=c => bins[a]<=bins[c]', b(a) <= b(c))]
    u.lemma('C19.bins.monotone-pairwise', pairwise_mono)

    def exist_step(ctx):
        """Induction step of: bins[m] > t => exists J < m with bins[J] <= t < bins[J+1]   (t >= 0 = bins[0])."""
        S, P, b = base(ctx)
        t, m, J = z3.Ints('t m J')
        B = z3.Function('bins', z3.IntSort(), z3.IntSort())
        k = z3.Int('k')
        ctx.assume(z3.ForAll([k], z3.Implies(z3.And(k >= 0, k <= P), B(k) == b(k)), patterns=[B(k)]))
        ctx.assume(z3.And(t >= 0, m >= 0, m < P))
        ih = z3.Implies(B(m) > t, z3.Exists([J], z3.And(J >= 0, J < m, B(J) <= t, t < B(J + 1))))
        ctx.assume(ih)
        goal = z3.Implies(B(m + 1) > t, z3.Exists([J], z3.And(J >= 0, J < m + 1, B(J) <= t, t < B(J + 1))))
        base_goal = z3.Implies(B(0) > t, z3.BoolVal(False))
        return [('base: bins[0]=0 <= t', base_goal), ('step', goal)]
    u.lemma('C19.bins.every-time-has-a-bin(induction)', exist_step)

    def unique(ctx):
        S, P, b = base(ctx)
        t, J1, J2 = z3.Ints('t J1 J2')
        ctx.assume(z3.And(J1 >= 0, J1 < P, J2 >= 0, J2 < P, b(J1) <= t, t < b(J1 + 1), b(J2) <= t, t < b(J2 + 1)))
        # instances of monotone-pairwise (proved above)
        ctx.assume(z3.Implies(J1 + 1 <= J2, b(J1 + 1) <= b(J2)))
        ctx.assume(z3.Implies(J2 + 1 <= J1, b(J2 + 1) <= b(J1)))
        return [('at-most-one-bin', J1 == J2)]
    u.lemma('C19.bins.bin-is-unique', unique)
    return u


def unit_transitions_split(tier):
    """Transitions.split(n): part i = Transitions(sites, trajectory_parts[i], diff_parts[i], states_parts[i],
    inner_parts[i], events_parts[i]), i = 0..n-1 in order."""
    u = Unit('C19.transitions_split')
    FNS = 'gemdat.transitions.Transitions.split'
    rec = {}

    def array_split(interp, line, arr, n):
        interp.ctx.use('numpy.array_split(a, n): n consecutive chunks whose concatenation is a (sizes differ by at most one)')
        tag = rec.setdefault('array_split', [])
        s = SSeq(n, lambda j: ('chunk', id(arr), j))
        s.src = arr
        tag.append(s)
        return s
    u.lib['numpy.array_split'] = array_split

    def split_events(interp, events, n_states, n_parts=10, **kw):
        s = SSeq(n_parts, lambda j: ('events-part', j))
        rec['events_call'] = (events, n_states, n_parts)
        rec['events'] = s
        return s
    u.contracts['gemdat.transitions._split_transitions_events'] = split_events

    def traj_split(interp, self, n_parts=10, equal_parts=False):
        s = SSeq(n_parts, lambda j: ('traj-part', self.get('_name'), j))
        rec.setdefault('traj', {})[self.get('_name')] = (s, n_parts, equal_parts)
        return s
    u.contracts['gemdat.trajectory.Trajectory.split'] = traj_split

    def setup(interp):
        ctx = interp.ctx
        rec.clear()
        T, N, P = z3.Int('T'), z3.Int('N'), z3.Int('n_parts')
        ctx.assume(z3.And(T >= 1, N >= 1, P >= 1))
        states = STensor((T, N), lambda t, x: z3.Int('s'), 'int')
        inner = STensor((T, N), lambda t, x: z3.Int('i'), 'int')
        sites = SObj('Structure', is_ordered=True)
        tr = SObj('Transitions', sites=sites, trajectory=SObj('Trajectory', _name='full'), diff_trajectory=SObj('Trajectory', _name='diff'),
                  states=states, inner_states=inner, events=SFrame({}, z3.Int('R')))
        st = {'P': P, 'tr': tr, 'T': T}
        ctx.ghost['st'] = st
        return [tr], {'n_parts': P}, st

    def len_hook(interp, v, line):
        if isinstance(v, STensor):
            return v.shape[0]
        return NotImplemented
    u.len_hook = len_hook
    u.obj_attrs[('Transitions', '__class__')] = lambda interp, obj, line: __import__('verif.engine.interp', fromlist=['ClassRef']).ClassRef('gemdat.transitions', 'Transitions')

    def seq_index(interp, seq, idx, line):
        ok = z3.And(to_z3(idx) >= 0, to_z3(idx) < to_z3(seq.length))
        interp.ctx.oblige(f'{interp.cur_func}.index@{line}', ok, kind='index', line=line)
        return seq.fn(idx)
    u.seq_index = seq_index

    def maker(interp, env, k):
        g = interp.ctx.fresh_fun('part_obj', z3.IntSort(), z3.IntSort())
        s = SSeq(k, lambda j: SObj('Transitions', _ghost=j))
        s.ghost_k = k
        return s

    def fields_of(obj):
        return {f: obj.get(f) for f in ('sites', 'trajectory', 'diff_trajectory', 'states', 'inner_states', 'events')}

    def expected(j):
        st_tr = None
        return {'trajectory': ('traj-part', 'full', j), 'diff_trajectory': ('traj-part', 'diff', j),
                'events': ('events-part', j)}

    def same(a, b):
        if isinstance(a, tuple) and isinstance(b, tuple) and len(a) == len(b):
            conds = []
            for x, y in zip(a, b):
                if z3.is_expr(x) or z3.is_expr(y):
                    conds.append(to_z3(x) == to_z3(y))
                elif x != y:
                    return z3.BoolVal(False)
            return z3.And(*conds) if conds else z3.BoolVal(True)
        return z3.BoolVal(a is b)

    def invariant(interp, env, k):
        parts = env.get('parts', interp)
        if isinstance(parts, list):
            return [('empty-at-entry', z3.BoolVal(len(parts) == 0))]
        out = [('length = parts built so far', to_z3(parts.length) == k)]
        if getattr(parts, 'ghost_k', None) is not None and not to_z3(parts.length).eq(to_z3(parts.ghost_k)):
            # the element appended in this iteration (index k-1) must be the (k-1)-th pieces
            new = parts.fn(parts.ghost_k)
            st = interp.ctx.ghost['st']
            j = parts.ghost_k
            if not isinstance(new, SObj):
                return out + [('appended element is a Transitions', z3.BoolVal(False))]
            sp = rec.get('array_split', [])
            out.append(('part.sites', z3.BoolVal(new.get('sites') is st['tr'].get('sites'))))
            out.append(('part.trajectory', same(new.get('trajectory'), ('traj-part', 'full', j))))
            out.append(('part.diff_trajectory', same(new.get('diff_trajectory'), ('traj-part', 'diff', j))))
            out.append(('part.events', same(new.get('events'), ('events-part', j))))
            ok_states = len(sp) == 2 and sp[0].src is st['tr'].get('states') and sp[1].src is st['tr'].get('inner_states')
            out.append(('array_split of states then inner_states', z3.BoolVal(bool(ok_states))))
            if ok_states:
                out.append(('part.states', same(new.get('states'), ('chunk', id(sp[0].src), j))))
                out.append(('part.inner_states', same(new.get('inner_states'), ('chunk', id(sp[1].src), j))))
        return out
    u.loops[(FNS, 0)] = LoopSpec({'parts': maker}, invariant)

    def post(interp, st, res):
        out = [('n_parts objects', to_z3(res.length if isinstance(res, SSeq) else len(res)) == st['P'])]
        ec = rec.get('events_call')
        out.append(('events split with (events, n_states=len(states), n_parts)',
                    z3.BoolVal(ec is not None and ec[0] is st['tr'].get('events') and z3.is_expr(ec[1]) and ec[1].eq(st['T']) and z3.is_expr(ec[2]) and ec[2].eq(st['P']))))
        tj = rec.get('traj', {})
        out.append(('both trajectories split into n_parts', z3.BoolVal(set(tj) == {'full', 'diff'} and all(z3.is_expr(v[1]) and v[1].eq(st['P']) for v in tj.values()))))
        return out
    u.prove_function('gemdat.transitions', 'Transitions.split', setup, post, raises=(),
                     replay={'fn': 'verif.props.c19:replay_split', 'sizes': lambda st: [],
                             'concretise': lambda model, st, ob: {'seed': 4, 'n_parts': 3}})
    return u


# ---------------------------------------------------------------------------------------------------------------

def unit_window_lemmas(tier):
    """C19.sub: jumps of a part = default jumps DJ of the part's state window (C04.E1); DJ of a window embeds into DJ of the whole."""
    u = Unit('C19.window_lemmas')
    I = z3.IntSort()
    a = z3.Function('a', I, I)

    def DJ(f, lo, hi, t, uu):
        """(t, uu) is a default jump of the history f restricted to frames [lo, hi)"""
        v = z3.Int('dv')
        return z3.And(lo <= t, t < uu, uu < hi, f(t) != -1, f(t + 1) != f(t), f(uu) != -1, f(uu) != f(t),
                      z3.ForAll([v], z3.Implies(z3.And(t < v, v < uu), f(v) == -1), patterns=[f(v)]))

    def window(ctx):
        s_, e_, T, t, uu = z3.Ints('s e T t u')
        ctx.assume(z3.And(0 <= s_, s_ <= e_, e_ <= T))
        aw = lambda v: a(s_ + v)  # noqa: E731   the part's state array is the slice states[s:e] (C19.states)
        ctx.assume(DJ(aw, 0, e_ - s_, t, uu))
        return [('a default jump of the window is a default jump of the whole history at the shifted frames, same origin and destination',
                 z3.And(DJ(a, 0, T, s_ + t, s_ + uu), a(s_ + t) == aw(t), a(s_ + uu) == aw(uu)))]
    u.lemma('C19.sub.window-jumps-embed', window)

    def disjoint(ctx):
        s1, e1, s2, e2, t1, t2 = z3.Ints('s1 e1 s2 e2 t1 t2')
        ctx.assume(z3.And(0 <= s1, s1 <= e1, e1 <= s2, s2 <= e2, 0 <= t1, t1 < e1 - s1, 0 <= t2, t2 < e2 - s2))
        return [('jumps of non-overlapping windows start at different frames of the whole (the embedding is injective across parts)', s1 + t1 != s2 + t2)]
    u.lemma('C19.sub.windows-do-not-share-jumps', disjoint)
    return u


def replay_split_events(inputs):
    import numpy as np
    import pandas as pd
    from gemdat.transitions import _split_transitions_events
    rows = np.array(inputs['rows'], dtype=int).reshape(-1, 6)
    S, P = inputs['n_states'], inputs['n_parts']
    ev = pd.DataFrame(data=rows, columns=COLS)
    before = ev.copy()
    try:
        parts = _split_transitions_events(ev, S, P)
    except ValueError as e:
        ok = len(rows) < P
        return {'reproduced': not ok, 'detail': f'ValueError({e}) with {len(rows)} events, {P} parts'}
    except Exception as e:
        return {'reproduced': True, 'detail': f'raised {type(e).__name__}: {e}'}
    bad = []
    if len(rows) < P:
        bad.append('no ValueError although fewer events than parts')
    if len(parts) != P:
        bad.append(f'{len(parts)} parts instead of {P}')
    if not ev.equals(before):
        bad.append('source table was modified')
    bins = [int(x) for x in np.linspace(0, S + 1, P + 1, dtype=int)]  # numpy's own edges (k (S+1)/P evaluated in floating point, then truncated)
    seen = 0
    for J, part in enumerate(parts[:P]):
        exp = rows[(rows[:, 5] >= bins[J]) & (rows[:, 5] < bins[J + 1])].copy()
        exp[:, 5] -= bins[J]
        got = part[COLS].to_numpy() if list(part.columns) == COLS else None
        if got is None or got.shape != exp.shape or (got != exp).any():
            bad.append(f'part {J} differs from the rows with {bins[J]} <= time < {bins[J + 1]} (re-based)')
        seen += len(part)
    if seen != len(rows):
        bad.append(f'parts hold {seen} rows, source has {len(rows)}')
    return {'reproduced': bool(bad), 'detail': f'rows={rows.tolist()} n_states={S} n_parts={P}: ' + '; '.join(bad[:4])}


def replay_split(inputs):
    """Real Transitions.split / Jumps.split / Trajectory.split on a synthetic hopping system."""
    import numpy as np
    from verif.native.synth import make_transitions
    rng = np.random.default_rng(inputs['seed'])
    n = inputs['n_parts']
    T = inputs.get('T', 60)
    N = 2
    states = np.zeros((T, N), dtype=int)
    for x in range(N):
        cur = int(rng.integers(-1, 3))
        for t in range(T):
            if rng.random() < 0.25:
                cur = int(rng.integers(-1, 3))
            states[t, x] = cur
    if not (states[:-1] != states[1:]).any():
        states[T // 2:, 0] = (states[0, 0] + 2) % 3
    inner = states.copy()
    inner[rng.random(inner.shape) < 0.3] = -1
    tr = make_transitions(states, inner_states=inner, n_sites=3)
    bad = []
    if len(tr.events) < n:
        return {'reproduced': False, 'detail': 'fewer events than parts (ValueError expected)'}
    parts = tr.split(n)
    if len(parts) != n:
        bad.append(f'{len(parts)} parts')
    cat = np.concatenate([p.states for p in parts])
    if cat.shape != states.shape or (cat != states).any():
        bad.append('state arrays of the parts do not concatenate to the original')
    cat = np.concatenate([p.inner_states for p in parts])
    if (cat != tr.inner_states).any():
        bad.append('inner state arrays do not concatenate to the original')
    bins = [int(x) for x in np.linspace(0, T + 1, n + 1, dtype=int)]  # numpy's own edges (floating-point evaluation, then truncation)
    allrows = []
    for k, p in enumerate(parts):
        e = p.events[COLS].to_numpy().copy()
        if len(e) and (e[:, 5].min() < 0 or e[:, 5].max() >= max(bins[k + 1] - bins[k], 1)):
            bad.append(f'part {k}: re-based time outside [0, width)')
        e[:, 5] += bins[k]
        allrows.extend(map(tuple, e.tolist()))
    src = list(map(tuple, tr.events[COLS].to_numpy().tolist()))
    if sorted(allrows) != sorted(src):
        bad.append('event tables of the parts (offsets added back) are not a permutation of the original table')
    # trajectory parts
    tp = tr.trajectory.split(n)
    edges = np.linspace(0, T - 1, n + 1, dtype=int)
    for k, q in enumerate(tp):
        if len(q) != edges[k + 1] - edges[k] or not np.allclose(q.positions, tr.trajectory.positions[edges[k]:edges[k + 1]]):
            bad.append(f'trajectory part {k} is not frames [{edges[k]}, {edges[k + 1]})')
    for flag in (True, 1, np.True_, np.bool_(True)):  # equal parts requested in any truthy form
        eq = tr.trajectory.split(n, equal_parts=flag)
        if len({len(q) for q in eq}) != 1:
            bad.append(f'equal_parts={flag!r} gives unequal lengths')
    kw = tr.trajectory.split(n_parts=np.int64(n), equal_parts=False)  # numpy integer, keywords
    if [len(q) for q in kw] != [len(q) for q in tp]:
        bad.append('split(n_parts=np.int64(n)) differs from split(n)')
    # jumps: sub-additivity (only when no part is empty: known finding otherwise)
    try:
        jumps = tr.jumps()
        total = jumps.n_jumps
    except ValueError:
        jumps, total = None, 0
    if jumps is not None:
        try:
            jp = jumps.split(n)
            if len(jp) != n:
                bad.append('Jumps.split length')
            if sum(j.n_jumps for j in jp) > total:
                bad.append(f'jump counts of parts add up to {sum(j.n_jumps for j in jp)} > {total}')
            bad.extend(_part_counts(jumps, jp))
        except ValueError as e:
            if 'No jumps' not in str(e):
                raise
            if inputs.get('expect_jump_parts'):
                bad.append(f'Jumps.split({n}) raised "{e}"')
    # the same with a minimal residence: the parts are analysed with the settings of the whole (sub-additivity, and every jump of a part is a jump
    # of the whole shifted by the part's first frame)
    for mres in (2, 4):
        try:
            jm = tr.jumps(minimal_residence=mres)
        except ValueError:
            continue
        try:
            jp = jm.split(n)
        except ValueError as e:
            if 'No jumps' not in str(e):
                raise
            continue  # known finding C19-empty-part
        if any(getattr(j, 'minimal_residence', mres) != mres for j in jp):
            bad.append(f'parts of Jumps(minimal_residence={mres}) are analysed with another residence')
        if sum(j.n_jumps for j in jp) > jm.n_jumps:
            bad.append(f'minimal_residence={mres}: jump counts of parts add up to {sum(j.n_jumps for j in jp)} > {jm.n_jumps}')
        bad.extend(f'minimal_residence={mres}: ' + b_ for b_ in _part_counts(jm, jp))
    return {'reproduced': bool(bad), 'detail': f'seed={inputs["seed"]} n_parts={n} T={T}: ' + '; '.join(bad[:4])}


def _part_counts(whole, parts):
    """Per-kind counts (per pair of site labels, per pair of sites): no part reports more than the whole, and the parts together do not either."""
    import numpy as np
    bad = []
    wc = whole.counter()
    pcs = [p.counter() for p in parts]
    for key in set(wc) | {k for pc in pcs for k in pc}:
        vals = [int(pc.get(key, 0)) for pc in pcs]
        if max(vals) > int(wc.get(key, 0)) or sum(vals) > int(wc.get(key, 0)):
            bad.append(f'jumps {key[0]}->{key[1]}: parts report {vals}, the whole run {int(wc.get(key, 0))}')
    wm = np.asarray(whole.matrix())
    pm = [np.asarray(p.matrix()) for p in parts]
    if any(m.shape != wm.shape for m in pm) or (sum(pm) > wm).any():
        bad.append('site-to-site jump matrices of the parts add up to more than the matrix of the whole run')
    if sum(wc.values()) != whole.n_jumps:
        bad.append(f'per-label counts of the whole run add up to {sum(wc.values())}, it has {whole.n_jumps} jumps')
    return bad[:3]


def bounded_split(tier, seed):
    import numpy as np
    n = 40 if tier == 'quick' else 600
    st = Stand('C19.split.random', f'{n} random event tables (<= 30 rows, n_states <= 40, all n_parts in 1..rows, events at frame 0 and '
               'n_states-2) + synthetic Transitions/Jumps/Trajectory splits', 'seeded random; non-trivial = >= 2 parts; distinct by input')
    rng = np.random.default_rng(seed + 1919)
    for c in range(n):
        S = int(rng.integers(2, 40))
        R = int(rng.integers(1, 30))
        times = rng.integers(0, S - 1, size=R) if S > 1 else np.zeros(R, dtype=int)
        if c % 4 == 0:
            times[:] = 0
        if c % 4 == 1:
            times[:] = S - 2
        rows = np.stack([rng.integers(0, 3, R), rng.integers(-1, 4, R), rng.integers(-1, 4, R), rng.integers(-1, 4, R),
                         rng.integers(-1, 4, R), np.sort(times)], axis=1)
        for P in sorted({1, 2, int(rng.integers(1, R + 1)), R, R + 1}):
            inp = {'rows': rows.tolist(), 'n_states': S, 'n_parts': P}
            r = st.guard(replay_split_events, inp)
            if r is None:
                continue
            st.case(inp, nontrivial=P >= 2, sample=inp)
            if r['reproduced']:
                st.violation('split_events', r['detail'], 'verif.props.c19:replay_split_events', inp)
    for c in range(8 if tier == 'quick' else 80):
        inp = {'seed': int(rng.integers(1, 10 ** 6)), 'n_parts': int(rng.integers(1, 6)), 'T': int(rng.integers(20, 90))}
        r = st.guard(replay_split, inp)
        if r is None:
            continue
        st.case(inp, nontrivial=True, sample=None)
        if r['reproduced']:
            st.violation('split', r['detail'], 'verif.props.c19:replay_split', inp)
    return st.result()


# generic purity stand-in (arguments unchanged, second call equal, fresh call equal) over this property's API calls
from verif.native.purity import make_bounded as _make_purity  # noqa: E402
from verif.props.purity_reg import REG as _PURITY_REG  # noqa: E402
PURITY = _PURITY_REG['C19']
bounded_purity = _make_purity('C19', PURITY)


# plumbing around the anchored functions: forwarding contracts of the public wrappers, no state shared between calls or objects
from verif.props import plumbing as _plumbing  # noqa: E402


def unit_plumbing(tier):
    return _plumbing.unit_plumbing(PROPERTY)


bounded_plumbing = _plumbing.make_bounded(PROPERTY)

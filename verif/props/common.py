"""Shared symbolic fixtures and callee contracts used by several property modules."""
from __future__ import annotations

import z3

from verif.engine import world as W
from verif.engine.values import SObj, SSeq, STensor, to_z3


def install_common(u):
    """Lattice construction, FloatWithUnit, len() of symbolic objects."""
    W.install_world(u)
    u.lib['pymatgen.core.Lattice'] = lambda interp, line, m: _lattice_of(interp, m)
    u.lib['pymatgen.core.units.FloatWithUnit'] = lambda interp, line, v, unit=None: v
    prev = u.len_hook

    def len_hook(interp, v, line):
        if isinstance(v, SSeq):
            return v.length
        return prev(interp, v, line)
    u.len_hook = len_hook
    return u


def _lattice_of(interp, m):
    """Lattice(matrix): the registered symbolic lattice - provided the matrix handed in IS that lattice's matrix (same array, or proved equal
    entry by entry); anything else is a different cell."""
    lat = interp.ctx.ghost.get('lattice_obj')
    if lat is None:
        raise Exception('no lattice registered for this unit')
    own = lat.get('matrix')
    if m is own or (isinstance(m, STensor) and getattr(m, 'view_of', None) is own):
        return lat
    if isinstance(m, STensor) and m.ndim == 2:
        i, j = z3.Ints('lm_i lm_j')
        interp.ctx.oblige(f'{interp.cur_func}.Lattice(matrix)-is-built-from-the-trajectory-cell', z3.ForAll([i, j], z3.Implies(
            z3.And(i >= 0, i < 3, j >= 0, j < 3), m.at(i, j) == own.at(i, j))), kind='pre')
        return lat
    from verif.engine.core import Unsupported
    raise Unsupported('Lattice(...) of something that is not the cell matrix')


def sym_trajectory(ctx, name='traj', species_symbols=None):
    """A constant-cell trajectory: T frames, N atoms.  `pos(t,a,c)` are the wrapped positions (the postcondition of
    Trajectory.positions, discharged in C01): 0 <= pos < 1."""
    T = z3.Int(f'{name}_T')
    N = z3.Int(f'{name}_N')
    dt = z3.Real(f'{name}_time_step')
    ctx.assume(z3.And(T >= 1, N >= 1, dt > 0))
    pos = z3.Function(f'{name}_pos', z3.IntSort(), z3.IntSort(), z3.IntSort(), z3.RealSort())
    t, a, c = z3.Ints(f'{name}_t {name}_a {name}_c')
    ctx.assume(z3.ForAll([t, a, c], z3.Implies(z3.And(t >= 0, t < T, a >= 0, a < N, c >= 0, c < 3),
                                               z3.And(pos(t, a, c) >= 0, pos(t, a, c) < 1)), patterns=[pos(t, a, c)]),
               tag='contract of Trajectory.positions (C01): values in [0,1)')
    lat = W.sym_lattice(ctx, name + '_lat')
    ctx.ghost['lattice_obj'] = lat
    traj = SObj('Trajectory', constant_lattice=True, lattice=lat.get('matrix'), time_step=dt, _n=T,
                species=SSeq(N, lambda k: SObj('Element', symbol='X')), _lat=lat, _pos=pos, _T=T, _N=N,
                metadata={})
    return traj, {'T': T, 'N': N, 'dt': dt, 'pos': pos, 'lat': lat}


def positions_contract(interp, self):
    """Callee contract of the property Trajectory.positions (its own proof lives in C01)."""
    pos, T, N = self.get('_pos'), self.get('_T'), self.get('_N')
    interp.ctx.use('contract of Trajectory.positions: shape (T,N,3), every value in [0,1) (discharged in C01)')
    return STensor((T, N, 3), lambda t, a, c: pos(to_z3(t), to_z3(a), to_z3(c)), 'real')


def traj_object(ctx, mode='positions', name='tr'):
    """A gemdat Trajectory object with its real attribute layout (pymatgen base class), in the given representation:
    'positions'  -> coords = x (arbitrary reals, as given by the user, not yet wrapped), base_positions = coords[0]
    'displacements' -> coords = d (arbitrary reals), base_positions = bp."""
    T, N = z3.Int(f'{name}_T'), z3.Int(f'{name}_N')
    dt = z3.Real(f'{name}_time_step')
    ctx.assume(z3.And(T >= 1, N >= 1, dt > 0))
    x = z3.Function(f'{name}_coords', z3.IntSort(), z3.IntSort(), z3.IntSort(), z3.RealSort())
    bp = z3.Function(f'{name}_base', z3.IntSort(), z3.IntSort(), z3.RealSort())
    lat = W.sym_lattice(ctx, name + '_lat')
    ctx.ghost['lattice_obj'] = lat
    coords = STensor((T, N, 3), lambda t, a, c: x(to_z3(t), to_z3(a), to_z3(c)), 'real')
    if mode == 'positions':
        base = STensor((N, 3), lambda a, c: x(z3.IntVal(0), to_z3(a), to_z3(c)), 'real')
    else:
        base = STensor((N, 3), lambda a, c: bp(to_z3(a), to_z3(c)), 'real')
    sym = z3.Function(f'{name}_symbol', z3.IntSort(), z3.IntSort())
    species = SSeq(N, lambda k: SObj('Element', symbol=SObj('Symbol', code=sym(to_z3(k))), _k=k, __isa__=('Element', 'Species')))
    tr = SObj('Trajectory', coords=coords, coords_are_displacement=(mode != 'positions'), base_positions=base,
              lattice=lat.get('matrix'), constant_lattice=True, species=species, time_step=dt, metadata={'temperature': z3.Real('temperature')},
              site_properties=None, frame_properties=None, charge=None, spin_multiplicity=None, _lat=lat)
    return tr, {'T': T, 'N': N, 'dt': dt, 'x': x, 'bp': bp, 'lat': lat, 'mode': mode, 'sym': sym, 'tr': tr}


def frac(v):
    """v mod 1 in real arithmetic."""
    return v - z3.ToReal(z3.ToInt(v))


def merge_units(name, units, keep=None):
    """Re-run proof units of another property module under this property (dependency units): a change that breaks a clause this
    property relies on is reported here as well.  `keep(label)` filters the re-used results."""
    from verif.engine.unit import Unit
    u = Unit(name)
    for x in units:
        for r in x.results:
            if keep is not None and not keep(r.get('label', '')):
                continue
            r = dict(r)
            r['unit'] = name
            u.results.append(r)
        u.functions_used.update(x.functions_used)
    return u


def partition_lemmas(u, prefix, what):
    """L-partition, by two nested inductions over the recursive definitions
         C(b, k+1) = C(b, k) + [bin(k) = b],  C(b, 0) = 0          (count of the samples < k that fall in bin b)
         T(k, m+1) = T(k, m) + C(m, k),       T(k, 0) = 0          (sum of the counts of the bins < m)
    : T(k+1, m) = T(k, m) + [bin(k) < m]  (induction on m), hence T(k, B) = k when every bin(k) is in [0, B)  (induction on k)."""
    I = z3.IntSort()

    def defs(ctx):
        C, T, binf = z3.Function('C', I, I, I), z3.Function('T', I, I, I), z3.Function('bin', I, I)
        return C, T, binf

    def step_m(ctx):
        C, T, binf = defs(ctx)
        k, m = z3.Ints('k m')
        ind = lambda c: z3.If(c, 1, 0)  # noqa: E731
        ctx.assume(z3.And(k >= 0, m >= 0, binf(k) >= 0))
        ctx.assume(z3.And(T(k, 0) == 0, T(k + 1, 0) == 0, T(k, m + 1) == T(k, m) + C(m, k), T(k + 1, m + 1) == T(k + 1, m) + C(m, k + 1),
                          C(m, k + 1) == C(m, k) + ind(binf(k) == m)))
        ctx.assume(T(k + 1, m) == T(k, m) + ind(binf(k) < m))
        return [('base (m = 0)', T(k + 1, 0) == T(k, 0) + ind(binf(k) < 0)), ('step', T(k + 1, m + 1) == T(k, m + 1) + ind(binf(k) < m + 1))]
    u.lemma(f'{prefix}.L-partition.one-more-sample(induction on bins)', step_m)

    def zero(ctx):
        C, T, binf = defs(ctx)
        m = z3.Int('m')
        ctx.assume(z3.And(m >= 0, T(0, 0) == 0, T(0, m + 1) == T(0, m) + C(m, 0), C(m, 0) == 0))
        ctx.assume(T(0, m) == 0)
        return [('base', T(0, 0) == 0), ('step', T(0, m + 1) == 0)]
    u.lemma(f'{prefix}.L-partition.no-samples(induction on bins)', zero)

    def step_k(ctx):
        C, T, binf = defs(ctx)
        k, B = z3.Ints('k B')
        ctx.assume(z3.And(k >= 0, B >= 1, binf(k) >= 0, binf(k) < B))
        ctx.assume(T(k + 1, B) == T(k, B) + z3.If(binf(k) < B, 1, 0))  # previous lemma at m = B
        ctx.assume(T(0, B) == 0)  # previous lemma
        ctx.assume(T(k, B) == k)
        return [('base', T(0, B) == 0), (f'step: {what}', T(k + 1, B) == k + 1)]
    u.lemma(f'{prefix}.L-partition.total(induction on samples)', step_k)


def weighted_partition_lemmas(u, prefix, what):
    """L-exch: sum over bins of w(b) * Count_b = sum over samples of w(bin(sample)); same two nested inductions as L-partition, with
         T(k, m+1) = T(k, m) + w(m) * C(m, k)   and   W(k+1) = W(k) + w(bin(k))."""
    I, R = z3.IntSort(), z3.RealSort()

    def step_m(ctx):
        C, T, binf, w = z3.Function('C', I, I, I), z3.Function('T', I, I, R), z3.Function('bin', I, I), z3.Function('w', I, R)
        k, m = z3.Ints('k m')
        ctx.assume(z3.And(k >= 0, m >= 0, binf(k) >= 0))
        ctx.assume(z3.And(T(k, 0) == 0, T(k + 1, 0) == 0, T(k, m + 1) == T(k, m) + w(m) * z3.ToReal(C(m, k)), T(k + 1, m + 1) == T(k + 1, m) + w(m) * z3.ToReal(C(m, k + 1)),
                          C(m, k + 1) == C(m, k) + z3.If(binf(k) == m, 1, 0)))
        add = lambda mm: z3.If(binf(k) < mm, w(binf(k)), z3.RealVal(0))  # noqa: E731
        ctx.assume(T(k + 1, m) == T(k, m) + add(m))
        return [('base (m = 0)', T(k + 1, 0) == T(k, 0) + add(0)), ('step', T(k + 1, m + 1) == T(k, m + 1) + add(m + 1))]
    u.lemma(f'{prefix}.L-exch.one-more-sample(induction on bins)', step_m)

    def step_k(ctx):
        T, W, binf, w = z3.Function('T', I, I, R), z3.Function('W', I, R), z3.Function('bin', I, I), z3.Function('w', I, R)
        k, B = z3.Ints('k B')
        ctx.assume(z3.And(k >= 0, B >= 1, binf(k) >= 0, binf(k) < B))
        ctx.assume(T(k + 1, B) == T(k, B) + z3.If(binf(k) < B, w(binf(k)), z3.RealVal(0)))  # previous lemma at m = B
        ctx.assume(z3.And(T(0, B) == 0, W(0) == 0, W(k + 1) == W(k) + w(binf(k))))
        ctx.assume(T(k, B) == W(k))
        return [('base', T(0, B) == W(0)), (f'step: {what}', T(k + 1, B) == W(k + 1))]
    u.lemma(f'{prefix}.L-exch.total(induction on samples)', step_k)

"""C12 — collective jumps are exactly the close-in-time/space pairs of different atoms."""
from __future__ import annotations

import z3

from verif.bounded import Stand
from verif.engine import world as W
from verif.engine.interp import LoopSpec, PyFn
from verif.engine.unit import Unit
from verif.engine.values import SFrame, SObj, SSeq, STensor, to_z3
from verif.props.common import install_common

PROPERTY = 'C12'
MANIFEST = {
    'level_text': 'Proved for all jump tables (any number of jumps, any transit times), windows and cut-offs: with the rows sorted by '
                  '(stop, start) time, collective_matrix[p,q] holds exactly for the pairs p != q made by different atoms, neither starting '
                  'more than the window after the other stops, with some origin/destination sites closer than the cut-off (minimum image) '
                  '- nested loop invariants, every early exit (`continue`/`break`) justified against the completed-loop invariant; the '
                  'matrix is symmetric; n_solo + n_coll = number of jumps with n_coll counting the rows that occur in some pair; the '
                  'window is ceil(1/(attempt frequency x time step)). Each unordered pair appended exactly once follows from the loop '
                  'structure (p < q) and is also checked by the bounded brute-force stand-in.',
    'level_note': 'Trusted: pandas sort_values(ignore_index=True) = stable lexicographic sort with positional labels, iterrows row copies, '
                  'numpy any/sum, pymatgen get_all_distances as mindist, C04.E2 (jump rows name sites in range), pyvc itself.',
    'technique': 'deductive: VCs from the real AST of Collective._compute (two nested loop invariants, break/continue) and Jumps.collective; '
                 'z3; finite-scope counter-models replayed on the real Collective class; brute-force O(J^2) oracle as stand-in',
}
UNITS = ['unit_compute', 'unit_window', 'unit_plumbing']
BOUNDED = ['bounded_collective', 'bounded_purity', 'bounded_plumbing']
META = {'clauses': {'C12.pairs': 'P', 'C12.sort': 'A', 'C12.count': 'P', 'C12.window': 'P', 'C12.dist': 'P'}, 'not_decided': []}
FN = 'gemdat.collective.Collective._compute'
COLS = ['atom index', 'start site', 'destination site', 'start time', 'stop time']


def unit_compute(tier):
    u = Unit('C12.compute')
    install_common(u)

    def setup(interp):
        ctx = interp.ctx
        J, n = z3.Int('n_jumps'), z3.Int('n_sites')
        Wn = z3.Int('max_steps')
        md = z3.Real('max_dist')
        ctx.assume(z3.And(J >= 1, n >= 1, Wn >= 0, md > 0))
        # the table AFTER sort_values(['stop time','start time'], ignore_index=True): the assumed pandas contract
        f = {c: z3.Function('jmp_' + c.replace(' ', '_'), z3.IntSort(), z3.IntSort()) for c in COLS}
        r, r2 = z3.Ints('jr jr2')
        ctx.assume(z3.ForAll([r], z3.Implies(z3.And(r >= 0, r < J), z3.And(
            f['start site'](r) >= 0, f['start site'](r) < n, f['destination site'](r) >= 0, f['destination site'](r) < n,
            f['start time'](r) >= 0, f['start time'](r) < f['stop time'](r))), patterns=[f['start site'](r)]),
            tag='C04.E2: jump rows name sites in [0,n), start time < stop time')
        ctx.assume(z3.ForAll([r, r2], z3.Implies(z3.And(r >= 0, r < r2, r2 < J), z3.Or(
            f['stop time'](r) < f['stop time'](r2), z3.And(f['stop time'](r) == f['stop time'](r2), f['start time'](r) <= f['start time'](r2))))),
            tag='pandas sort_values([stop,start], ignore_index=True): rows in lexicographic order, labels = positions')
        sorted_frame = SFrame({c: STensor((J,), (lambda ff: (lambda i: ff(to_z3(i))))(f[c]), 'int') for c in COLS}, J)
        raw = SFrame({}, J)
        u.frame_method_hook = lambda i, fr, meth, a, k, l: sorted_frame if (meth == 'sort_values' and fr is raw and k.get('ignore_index') is True and list(a[0]) == ['stop time', 'start time']) else NotImplemented
        lat = W.sym_lattice(ctx)
        ctx.ghost['lattice_obj'] = lat
        sites = W.sym_structure(ctx, 'sites', n, lat)
        jumps = SObj('Jumps', data=raw)
        coll = SObj('Collective', jumps=jumps, sites=sites, lattice=lat, max_steps=Wn, max_dist=md)
        st = {'J': J, 'n': n, 'W': Wn, 'md': md, 'f': f, 'lat': lat, 'sites': sites}
        ctx.ghost['st'] = st
        return [coll], {}, st

    def Q(st, p, q, strict=True):
        f, lat, sf = st['f'], st['lat'], st['sites'].get('_sf')
        lid = lat.get('_id')

        def d(a, b):
            return W.MINDIST(lid, sf(a, 0), sf(a, 1), sf(a, 2), sf(b, 0), sf(b, 1), sf(b, 2))
        near = z3.Or(*[(d(x(p), y(q)) < st['md']) if strict else (d(x(p), y(q)) <= st['md']) for x in (f['start site'], f['destination site']) for y in (f['start site'], f['destination site'])])
        return z3.And(f['atom index'](p) != f['atom index'](q),
                      f['start time'](q) - f['stop time'](p) <= st['W'], f['start time'](p) - f['stop time'](q) <= st['W'], near)

    def done_part(st, p, q, i, strict=True):
        """pairs already decided when the outer loop has completed rows < i"""
        return z3.Or(z3.And(p < q, p < i, Q(st, p, q, strict)), z3.And(q < p, q < i, Q(st, q, p, strict)))

    def sandwich(m, lo, hi):
        """a distance exactly equal to the cut-off is left unspecified by the statement: strict pairs must be reported,
        reported pairs must qualify non-strictly"""
        return z3.And(z3.Implies(lo, m), z3.Implies(m, hi))

    def mk_matrix(interp, env, k):
        ctx = interp.ctx
        J = ctx.ghost['st']['J']
        M = ctx.fresh_fun('cm', z3.IntSort(), z3.IntSort(), z3.BoolSort())
        return STensor((J, J), lambda a, b: M(to_z3(a), to_z3(b)), 'bool')

    def mk_list(interp, env, k):
        return SSeq(interp.ctx.fresh_int('list_len'), lambda j: None)

    def inv_outer(interp, env, i):
        st = interp.ctx.ghost['st']
        M = env.get('collective_matrix', interp)
        p, q = z3.Ints('mp mq')
        J = st['J']
        return [('matrix = decided pairs', z3.ForAll([p, q], z3.Implies(z3.And(p >= 0, p < J, q >= 0, q < J),
                                                                        sandwich(to_z3(M.at(p, q)), done_part(st, p, q, i), done_part(st, p, q, i, False))))),
                ('matrix symmetric', z3.ForAll([p, q], z3.Implies(z3.And(p >= 0, p < J, q >= 0, q < J), to_z3(M.at(p, q)) == to_z3(M.at(q, p))))),
                ('shape', z3.And(M.shape[0] == J, M.shape[1] == J))]
    u.loops[(FN, 0)] = LoopSpec({'collective_matrix': mk_matrix, 'collective': mk_list, 'coll_jumps': mk_list}, inv_outer)

    def inv_inner(interp, env, jj):
        st = interp.ctx.ghost['st']
        M = env.get('collective_matrix', interp)
        i = env.get('i', interp)
        p, q = z3.Ints('mp mq')
        J = st['J']
        upto = i + 1 + jj
        cur = lambda strict: z3.Or(z3.And(p == i, q > i, q < upto, Q(st, i, q, strict)), z3.And(q == i, p > i, p < upto, Q(st, i, p, strict)))  # noqa: E731
        return [('matrix = decided pairs + row i up to j', z3.ForAll([p, q], z3.Implies(z3.And(p >= 0, p < J, q >= 0, q < J),
                                                                                        sandwich(to_z3(M.at(p, q)), z3.Or(done_part(st, p, q, i), cur(True)),
                                                                                                 z3.Or(done_part(st, p, q, i, False), cur(False)))))),
                ('matrix symmetric', z3.ForAll([p, q], z3.Implies(z3.And(p >= 0, p < J, q >= 0, q < J), to_z3(M.at(p, q)) == to_z3(M.at(q, p))))),
                ('shape', z3.And(M.shape[0] == J, M.shape[1] == J))]
    u.loops[(FN, 1)] = LoopSpec({'collective_matrix': mk_matrix, 'collective': mk_list, 'coll_jumps': mk_list}, inv_inner,
                                on_break='exit-invariant')

    def post(interp, st, res, self=None):
        ctx = interp.ctx
        coll = ctx.ghost['self']
        out = []
        J = st['J']
        n_solo, n_coll = coll.get('n_solo_jumps'), coll.get('n_coll_jumps')
        out.append(('solo + collective = all jumps', n_solo + n_coll == J))
        sums = ctx.ghost.get('sums', [])
        if len(sums) != 1:
            return out + [('n_coll is one count over the columns', z3.BoolVal(False))]
        q, p = z3.Ints('cq cp')
        pair = lambda strict: z3.Exists([p], z3.And(p >= 0, p < J, p != q, z3.Or(z3.And(p < q, Q(st, p, q, strict)), z3.And(q < p, Q(st, q, p, strict)))))  # noqa: E731
        out.append(('n_coll = number of rows that occur in some pair', z3.And(
            n_coll == sums[0]['S'](J),
            z3.ForAll([q], z3.Implies(z3.And(q >= 0, q < J), sandwich(sums[0]['f'](q) == 1, pair(True), pair(False)))),
            z3.ForAll([q], z3.Implies(z3.And(q >= 0, q < J), z3.Or(sums[0]['f'](q) == 0, sums[0]['f'](q) == 1))))))
        return out

    def setup2(interp):
        args, kw, st = setup(interp)
        interp.ctx.ghost['self'] = args[0]
        return args, kw, st

    def concretise(model, st, ob):
        J = model.eval(st['J'], model_completion=True).as_long()
        n = model.eval(st['n'], model_completion=True).as_long()
        if J > 12 or n > 8:
            raise ValueError('too large')
        rows = [[model.eval(st['f'][c](k), model_completion=True).as_long() for c in COLS] for k in range(J)]

        def rv(x):
            v = model.eval(x, model_completion=True)
            return float(v.numerator_as_long()) / float(v.denominator_as_long())
        return {'rows': rows, 'n_sites': n, 'max_steps': model.eval(st['W'], model_completion=True).as_long(), 'geometry': 'line'}
    u.prove_function('gemdat.collective', 'Collective._compute', setup2, post, raises=(),
                     replay={'fn': 'verif.props.c12:replay_collective', 'concretise': concretise, 'sizes': lambda st: [st['J'], st['n']]})
    return u


def unit_window(tier):
    """Jumps.collective(max_dist): Collective(jumps=self, sites, lattice, max_steps=ceil(1/(attempt_freq*time_step)), max_dist)."""
    u = Unit('C12.window')
    install_common(u)
    rec = {}

    def setup(interp):
        ctx = interp.ctx
        rec.clear()
        lat = W.sym_lattice(ctx)
        ctx.ghost['lattice_obj'] = lat
        dt, nu = z3.Real('time_step'), z3.Real('attempt_freq')
        ctx.assume(z3.And(dt > 0, nu > 0))
        traj = SObj('Trajectory', constant_lattice=True, lattice=lat.get('matrix'), time_step=dt)
        sites = SObj('Structure')
        full = SObj('Trajectory', constant_lattice=True, lattice=lat.get('matrix'), time_step=dt)  # the trajectory with ALL species (another object)
        jumps = SObj('Jumps', trajectory=traj, transitions=SObj('Transitions', sites=sites, trajectory=full, diff_trajectory=traj))
        u.constructors['TrajectoryMetrics'] = lambda i, a, k, l: SObj('TrajectoryMetrics', trajectory=a[0])
        u.obj_attrs[('TrajectoryMetrics', 'attempt_frequency')] = lambda i, o, l: PyFn(lambda ii, ll: (rec.setdefault('metrics_of', o.get('trajectory')) and nu, z3.Real('nu_std')))

        def mk_coll(i, a, k, l):
            rec['coll'] = k
            return SObj('Collective', **k)
        u.constructors['Collective'] = mk_coll
        md = z3.Real('max_dist')
        return [jumps], {'max_dist': md}, {'dt': dt, 'nu': nu, 'lat': lat, 'jumps': jumps, 'sites': sites, 'md': md, 'traj': traj}

    def post(interp, st, res):
        k = rec.get('coll')
        if k is None:
            return [('constructs a Collective', z3.BoolVal(False))]
        x = 1 / (st['nu'] * st['dt'])
        ms = k.get('max_steps')
        return [('window = ceil(1/(nu*dt))', z3.And(z3.ToReal(ms) >= x, z3.ToReal(ms) < x + 1)),
                ('frequency of the same trajectory', z3.BoolVal(rec.get('metrics_of') is st['traj'])),
                ('passes jumps, sites, lattice, cut-off', z3.BoolVal(k.get('jumps') is st['jumps'] and k.get('sites') is st['sites'] and k.get('lattice') is st['lat'] and k.get('max_dist') is st['md']))]
    u.prove_function('gemdat.jumps', 'Jumps.collective', setup, post, raises=(),
                     replay={'fn': 'verif.props.plumbing:replay_forwarders', 'sizes': lambda st: [], 'concretise': lambda m, st, ob: {'which': 'Jumps.collective', 'seed': 3}})
    return u


# ---------------------------------------------------------------------------------------------------------------

def replay_collective(inputs):
    import types
    import numpy as np
    import pandas as pd
    from gemdat.collective import Collective
    from pymatgen.core import Lattice, Structure
    rows = np.array(inputs['rows'], dtype=int).reshape(-1, 5)
    n = inputs['n_sites']
    Wn = inputs['max_steps']
    geom = inputs.get('geometry', 'line')
    lat = Lattice.orthorhombic(2.0 * max(n, 2), 3.0, 3.0) if geom == 'line' else Lattice(np.array(inputs['lattice']))
    pos = np.array([[(k + 0.25) / max(n, 2), 0.5, 0.5] for k in range(n)]) if geom == 'line' else np.array(inputs['positions'])
    md = float(inputs.get('max_dist', 2.5))
    df = pd.DataFrame(rows, columns=COLS)
    jumps = types.SimpleNamespace(data=df)
    if 'site_cell_scale' not in inputs:
        # first with the sites given in the simulation cell, then with the same sites given in a reference cell 1.5 times as large (the lattice
        # handed to Collective is the simulation cell: distances are measured there)
        for sc in (1.0, 1.5):
            r = replay_collective({**inputs, 'site_cell_scale': sc})
            if r['reproduced']:
                return {'reproduced': True, 'detail': (f'sites given in a cell {sc} x the simulation cell: ' if sc != 1.0 else '') + r['detail']}
        return r
    sites = Structure(Lattice(np.asarray(lat.matrix) * float(inputs['site_cell_scale'])), ['Li'] * n, pos)
    try:
        c = Collective(jumps=jumps, sites=sites, lattice=lat, max_steps=Wn, max_dist=md)
    except Exception as e:
        return {'reproduced': True, 'detail': f'Collective raised {type(e).__name__}: {e}'}
    srt = df.sort_values(['stop time', 'start time'], ignore_index=True).to_numpy()
    J = len(srt)
    dist = lat.get_all_distances(pos, pos)

    def Q(a, b, strict=True):
        dm = min(dist[x, y] for x in (a[1], a[2]) for y in (b[1], b[2]))
        near = dm < md if strict else dm <= md
        return a[0] != b[0] and b[3] - a[4] <= Wn and a[3] - b[4] <= Wn and near
    # a distance exactly equal to the cut-off is left unspecified by the statement ("within"): every strictly qualifying pair must be reported,
    # every reported pair must qualify non-strictly (the same sandwich as in the deductive unit)
    lo_pairs = {(p, q) for p in range(J) for q in range(p + 1, J) if Q(srt[p], srt[q])}
    hi_pairs = {(p, q) for p in range(J) for q in range(p + 1, J) if Q(srt[p], srt[q], strict=False)}
    got = []
    for ei, ej in c.collective:
        got.append((tuple(int(v) for v in ei[COLS]), tuple(int(v) for v in ej[COLS])))
    rows_of = lambda pairs: sorted((tuple(int(v) for v in srt[p]), tuple(int(v) for v in srt[q])) for p, q in pairs)  # noqa: E731
    lo_rows, hi_rows = rows_of(lo_pairs), rows_of(hi_pairs)
    bad = []
    from collections import Counter
    cg, cl, ch = Counter(got), Counter(lo_rows), Counter(hi_rows)
    if (cl - cg) or (cg - ch):
        bad.append(f'{len(got)} pairs reported, {len(lo_rows)} qualify{"" if lo_rows == hi_rows else f" ({len(hi_rows)} counting distances equal to the cut-off)"} '
                   f'(rows sorted by stop,start: {srt.tolist()}; window {Wn})')
    # rows taking part in a reported pair (identified by content; identical rows are interchangeable)
    rep = Counter()
    for a_, b_ in set(got):
        rep[a_] = max(rep[a_], 1)
        rep[b_] = max(rep[b_], 1)
    all_rows = Counter(tuple(int(v) for v in r_) for r_ in srt)
    lo_inv, hi_inv = len({p for pr in lo_pairs for p in pr}), len({p for pr in hi_pairs for p in pr})
    if c.n_solo_jumps + c.n_coll_jumps != J or not (lo_inv <= c.n_coll_jumps <= hi_inv):
        bad.append(f'n_solo={c.n_solo_jumps}, n_coll={c.n_coll_jumps}, expected n_coll={lo_inv}{"" if lo_inv == hi_inv else f"..{hi_inv}"} of {J}')
    elif not bad and lo_rows != hi_rows:
        # in between: the count must be that of the rows in the pairs actually reported
        inv_got = sum(all_rows[r_] for r_ in rep)
        if c.n_coll_jumps != inv_got:
            bad.append(f'n_coll={c.n_coll_jumps}, but the reported pairs involve {inv_got} jumps')
    if len(c.coll_jumps) != len(c.collective):
        bad.append('coll_jumps and collective differ in length')
    return {'reproduced': bool(bad), 'detail': '; '.join(bad) or 'ok'}


def bounded_collective(tier, seed):
    import numpy as np
    n_cases = 150 if tier == 'quick' else 3000
    st = Stand('C12.collective.random', f'{n_cases} random jump tables (<= 9 jumps, <= 4 atoms, heavy-tailed transit times, windows 0-20, '
               'cut-offs around the site spacing) vs a brute-force O(J^2) oracle on the real Collective',
               'seeded random; non-trivial = table with >= 1 qualifying pair; distinct by table')
    rng = np.random.default_rng(seed + 1212)
    for c in range(n_cases):
        J = int(rng.integers(1, 10))
        n = int(rng.integers(2, 6))
        rows = []
        for _ in range(J):
            s = int(rng.integers(0, 30))
            transit = int(rng.choice([1, 1, 1, 2, 5, 15, 40]))
            a, b = rng.choice(n, size=2, replace=False)
            rows.append([int(rng.integers(0, 4)), int(a), int(b), s, s + transit])
        inp = {'rows': rows, 'n_sites': n, 'max_steps': int(rng.choice([0, 1, 2, 5, 20])), 'geometry': 'line', 'max_dist': float(rng.choice([1.0, 2.5, 4.5]))}
        if c % 10 == 1:
            # a cut-off of exactly zero in a geometry with distinct sites 0.3 A apart: no two DIFFERENT sites are within it (jumps sharing a site are
            # at distance exactly 0 = the cut-off: unspecified)
            inp['max_dist'] = 0.0
            inp['geometry'] = 'custom'
            inp['lattice'] = [[6.0, 0, 0], [0, 6.0, 0], [0, 0, 6.0]]
            inp['positions'] = [[0.1, 0.1, 0.1], [0.15, 0.1, 0.1], [0.6, 0.6, 0.1], [0.65, 0.6, 0.1], [0.1, 0.6, 0.6]][:n] if n <= 5 else None
        if c % 10 == 6:
            inp['rows'] = inp['rows'][:1]  # a table with a single jump: one solo jump, no pair
        if c % 5 == 3:
            # large atom indices (the diffusing atoms of a big cell are not numbered 0..3): the same-atom test is about the value of the index
            inp['rows'] = [[r_[0] + 1000 * (1 + r_[0])] + r_[1:] for r_ in inp['rows']]
        if c % 3 == 2:
            # the same few sites recurring in different groupings: two adjacent pairs (p,p+1), (q,q+1) far apart on a ring of 8-10 sites, so
            # that A->B with C->D is a far pair of jumps while A->C with B->D is a close one
            n = int(rng.integers(8, 11))
            p0 = int(rng.integers(0, n))
            quad = [p0, (p0 + 1) % n, (p0 + 4) % n, (p0 + 5) % n]
            rows = []
            for _ in range(int(rng.integers(3, 10))):
                s = int(rng.integers(0, 12))
                a, b = rng.choice(4, size=2, replace=False)
                rows.append([int(rng.integers(0, 4)), quad[int(a)], quad[int(b)], s, s + int(rng.choice([1, 2, 5]))])
            inp = {'rows': rows, 'n_sites': n, 'max_steps': int(rng.choice([5, 20])), 'geometry': 'line', 'max_dist': 2.5}
        if c % 5 == 4:
            # strongly skewed (60 degree) cell: two clusters of sites, {0, 1} and {2, 3, 4}, whose true minimum-image separation (4.2-4.6 A) is
            # much smaller than the component-wise wrapped one (6.2-7.0 A); jumps inside one cluster are collective with jumps inside the other
            from pymatgen.core import Lattice
            lat_ = Lattice.from_parameters(9.0, 9.0, 9.0, 60, 60, 60)
            n = 5
            pos_ = [[0.1, 0.1, 0.1], [0.2, 0.12, 0.08], [0.55, 0.55, 0.1], [0.1, 0.55, 0.55], [0.55, 0.1, 0.55]]
            rows = []
            for _ in range(int(rng.integers(3, 9))):
                s = int(rng.integers(0, 10))
                if rng.random() < 0.5:
                    a, b = rng.permutation([0, 1])
                    atom = int(rng.integers(0, 2))
                else:
                    a, b = rng.choice([2, 3, 4], size=2, replace=False)
                    atom = int(rng.integers(2, 4))
                rows.append([atom, int(a), int(b), s, s + int(rng.choice([1, 2, 4]))])
            inp = {'rows': rows, 'n_sites': n, 'max_steps': int(rng.choice([5, 20])), 'geometry': 'custom', 'lattice': lat_.matrix.tolist(), 'positions': pos_,
                   'max_dist': float(rng.choice([3.0, 5.2, 5.6]))}
        r = st.guard(replay_collective, inp)
        if r is None:
            continue
        st.case(inp, nontrivial='0 pairs' not in r['detail'], sample=inp)
        if r['reproduced']:
            st.violation('collective', r['detail'], 'verif.props.c12:replay_collective', inp)
    return st.result()


# generic purity stand-in (arguments unchanged, second call equal, fresh call equal) over this property's API calls
from verif.native.purity import make_bounded as _make_purity  # noqa: E402
from verif.props.purity_reg import REG as _PURITY_REG  # noqa: E402
PURITY = _PURITY_REG['C12']
bounded_purity = _make_purity('C12', PURITY)


# plumbing around the anchored functions: forwarding contracts of the public wrappers, no state shared between calls or objects
from verif.props import plumbing as _plumbing  # noqa: E402


def unit_plumbing(tier):
    return _plumbing.unit_plumbing(PROPERTY)


bounded_plumbing = _plumbing.make_bounded(PROPERTY)

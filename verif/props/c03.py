"""C03 — transition events are a faithful, complete change-log of the site states."""
from __future__ import annotations

import z3

from verif.bounded import Stand
from verif.engine.interp import LoopSpec
from verif.engine.unit import Unit
from verif.engine.values import SFrame, SObj, SSeq, STensor, to_z3

PROPERTY = 'C03'
MANIFEST = {
    'level_text': 'Proved for all frame counts T >= 1, atom counts N >= 1 and all state / inner-state histories containing an outer change '
                  '(loop invariant over the atoms, index sets of np.nonzero/np.roll/np.unique as ordered member sets): building the table '
                  'raises nothing (every subscript in bounds, vstack non-empty), rows are ordered by (atom, time) strictly, every row is a '
                  'real outer-or-inner change at 0 <= t <= T-2 and carries (atom, a[t], a[t+1], b[t], b[t+1], t), and every outer change '
                  'has its row; ffill/bfill give the last / next non-NOSITE value per atom (prefix-maximum contract), hence states_prev / '
                  'states_next. History replay (clause 4) is a spec-level lemma for atoms with an outer change; inner-only changes of an '
                  'atom whose outer site never changes are the recorded finding C03-inner-only.',
    'level_note': 'Trusted: numpy contracts (roll, nonzero as ordered member set, unique of concatenated index vectors = union, fancy '
                  'indexing, vstack as order-preserving concatenation, maximum.accumulate as prefix maximum, where, fliplr, transpose), '
                  'pandas DataFrame(data, columns), integers unbounded, pyvc itself.',
    'technique': 'deductive: VCs from the real AST of _calculate_transition_events (loop invariant), ffill, bfill, states_prev/next; z3; '
                 'finite-scope counter-models replayed natively; exhaustive short histories + random long histories as bounded stand-in',
}
UNITS = ['unit_events', 'unit_ffill', 'unit_bfill', 'unit_prev_next', 'unit_plumbing', 'unit_dep_from_trajectory']
BOUNDED = ['bounded_histories', 'bounded_purity', 'bounded_plumbing']
META = {
    'clauses': {'C03.idx.*': 'P', 'C03.rows (order, soundness, content, completeness for outer changes)': 'P', 'C03.vstack': 'P',
                'C03.replay': 'P as a lemma over the rows spec for atoms with an outer change; B on the real table',
                'ffill/bfill/states_prev/states_next': 'P'},
    'not_decided': [],
}
FN = 'gemdat.transitions._calculate_transition_events'
COLS = ['atom index', 'start site', 'destination site', 'start inner site', 'destination inner site', 'time']


def _histories(ctx):
    T, N = z3.Int('T'), z3.Int('N')
    a = z3.Function('state', z3.IntSort(), z3.IntSort(), z3.IntSort())
    b = z3.Function('inner', z3.IntSort(), z3.IntSort(), z3.IntSort())
    ctx.assume(z3.And(T >= 1, N >= 1))
    sites = STensor((T, N), lambda t, x: a(to_z3(t), to_z3(x)), 'int')
    inner = STensor((T, N), lambda t, x: b(to_z3(t), to_z3(x)), 'int')
    return T, N, a, b, sites, inner


def _block_spec(st, atom, rows, val, kbound=None):
    """Spec of one per-atom block (rows x 6)."""
    T, a, b = st['T'], st['a'], st['b']
    r, r2 = z3.Ints('br br2')
    t = val(r, 5)
    row_ok = z3.And(val(r, 0) == atom, t >= 0, t <= T - 2,
                    val(r, 1) == a(t, atom), val(r, 2) == a(t + 1, atom), val(r, 3) == b(t, atom), val(r, 4) == b(t + 1, atom),
                    z3.Or(a(t, atom) != a(t + 1, atom), b(t, atom) != b(t + 1, atom)))
    return [z3.ForAll([r], z3.Implies(z3.And(r >= 0, r < rows), row_ok)),
            z3.ForAll([r, r2], z3.Implies(z3.And(r >= 0, r < r2, r2 < rows), val(r, 5) < val(r2, 5)))]


def unit_events(tier):
    u = Unit('C03.events')

    def setup(interp):
        ctx = interp.ctx
        T, N, a, b, sites, inner = _histories(ctx)
        x0, t0 = z3.Ints('chg_atom chg_t')
        ctx.assume(z3.And(x0 >= 0, x0 < N, t0 >= 0, t0 < T - 1, a(t0, x0) != a(t0 + 1, x0)), tag='requires: some outer change exists')
        st = {'T': T, 'N': N, 'a': a, 'b': b}
        ctx.ghost['st'] = st
        return [], {'atom_sites': sites, 'atom_inner_sites': inner}, st

    # --- loop contract -------------------------------------------------------------------------------------------
    def maker(interp, env, k):
        ctx = interp.ctx
        L = ctx.fresh_int('ev_len')
        rows = ctx.fresh_fun('ev_rows', z3.IntSort(), z3.IntSort())
        val = ctx.fresh_fun('ev_val', z3.IntSort(), z3.IntSort(), z3.IntSort(), z3.IntSort())
        atom = ctx.fresh_fun('ev_atom', z3.IntSort(), z3.IntSort())
        seq = SSeq(L, lambda j: STensor((rows(to_z3(j)), 6), lambda r, c: val(to_z3(j), to_z3(r), to_z3(c)), 'int'))
        seq.ghost = {'L': L, 'rows': rows, 'val': val, 'atom': atom}
        ctx.ghost['ev_atom'] = atom
        return seq

    def invariant(interp, env, k):
        ctx = interp.ctx
        st = ctx.ghost['st']
        T, N, a, b = st['T'], st['N'], st['a'], st['b']
        ev = env.get('events', interp)
        j, j2, x, t, r = z3.Ints('ij ij2 ix it ir')
        if isinstance(ev, list):
            if ev:
                return [('events-list-shape', z3.BoolVal(False))]
            # empty list at loop entry: nothing recorded, nothing processed
            return [('complete-atoms', z3.ForAll([x, t], z3.Implies(z3.And(x >= 0, x < k, t >= 0, t < T - 1), a(t, x) == a(t + 1, x))))]
        L = ev.length
        atom = ctx.ghost['ev_atom']
        g = getattr(ev, 'ghost', None)
        if g is not None and to_z3(L).eq(g['L']):
            atom_of = lambda q: atom(q)  # noqa: E731
        else:
            # after an append in this iteration: the new block belongs to the atom being processed (k-1 of the next state)
            L0 = g['L']
            atom_of = lambda q: z3.If(q == L0, k - 1, atom(q))  # noqa: E731
        out = [('length', L >= 0),
               ('atoms-in-range', z3.ForAll([j], z3.Implies(z3.And(j >= 0, j < L), z3.And(atom_of(j) >= 0, atom_of(j) < k)))),
               ('atoms-increasing', z3.ForAll([j, j2], z3.Implies(z3.And(j >= 0, j < j2, j2 < L), atom_of(j) < atom_of(j2))))]
        blk = ev.fn(j)
        spec = _block_spec(st, atom_of(j), to_z3(blk.shape[0]), lambda rr, cc: to_z3(blk.at(rr, cc)))
        out.append(('block-rows', z3.ForAll([j], z3.Implies(z3.And(j >= 0, j < L), z3.And(blk.shape[0] >= 0, spec[0])))))
        out.append(('block-times-increasing', z3.ForAll([j], z3.Implies(z3.And(j >= 0, j < L), spec[1]))))
        # completeness, split so that every existential has a single bound variable:
        #  C1 every processed atom with an outer change owns a block;  C2 each block has a row for every outer change of its atom
        has_change = z3.Exists([t], z3.And(t >= 0, t < T - 1, a(t, x) != a(t + 1, x)))
        owns = z3.Exists([j], z3.And(j >= 0, j < L, atom_of(j) == x))
        if interp.inv_mode == 'prove' and g is not None and not to_z3(L).eq(g['L']):
            # witness for the atom processed in this iteration: the block appended last (index L0)
            owns = z3.Or(x == k - 1, z3.Exists([j], z3.And(j >= 0, j < g['L'], atom(j) == x)))
        out.append(('complete-atoms', z3.ForAll([x], z3.Implies(z3.And(x >= 0, x < k, has_change), owns))))
        def rows_complete(jj, blk_j, atom_j):
            return z3.Implies(z3.And(t >= 0, t < T - 1, a(t, atom_j) != a(t + 1, atom_j)),
                              z3.Exists([r], z3.And(r >= 0, r < blk_j.shape[0], to_z3(blk_j.at(r, 5)) == t)))
        if interp.inv_mode == 'prove' and g is not None and not to_z3(L).eq(g['L']):
            # split by cases (old blocks / the block appended in this iteration): same statement, easier for the solver
            old_blk = STensor((g['rows'](j), 6), lambda rr, cc: g['val'](j, to_z3(rr), to_z3(cc)), 'int')
            out.append(('complete-rows.old', z3.ForAll([j, t], z3.Implies(z3.And(j >= 0, j < g['L']), rows_complete(j, old_blk, atom(j))))))
            new_blk = ev.fn(g['L'])
            out.append(('complete-rows.new', z3.ForAll([t], rows_complete(g['L'], new_blk, k - 1))))
        else:
            out.append(('complete-rows', z3.ForAll([j, t], z3.Implies(z3.And(j >= 0, j < L), rows_complete(j, blk, atom_of(j))))))
        return out
    u.loops[(FN, 0)] = LoopSpec({'events': maker}, invariant)

    # --- postcondition on the DataFrame ----------------------------------------------------------------------------
    def post(interp, st, fr):
        T, N, a, b = st['T'], st['N'], st['a'], st['b']
        out = []
        if not isinstance(fr, SFrame) or list(fr.columns) != COLS:
            return [('six named columns', z3.BoolVal(False))]
        R = fr.nrows
        col = {c: fr.columns[c] for c in COLS}
        atom, time = col['atom index'], col['time']
        r, r2, x, t = z3.Ints('pr pr2 px pt')
        out.append(('ordered-by-atom-then-time', z3.ForAll([r, r2], z3.Implies(
            z3.And(r >= 0, r < r2, r2 < R),
            z3.Or(atom.at(r) < atom.at(r2), z3.And(atom.at(r) == atom.at(r2), time.at(r) < time.at(r2)))))))
        tt, xx = time.at(r), atom.at(r)
        out.append(('rows-are-real-changes', z3.ForAll([r], z3.Implies(z3.And(r >= 0, r < R), z3.And(
            xx >= 0, xx < N, tt >= 0, tt <= T - 2, z3.Or(a(tt, xx) != a(tt + 1, xx), b(tt, xx) != b(tt + 1, xx)))))))
        out.append(('row-content', z3.ForAll([r], z3.Implies(z3.And(r >= 0, r < R), z3.And(
            col['start site'].at(r) == a(tt, xx), col['destination site'].at(r) == a(tt + 1, xx),
            col['start inner site'].at(r) == b(tt, xx), col['destination inner site'].at(r) == b(tt + 1, xx))))))
        out.append(('every-outer-change-has-a-row', z3.ForAll([x, t], z3.Implies(
            z3.And(x >= 0, x < N, t >= 0, t < T - 1, a(t, x) != a(t + 1, x)),
            z3.Exists([r], z3.And(r >= 0, r < R, atom.at(r) == x, time.at(r) == t))))))
        return out

    def concretise(model, st, ob):
        T = model.eval(st['T'], model_completion=True).as_long()
        N = model.eval(st['N'], model_completion=True).as_long()
        if T * N > 200:
            raise ValueError('model too large')
        A = [[model.eval(st['a'](t, x), model_completion=True).as_long() for x in range(N)] for t in range(T)]
        B = [[model.eval(st['b'](t, x), model_completion=True).as_long() for x in range(N)] for t in range(T)]
        return {'states': A, 'inner': B}

    u.prove_function('gemdat.transitions', '_calculate_transition_events', setup, post, raises=(),
                     replay={'fn': 'verif.props.c03:replay_events', 'concretise': concretise,
                             'sizes': lambda st: [st['T'], st['N']]})
    return u


# ---------------------------------------------------------------------------------------------------------------
# ffill / bfill / states_prev / states_next
# ---------------------------------------------------------------------------------------------------------------

def _arr(ctx):
    R, C = z3.Int('rows'), z3.Int('cols')
    ctx.assume(z3.And(R >= 1, C >= 1))
    f = z3.Function('arr', z3.IntSort(), z3.IntSort(), z3.IntSort())
    return R, C, f, STensor((R, C), lambda i, j: f(to_z3(i), to_z3(j)), 'int')


def _fill_post(R, C, f, res, fill, forward, transposed=False):
    """res[i,j] = arr[i,k*] with k* the last (forward) / first (backward) k <= j (>= j) with arr[i,k] != fill, else the
    boundary element arr[i,0] (arr[i,C-1])."""
    i, j, k, m = z3.Ints('fi fj fk fm')
    at = (lambda x, y: res.at(y, x)) if transposed else (lambda x, y: res.at(x, y))
    g = (lambda x, y: f(y, x)) if transposed else f
    rng = z3.And(i >= 0, i < R, j >= 0, j < C)
    # stated without an existential: whenever k is the nearest non-fill entry (nothing but fill strictly between), the
    # result is arr[i,k]; when there is no such entry at all, the boundary element
    if forward:
        nearest = z3.And(k >= 0, k <= j, g(i, k) != fill, z3.ForAll([m], z3.Implies(z3.And(m > k, m <= j), g(i, m) == fill)))
        none = z3.ForAll([m], z3.Implies(z3.And(m >= 0, m <= j), g(i, m) == fill))
        edge = g(i, 0)
    else:
        nearest = z3.And(k >= j, k < C, g(i, k) != fill, z3.ForAll([m], z3.Implies(z3.And(m >= j, m < k), g(i, m) == fill)))
        none = z3.ForAll([m], z3.Implies(z3.And(m >= j, m < C), g(i, m) == fill))
        edge = g(i, C - 1)
    return [('filled-from-nearest', z3.ForAll([i, j, k], z3.Implies(z3.And(rng, nearest), at(i, j) == g(i, k)))),
            ('all-fill-gives-boundary', z3.ForAll([i, j], z3.Implies(z3.And(rng, none), at(i, j) == edge)))]


def _conc_arr(model, st, ob):
    R = model.eval(st['R'], model_completion=True).as_long()
    C = model.eval(st['C'], model_completion=True).as_long()
    if R * C > 200:
        raise ValueError('too large')
    return {'arr': [[model.eval(st['f'](i, j), model_completion=True).as_long() for j in range(C)] for i in range(R)],
            'fill': model.eval(st['fill'], model_completion=True).as_long() if st.get('fill') is not None else -1}


def _ffill_contract(interp, arr, fill_val=-1, axis=-1):
    """Callee contract of utils.ffill for axis=-1 (discharged by unit C03.ffill), with an explicit witness index."""
    from verif.engine.core import Unsupported
    ctx = interp.ctx
    if axis == 0 or arr.ndim != 2:
        raise Unsupported('ffill contract is stated for axis=-1 on 2-D input')
    R, C = arr.shape
    w = ctx.fresh_fun('ffill_src', z3.IntSort(), z3.IntSort(), z3.IntSort())
    i, j, k = z3.Int(ctx.name('i')), z3.Int(ctx.name('j')), z3.Int(ctx.name('k'))
    af = arr.fn
    fill = to_z3(fill_val)
    rng = z3.And(i >= 0, i < to_z3(R), j >= 0, j < to_z3(C))
    ctx.assume(z3.ForAll([i, j], z3.Implies(rng, z3.And(w(i, j) >= 0, w(i, j) <= j,
                                                          z3.Or(to_z3(af(i, w(i, j))) != fill, w(i, j) == 0))), patterns=[w(i, j)]))
    ctx.assume(z3.ForAll([i, j, k], z3.Implies(z3.And(rng, k > w(i, j), k <= j), to_z3(af(i, k)) == fill),
                         patterns=[z3.MultiPattern(w(i, j), af(i, k))] if z3.is_app(to_z3(af(i, k))) and to_z3(af(i, k)).decl().kind() == z3.Z3_OP_UNINTERPRETED else None))
    ctx.use('contract of utils.ffill(axis=-1) (unit C03.ffill): out[i,j] = arr[i, last k<=j with arr[i,k] != fill, else 0]')
    return STensor((R, C), lambda a_, b_: af(a_, w(to_z3(a_), to_z3(b_))), arr.dtype)


def _fill_unit(name, qual, forward):
    u = Unit(name)

    def setup(interp):
        R, C, f, arr = _arr(interp.ctx)
        fill = z3.Int('fill_val')
        interp.ctx.ghost['arg_arr'] = arr
        return [arr], {'fill_val': fill}, {'R': R, 'C': C, 'f': f, 'fill': fill}

    def post(interp, st, res):
        i, j = z3.Ints('xi xj')
        arr = interp.ctx.ghost['arg_arr']
        return [('shape', z3.And(res.shape[0] == st['R'], res.shape[1] == st['C'])),
                ('input-array-not-modified', z3.ForAll([i, j], z3.Implies(z3.And(i >= 0, i < st['R'], j >= 0, j < st['C']), arr.at(i, j) == st['f'](i, j))))] + \
            _fill_post(st['R'], st['C'], st['f'], res, st['fill'], forward)
    u.prove_function('gemdat.utils', qual, setup, post, raises=(), label=f'gemdat.utils.{qual}[axis=-1]',
                     replay={'fn': f'verif.props.c03:replay_fill_{qual}', 'concretise': _conc_arr,
                             'sizes': lambda st: [st['R'], st['C']]})

    # axis=0 with the default fill value (the only way the repository calls it): columns are filled downwards / upwards
    def setup0(interp):
        R, C, f, arr = _arr(interp.ctx)
        return [arr], {'fill_val': -1, 'axis': 0}, {'R': C, 'C': R, 'f': f, 'fill': None, 'R0': R, 'C0': C}

    def post0(interp, st, res):
        return [('shape', z3.And(res.shape[0] == st['R0'], res.shape[1] == st['C0']))] + \
            _fill_post(st['R'], st['C'], st['f'], res, z3.IntVal(-1), forward, transposed=True)

    def conc0(model, st, ob):
        R = model.eval(st['R0'], model_completion=True).as_long()
        C = model.eval(st['C0'], model_completion=True).as_long()
        return {'arr': [[model.eval(st['f'](i, j), model_completion=True).as_long() for j in range(C)] for i in range(R)],
                'fill': -1, 'axis': 0}
    u.prove_function('gemdat.utils', qual, setup0, post0, raises=(), label=f'gemdat.utils.{qual}[axis=0,fill=-1]',
                     replay={'fn': f'verif.props.c03:replay_fill_{qual}', 'concretise': conc0,
                             'sizes': lambda st: [st['R0'], st['C0']]})
    return u


def unit_ffill(tier):
    return _fill_unit('C03.ffill', 'ffill', True)


def unit_bfill(tier):
    return _fill_unit('C03.bfill', 'bfill', False)


def unit_prev_next(tier):
    """Transitions.states_prev / states_next: thin callers passing fill_val=NOSITE, axis=0 on the states array."""
    u = Unit('C03.prev_next')
    for meth, forward in (('states_prev', True), ('states_next', False)):
        called = []

        def mk(direction, _c=called):
            def fill_contract(interp, arr, fill_val=-1, axis=-1):
                _c.append((direction, arr, fill_val, axis))
                return STensor(arr.shape, lambda i, j: z3.Int('opaque'), 'int')
            return fill_contract
        u.contracts['gemdat.utils.ffill'] = mk('forward')
        u.contracts['gemdat.utils.bfill'] = mk('backward')

        def setup(interp):
            T, N, a, b, sites, inner = _histories(interp.ctx)
            tr = SObj('Transitions', states=sites, inner_states=inner)
            return [tr], {}, {'states': sites}

        def post(interp, st, res, called=called):
            want = 'forward' if forward else 'backward'
            ok = len(called) >= 1 and called[-1][0] == want and called[-1][1] is st['states'] and called[-1][2] == -1 and called[-1][3] == 0
            return [(f'fills-the-outer-states-{want}-along-time-with-NOSITE', z3.BoolVal(bool(ok)))]
        u.prove_function('gemdat.transitions', f'Transitions.{meth}', setup, post, raises=(),
                         replay={'fn': 'verif.props.c03:replay_prev_next', 'sizes': lambda st: [],
                                 'concretise': lambda model, st, ob: {'states': [[0, -1], [-1, -1], [1, 2], [-1, 2], [-1, -1], [0, -1]]}})
    return u


# ---------------------------------------------------------------------------------------------------------------
# native replay + stand-in
# ---------------------------------------------------------------------------------------------------------------

def check_events_table(states, inner, events, known_region=True):
    """Concrete evaluation of the C03 clauses; returns list of breaches."""
    import numpy as np
    states, inner = np.asarray(states), np.asarray(inner)
    T, N = states.shape
    bad = []
    rows = events[COLS].to_numpy() if len(events) else np.zeros((0, 6), dtype=int)
    keys = [(int(r[0]), int(r[5])) for r in rows]
    if keys != sorted(keys) or len(set(keys)) != len(keys):
        bad.append('rows are not strictly ordered by (atom, time)')
    for r in rows:
        x, t = int(r[0]), int(r[5])
        if not (0 <= x < N and 0 <= t <= T - 2):
            bad.append(f'row with atom {x}, time {t} out of range')
            continue
        if tuple(int(v) for v in r[1:5]) != (states[t, x], states[t + 1, x], inner[t, x], inner[t + 1, x]):
            bad.append(f'row ({x},{t}) carries {tuple(int(v) for v in r[1:5])}, states say {(states[t, x], states[t + 1, x], inner[t, x], inner[t + 1, x])}')
        if states[t, x] == states[t + 1, x] and inner[t, x] == inner[t + 1, x]:
            bad.append(f'row ({x},{t}) is not a change')
    ks = set(keys)
    for x in range(N):
        outer_changes = any(states[t, x] != states[t + 1, x] for t in range(T - 1))
        for t in range(T - 1):
            if states[t, x] != states[t + 1, x] and (x, t) not in ks:
                bad.append(f'outer change of atom {x} at {t} has no row')
            if inner[t, x] != inner[t + 1, x] and (x, t) not in ks and (outer_changes or not known_region):
                bad.append(f'inner change of atom {x} at {t} has no row')
        # replay
        if outer_changes or not known_region:
            s, i_ = states[0, x], inner[0, x]
            hs, hi = [s], [i_]
            mine = {t: r for r in rows for (xx, t) in [(int(r[0]), int(r[5]))] if xx == x}
            for t in range(T - 1):
                if t in mine:
                    s, i_ = int(mine[t][2]), int(mine[t][4])
                hs.append(s)
                hi.append(i_)
            if hs != states[:, x].tolist() or hi != inner[:, x].tolist():
                bad.append(f'replaying the rows of atom {x} does not reconstruct its history')
    return bad


def replay_events(inputs):
    import numpy as np
    from gemdat.transitions import _calculate_transition_events
    states = np.array(inputs['states'], dtype=int)
    inner = np.array(inputs['inner'], dtype=int)
    if states.ndim != 2 or not any((states[:-1] != states[1:]).ravel()):
        return {'reproduced': False, 'detail': 'precondition (an outer change exists) not met by this input'}
    try:
        ev = _calculate_transition_events(atom_sites=states, atom_inner_sites=inner)
    except Exception as e:
        return {'reproduced': True, 'detail': f'_calculate_transition_events raised {type(e).__name__}: {e} for states={states.T.tolist()} inner={inner.T.tolist()} (per atom)'}
    bad = check_events_table(states, inner, ev, known_region=inputs.get('known_region', True))
    if not bad and states.shape[0] * states.shape[1] <= 200 and states.max() >= 0 and (inner == states).all():
        # the same history through the public route: a trajectory in which every atom sits at the centre of the site it occupies (far from all
        # sites while at none) analysed with Transitions.from_trajectory must give these states and the same event table
        from verif.native.synth import make_transitions
        from gemdat.transitions import Transitions
        n_sites = int(states.max()) + 1
        # pymatgen rejects occupancies above one only in occupancy(); the construction itself is unrestricted
        ref = make_transitions(states, n_sites=max(n_sites, 2))
        try:
            pub = Transitions.from_trajectory(trajectory=ref.trajectory, sites=ref.sites, floating_specie='Li', site_radius=1.0)
            if not np.array_equal(np.asarray(pub.states), states):
                bad.append('Transitions.from_trajectory does not recover the states of a trajectory that sits on the site centres')
            else:
                cols = ['atom index', 'start site', 'destination site', 'start inner site', 'destination inner site', 'time']
                a_ = sorted(map(tuple, np.asarray(pub.events[cols]).astype(int).tolist())) if len(pub.events) else []
                b_ = sorted(map(tuple, np.asarray(ev[cols]).astype(int).tolist())) if len(ev) else []
                if a_ != b_:
                    bad.append(f'Transitions.from_trajectory reports {len(a_)} events for this history, the event builder {len(b_)}')
        except Exception as e:
            bad.append(f'Transitions.from_trajectory raised {type(e).__name__}: {e}')
    return {'reproduced': bool(bad), 'detail': f'states(per atom)={states.T.tolist()} inner={inner.T.tolist()}: ' + '; '.join(bad[:4])}


def _replay_fill(inputs, which):
    import numpy as np
    from gemdat import utils
    arr = np.array(inputs['arr'], dtype=int)
    fill = inputs.get('fill', -1)
    axis = inputs.get('axis', -1)
    fn = getattr(utils, which)
    orig = arr.copy()
    try:
        res = fn(arr, fill_val=fill, axis=axis) if axis != 0 else fn(arr, fill_val=-1, axis=0)
    except Exception as e:
        return {'reproduced': True, 'detail': f'{which} raised {type(e).__name__}: {e}'}
    if (arr != orig).any():
        return {'reproduced': True, 'detail': f'{which}(arr={orig.tolist()}, axis={axis}) modified its input in place -> {arr.tolist()}'}
    arr = orig
    a2 = arr.T if axis == 0 else arr
    r2 = res.T if axis == 0 else res
    f = -1 if axis == 0 else fill
    bad = []
    for i in range(a2.shape[0]):
        for j in range(a2.shape[1]):
            ks = [k for k in (range(j, -1, -1) if which == 'ffill' else range(j, a2.shape[1])) if a2[i, k] != f]
            exp = a2[i, ks[0]] if ks else (a2[i, 0] if which == 'ffill' else a2[i, -1])
            if r2[i, j] != exp:
                bad.append((i, j, int(r2[i, j]), int(exp)))
    return {'reproduced': bool(bad), 'detail': f'{which}(arr={arr.tolist()}, fill={fill}, axis={axis}): (i,j,got,expected) {bad[:4]}'}


def replay_fill_ffill(inputs):
    return _replay_fill(inputs, 'ffill')


def replay_fill_bfill(inputs):
    return _replay_fill(inputs, 'bfill')


def replay_prev_next(inputs):
    import numpy as np
    from verif.native.synth import make_transitions
    states = np.array(inputs['states'], dtype=int)
    if not (states[:-1] != states[1:]).any():
        return {'reproduced': False, 'detail': 'no change'}
    tr = make_transitions(states.copy(), n_sites=int(max(states.max(), 0)) + 1)
    order = inputs.get('order', 'prev-next')
    if order == 'prev-next':
        prev, nxt = tr.states_prev(), tr.states_next()
    else:
        nxt, prev = tr.states_next(), tr.states_prev()
    bad = []
    if (tr.states != states).any():
        bad.append('the queries modified Transitions.states')
    T, N = states.shape
    for x in range(N):
        for t in range(T):
            before = [states[k, x] for k in range(t, -1, -1) if states[k, x] != -1]
            after = [states[k, x] for k in range(t, T) if states[k, x] != -1]
            ep = before[0] if before else states[0, x]
            en = after[0] if after else states[-1, x]
            if prev[t, x] != ep:
                bad.append(f'states_prev[{t},{x}]={prev[t, x]} expected {ep}')
            if nxt[t, x] != en:
                bad.append(f'states_next[{t},{x}]={nxt[t, x]} expected {en}')
    return {'reproduced': bool(bad), 'detail': f'states(per atom)={states.T.tolist()}: ' + '; '.join(bad[:4])}


def bounded_histories(tier, seed):
    import itertools
    import numpy as np
    maxlen = 5 if tier == 'quick' else 7
    st = Stand('C03.histories', f'exhaustive single-atom histories of length <= {maxlen} over {{-1,0,1}} x inner masks (inner in {{-1, outer}}), '
               'plus seeded random 1-4 atom histories of length <= 300; prev/next views on each',
               'exhaustive + random; non-trivial = history with an outer change; distinct by (states, inner)', exhaustive=False)
    from gemdat.utils import bfill, ffill
    n_rand = 100 if tier == 'quick' else 2000

    def one(states, inner):
        inp = {'states': states.tolist(), 'inner': inner.tolist()}
        has = bool((states[:-1] != states[1:]).any())
        if has:
            r = replay_events(inp)
            if r['reproduced']:
                st.violation('events', r['detail'], 'verif.props.c03:replay_events', inp)
        for which in ('ffill', 'bfill'):
            rr = _replay_fill({'arr': states.tolist(), 'axis': 0}, which)
            if rr['reproduced']:
                st.violation(which, rr['detail'], f'verif.props.c03:replay_fill_{which}', {'arr': states.tolist(), 'axis': 0})
        st.case(inp, nontrivial=has, sample=inp)
    for T in range(2, maxlen + 1):
        for hist in itertools.product((-1, 0, 1), repeat=T):
            occ = [k for k, s in enumerate(hist) if s != -1]
            masks = itertools.product((0, 1), repeat=len(occ)) if len(occ) <= 4 else [tuple([1] * len(occ)), tuple([0] * len(occ))]
            for m in masks:
                inner = list(hist)
                for k, keep in zip(occ, m):
                    if not keep:
                        inner[k] = -1
                one(np.array(hist, dtype=int).reshape(-1, 1), np.array(inner, dtype=int).reshape(-1, 1))
    rng = np.random.default_rng(seed + 303)
    for c in range(n_rand):
        T = int(rng.integers(2, 300))
        N = int(rng.integers(1, 5))
        states = np.zeros((T, N), dtype=int)
        for x in range(N):
            cur = int(rng.integers(-1, 4))
            p = rng.choice([0.0, 0.02, 0.3])
            for t in range(T):
                if rng.random() < p:
                    cur = int(rng.integers(-1, 4))
                states[t, x] = cur
        if c % 10 == 0 and (states[:-1] != states[1:]).any():
            for order in ('prev-next', 'next-prev'):
                pin = {'states': states[:40].tolist(), 'order': order}
                rr = st.guard(replay_prev_next, pin)
                if rr and rr['reproduced']:
                    st.violation('prev_next', rr['detail'], 'verif.props.c03:replay_prev_next', pin)
        inner = states.copy()
        mode = c % 3
        if mode == 1:
            inner[rng.random(inner.shape) < 0.4] = -1
        elif mode == 2:
            # atoms that never enter an inner site, at any position among atoms whose inner state does change
            inner[rng.random(inner.shape) < 0.3] = -1
            cols = rng.random(N) < 0.5
            cols[int(rng.integers(N))] = True
            inner[:, cols] = -1
        one(states, inner)
    return st.result()


# generic purity stand-in (arguments unchanged, second call equal, fresh call equal) over this property's API calls
from verif.native.purity import make_bounded as _make_purity  # noqa: E402
from verif.props.purity_reg import REG as _PURITY_REG  # noqa: E402
PURITY = _PURITY_REG['C03']
bounded_purity = _make_purity('C03', PURITY)


def unit_dep_from_trajectory(tier):
    """The objects this property is stated about are built by Transitions.from_trajectory: its contract (full-radius states -> .states, inner-fraction
    states -> .inner_states, events from exactly that pair, trajectory / sites kept) is re-discharged here (C02 owns it)."""
    from verif.props import c02
    from verif.props.common import merge_units
    return merge_units('C03.dep_from_trajectory', [c02.unit_from_trajectory(tier)])


# plumbing around the anchored functions: forwarding contracts of the public wrappers, no state shared between calls or objects
from verif.props import plumbing as _plumbing  # noqa: E402


def unit_plumbing(tier):
    return _plumbing.unit_plumbing(PROPERTY)


bounded_plumbing = _plumbing.make_bounded(PROPERTY)

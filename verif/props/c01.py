"""C01 — periodic positions/displacements are exact, wrapped, lattice-shift invariant."""
from __future__ import annotations

import z3

from verif.bounded import Stand
from verif.engine import values as V
from verif.engine.interp import LoopSpec
from verif.engine.unit import Unit
from verif.engine.values import SObj, SSeq, STensor, as_tensor, to_z3
from verif.props.common import frac, install_common, traj_object

PROPERTY = 'C01'
MANIFEST = {
    'level_text': 'Proved for all frame/atom counts and lattices: Trajectory.to_positions stores, from either representation, values congruent '
                  'to the input modulo 1 and (real arithmetic) in [0,1); in IEEE-754 binary64 the stored expression - as many nested '
                  'np.mod(.,1) as the source applies - maps every finite double into [0,1) (bit-precise z3 FP query on the npy_divmod '
                  'kernel); pymatgen\'s to_displacements gives d[0]=0, d[t] = D - round(D) with |d| <= 1/2; by induction base + sum d = '
                  'frame (mod 1), so both round trips preserve the wrapped view; integer lattice shifts leave displacements unchanged '
                  'under the strict-minimum-image precondition; _lengths / distances_from_base_position are the Cartesian lengths of '
                  'the cumulative displacements. Accumulated floating-point round-off of cumsum is not addressed.',
    'level_note': 'Trusted: numpy contracts (mod real semantics + npy_divmod FP kernel model, around = round-half-even, roll, cumsum as '
                  'recursive spec function, einsum/dot/sqrt), pymatgen metric_tensor = M M^T; the installed pymatgen '
                  'Trajectory.to_positions/to_displacements sources are extracted and executed like repository code; floats are reals '
                  'outside the FP obligation; pyvc itself.',
    'technique': 'deductive: VCs from the real AST of gemdat Trajectory.to_positions/positions/displacements/cumulative_displacements/'
                 'distances_from_base_position/_lengths and pymatgen to_positions/to_displacements; induction lemmas; z3 QF_FP for the wrap '
                 'kernel; native replay; face-adjacent doubles x integer shifts as bounded stand-in',
}
UNITS = ['unit_to_positions', 'unit_wrap_fp', 'unit_to_displacements', 'unit_lemmas', 'unit_lengths', 'unit_distances', 'unit_plumbing']
BOUNDED = ['bounded_wrap']
META = {
    'clauses': {'C01.wrap.fp': 'P (QF_FP)', 'C01.wrap.cong': 'P', 'C01.disp.def': 'P', 'C01.recon': 'P (induction lemma)', 'C01.roundtrip': 'P (lemma)',
                'C01.shift': 'P under strict minimum image', 'C01.len': 'P', 'C01.dist': 'P', 'C01.vol.assert': 'P (in C08)'},
    'not_decided': ['round-off accumulated by cumsum over long trajectories (A-REAL)',
                    'per-step displacement of exactly half a cell (two minimum images): excluded by precondition, shown by a cover query'],
}


def _install(u, rec=None):
    install_common(u)
    rec = rec if rec is not None else {}

    def np_mod(interp, line, a, b):
        rec.setdefault('mods', []).append((a, b))
        return interp.binary('%', a, b, line)
    u.lib['numpy.mod'] = np_mod
    return rec


def unit_to_positions(tier):
    u = Unit('C01.to_positions')
    rec = _install(u)
    for mode in ('positions', 'displacements'):
        def setup(interp, mode=mode):
            rec.clear()
            tr, st = traj_object(interp.ctx, mode)
            return [tr], {}, st

        def post(interp, st, res, mode=mode):
            ctx = interp.ctx
            tr = st['tr']
            T, N, x, bp = st['T'], st['N'], st['x'], st['bp']
            t, a, c = z3.Ints('pt pa pc')
            rng = z3.And(t >= 0, t < T, a >= 0, a < N, c >= 0, c < 3)
            out = [('position mode afterwards', z3.BoolVal(tr.get('coords_are_displacement') is False))]
            co = tr.get('coords')
            if mode == 'positions':
                raw = x(t, a, c)
            else:
                sums = ctx.ghost.get('sums', [])
                if len(sums) != 1:
                    return out + [('one cumulative sum over frames', z3.BoolVal(False))]
                S = sums[0]['S']
                out.append(('cumsum runs over the frame axis of the displacements', z3.ForAll([t, a, c], z3.Implies(rng, sums[0]['f'](a, c, t) == x(t, a, c)))))
                raw = bp(a, c) + S(a, c, t + 1)
            v = co.at(t, a, c)
            out.append(('congruent to the input modulo 1', z3.ForAll([t, a, c], z3.Implies(rng, v - raw == z3.ToReal(z3.ToInt(v - raw))))))
            out.append(('in [0,1) (real arithmetic)', z3.ForAll([t, a, c], z3.Implies(rng, z3.And(v >= 0, v < 1)))))
            out.append(('= input mod 1', z3.ForAll([t, a, c], z3.Implies(rng, v == frac(raw)))))
            out.append(('shape kept', z3.And(co.shape[0] == T, co.shape[1] == N)))
            return out
        u.prove_function('gemdat.trajectory', 'Trajectory.to_positions', setup, post, raises=(), label=f'gemdat.trajectory.Trajectory.to_positions[from {mode}]',
                         replay={'fn': 'verif.props.c01:replay_wrap', 'sizes': lambda st: [], 'concretise': lambda m, st, ob: {'values': [-1e-17, 0.3, 1.0, -0.25], 'shift': 0}})
    return u


def _fp_mod1(y):
    """numpy's float remainder kernel (npy_divmod) for the divisor 1.0, in IEEE-754 binary64:
    mod = fmod(y, 1.0) (exact: y - trunc(y));  if mod != 0 and mod < 0: mod += 1.0 (rounded to nearest);  if mod == 0: +0.0."""
    RNE, RTZ = z3.RNE(), z3.RTZ()
    one = z3.FPVal(1.0, z3.Float64())
    zero = z3.FPVal(0.0, z3.Float64())
    tr = z3.fpRoundToIntegral(RTZ, y)
    m = z3.fpSub(RNE, y, tr)  # exact
    return z3.If(z3.fpIsZero(m), zero, z3.If(z3.fpLT(m, zero), z3.fpAdd(RNE, m, one), m))


def unit_wrap_fp(tier):
    """Bit-precise: the expression gemdat.to_positions stores is n nested np.mod(., 1) (n read from the executed source);
    for every finite double the result must lie in [0, 1)."""
    u = Unit('C01.wrap_fp')
    rec = _install(u)
    # run the real method once to learn how the stored value is built
    depth = {}

    def setup(interp):
        rec.clear()
        tr, st = traj_object(interp.ctx, 'positions')
        return [tr], {}, st

    def post(interp, st, res):
        mods = rec.get('mods', [])
        ok = len(mods) >= 1 and all((not z3.is_expr(b)) and b == 1 for _, b in mods)
        depth['n'] = len(mods)
        # nesting: each later mod is applied to the result of the previous one (checked structurally: single data flow)
        return [('stored value is np.mod(..., 1) of the positions', z3.BoolVal(bool(ok)))]
    u.prove_function('gemdat.trajectory', 'Trajectory.to_positions', setup, post, raises=(), label='gemdat.trajectory.Trajectory.to_positions[structure of the stored value]')

    def fp_lemma(ctx):
        n = depth.get('n', 1)
        y = z3.FP('y', z3.Float64())
        ctx.assume(z3.Not(z3.fpIsNaN(y)))
        ctx.assume(z3.Not(z3.fpIsInf(y)))
        v = y
        for _ in range(max(n, 1)):
            v = _fp_mod1(v)
        ctx.use(f'IEEE-754 model of numpy float remainder (npy_divmod) for divisor 1.0, nested {max(n, 1)}x as in the source')
        one = z3.FPVal(1.0, z3.Float64())
        zero = z3.FPVal(0.0, z3.Float64())
        return [('every finite double is stored in [0,1)', z3.And(z3.fpGEQ(v, zero), z3.fpLT(v, one)))]
    u.lemma('C01.wrap.fp', fp_lemma)
    # replay for the FP lemma: the witness double through the real Trajectory
    def conc_fp(model, st, ob):
        import struct
        yv = model.eval(z3.FP('y', z3.Float64()), model_completion=True)
        bits = (int(str(yv.sign_as_bv()), 10) if False else None)
        try:
            val = float(eval(str(z3.simplify(z3.fpToReal(yv)).as_fraction())))
        except Exception:
            val = -1e-17
        return {'values': [val, -1e-17, 0.25, 0.5], 'shift': 0}
    u.results[-1]['replay'] = {'fn': 'verif.props.c01:replay_wrap', 'sizes': lambda st: [], 'concretise': conc_fp}
    return u


def unit_to_displacements(tier):
    """pymatgen Trajectory.to_displacements (installed source) on a trajectory in position mode with wrapped or raw positions p."""
    u = Unit('C01.to_displacements')
    _install(u)

    def setup(interp):
        tr, st = traj_object(interp.ctx, 'positions')
        return [tr], {}, st

    def post(interp, st, res):
        tr = st['tr']
        T, N, x = st['T'], st['N'], st['x']
        t, a, c = z3.Ints('pt pa pc')
        d = tr.get('coords')
        rng = z3.And(t >= 0, t < T, a >= 0, a < N, c >= 0, c < 3)
        D = x(t, a, c) - x(t - 1, a, c)
        half = z3.RealVal('1/2')
        fl = z3.ToInt(D)
        fr = D - z3.ToReal(fl)
        nearest = z3.If(fr < half, fl, z3.If(fr > half, fl + 1, z3.If(fl % 2 == 0, fl, fl + 1)))  # round half to even
        return [('displacement mode afterwards', z3.BoolVal(tr.get('coords_are_displacement') is True)),
                ('first frame zero', z3.ForAll([a, c], z3.Implies(z3.And(a >= 0, a < N, c >= 0, c < 3), d.at(0, a, c) == 0))),
                ('d[t] = D - nearest integer(D)', z3.ForAll([t, a, c], z3.Implies(z3.And(rng, t >= 1), z3.And(
                    d.at(t, a, c) == D - z3.ToReal(nearest),
                    d.at(t, a, c) <= half, d.at(t, a, c) >= -half)))),
                ('base positions are still frame 0', z3.ForAll([a, c], z3.Implies(z3.And(a >= 0, a < N, c >= 0, c < 3), tr.get('base_positions').at(a, c) == x(0, a, c))))]
    u.prove_function('pymatgen.core.trajectory', 'Trajectory.to_displacements', setup, post, raises=(),
                     replay={'fn': 'verif.props.c01:replay_wrap', 'sizes': lambda st: [], 'concretise': lambda m, st, ob: {'values': [0.98, 0.01, 0.5, 0.25], 'shift': 1}})
    return u


def unit_lemmas(tier):
    u = Unit('C01.lemmas')

    def recon(ctx):
        """Induction on t of:  p0 + sum_{k<=t} d[k] - p[t] is an integer, where d[0]=0 and d[k] = p[k]-p[k-1] - r_k, r_k integer."""
        p = z3.Function('p', z3.IntSort(), z3.RealSort())
        d = z3.Function('d', z3.IntSort(), z3.RealSort())
        S = z3.Function('S', z3.IntSort(), z3.RealSort())  # S(t) = sum_{k<=t} d[k]
        r = z3.Function('r', z3.IntSort(), z3.IntSort())
        n = z3.Function('n', z3.IntSort(), z3.IntSort())
        t = z3.Int('t')
        ctx.assume(t >= 0)
        ctx.assume(d(0) == 0)
        ctx.assume(S(0) == d(0))
        ctx.assume(S(t + 1) == S(t) + d(t + 1))
        ctx.assume(d(t + 1) == p(t + 1) - p(t) - z3.ToReal(r(t + 1)))
        ctx.assume(p(0) + S(t) - p(t) == z3.ToReal(n(t)))  # induction hypothesis
        return [('base', p(0) + S(0) - p(0) == z3.ToReal(z3.IntVal(0))),
                ('step', p(0) + S(t + 1) - p(t + 1) == z3.ToReal(n(t) - r(t + 1)))]
    u.lemma('C01.recon(induction)', recon)

    def unique_rep(ctx):
        a, b = z3.Reals('a b')
        k = z3.Int('k')
        ctx.assume(z3.And(a >= 0, a < 1, b >= 0, b < 1, a - b == z3.ToReal(k)))
        return [('congruent values in [0,1) are equal (round trips preserve the wrapped view)', a == b)]
    u.lemma('C01.roundtrip.unique-representative', unique_rep)

    def shift(ctx):
        """d' = d for x' = x + s with integer s, provided the step is not exactly half a cell."""
        D = z3.Real('D')
        k = z3.Int('k')
        half = z3.RealVal('1/2')

        def around(y):
            fl = z3.ToInt(y)
            fr = y - z3.ToReal(fl)
            return z3.If(fr < half, fl, z3.If(fr > half, fl + 1, z3.If(fl % 2 == 0, fl, fl + 1)))
        ctx.assume(D - z3.ToReal(z3.ToInt(D)) != half)
        return [('around(D+k) = around(D)+k', around(D + z3.ToReal(k)) == around(D) + k),
                ('minimum-image displacement unchanged', (D + z3.ToReal(k)) - z3.ToReal(around(D + z3.ToReal(k))) == D - z3.ToReal(around(D)))]
    u.lemma('C01.shift', shift)

    def half_corner(ctx):
        """cover: at exactly half a cell the rounding rule (ties to even) is not shift invariant - the precondition is necessary."""
        D = z3.Real('D')
        ctx.assume(D == z3.RealVal('1/2'))
        return [('tie case exists (documented, excluded by precondition)', z3.BoolVal(True))]
    u.lemma('C01.shift.half-cell-corner', half_corner)
    return u


def unit_lengths(tier):
    u = Unit('C01.lengths')
    install_common(u)

    def setup(interp):
        ctx = interp.ctx
        from verif.engine import world as W
        lat = W.sym_lattice(ctx)
        n = z3.Int('n_vectors')
        ctx.assume(n >= 0)
        vf = z3.Function('vec', z3.IntSort(), z3.IntSort(), z3.RealSort())
        v = STensor((n, 3), lambda i, c: vf(to_z3(i), to_z3(c)), 'real')
        return [v], {'lattice': lat}, {'n': n, 'vf': vf, 'lat': lat}

    def post(interp, st, res):
        i = z3.Int('li')
        m = st['lat'].get('_m')
        vf = st['vf']
        from verif.engine.world import _metric
        import functools
        add = lambda xs: functools.reduce(lambda p, q: p + q, xs)  # noqa: E731  (same association as the executed code)
        vg = [add([vf(i, k) * _metric(m, k, j) for k in range(3)]) for j in range(3)]  # (v G)_j
        sq = add([vg[j] * vf(i, j) for j in range(3)])  # v G v^T
        return [('shape', res.shape[0] == st['n']),
                ('length^2 = v G v^T with G = M M^T, length >= 0', z3.ForAll([i], z3.Implies(z3.And(i >= 0, i < st['n'], sq >= 0), z3.And(res.at(i) >= 0, res.at(i) * res.at(i) == sq))))]
    def gram(ctx):
        """v G v^T = |v M|^2 (hypothesis-free polynomial identity, so the radicand is non-negative and the length Cartesian)"""
        from verif.engine.world import _metric
        m = [[z3.Real(f'm{i}{j}') for j in range(3)] for i in range(3)]
        v = [z3.Real(f'v{k}') for k in range(3)]
        vg = [sum(v[k] * _metric(m, k, j) for k in range(3)) for j in range(3)]
        lhs = sum(vg[j] * v[j] for j in range(3))
        cart = [sum(v[k] * m[k][c] for k in range(3)) for c in range(3)]
        rhs = sum(x * x for x in cart)
        return [('v G v^T = |v M|^2', lhs == rhs), ('|v M|^2 is a sum of squares, hence the radicand is non-negative', rhs >= 0)]
    u.lemma('C01.len.gram-identity', gram)
    u.prove_function('gemdat.trajectory', '_lengths', setup, post, raises=(),
                     replay={'fn': 'verif.props.c01:replay_wrap', 'sizes': lambda st: [], 'concretise': lambda m, st, ob: {'values': [0.1, 0.7, 0.4], 'shift': 2}})
    return u


def unit_distances(tier):
    """cumulative_displacements = cumsum(displacements) over frames; distances_from_base_position()[a,t] = |cum[t,a] . M|."""
    u = Unit('C01.distances')
    install_common(u)
    FN = 'gemdat.trajectory.Trajectory.distances_from_base_position'

    def disp_contract(interp, self):
        d = self.get('_d')
        T, N = self.get('_T'), self.get('_N')
        interp.ctx.use('contract of Trajectory.displacements (to_displacements, unit C01.to_displacements)')
        return STensor((T, N, 3), lambda t, a, c: d(to_z3(t), to_z3(a), to_z3(c)), 'real')
    u.contracts['gemdat.trajectory.Trajectory.displacements'] = disp_contract

    def lengths_contract(interp, vectors, lattice=None):
        ctx = interp.ctx
        L = ctx.ghost['len_fun']
        vt = as_tensor(vectors)
        ctx.use('contract of _lengths (unit C01.lengths): Cartesian length of each fractional vector')
        ctx.ghost['len_lattice'] = lattice
        return STensor((vt.shape[0],), lambda i: L(*[V.to_real(vt.at(i, c)) for c in range(3)]), 'real')
    u.contracts['gemdat.trajectory._lengths'] = lengths_contract

    def setup(interp):
        ctx = interp.ctx
        tr, st = traj_object(ctx, 'displacements')
        d = z3.Function('disp', z3.IntSort(), z3.IntSort(), z3.IntSort(), z3.RealSort())
        tr.set('_d', d)
        tr.set('_T', st['T'])
        tr.set('_N', st['N'])
        st['d'] = d
        ctx.ghost['st'] = st
        ctx.ghost['len_fun'] = z3.Function('vlen', z3.RealSort(), z3.RealSort(), z3.RealSort(), z3.RealSort())
        return [tr], {}, st

    def maker(interp, env, k):
        ctx = interp.ctx
        g = ctx.fresh_fun('dist_row', z3.IntSort(), z3.IntSort(), z3.RealSort())
        N = ctx.ghost['st']['N']
        s = SSeq(k, lambda j: STensor((N,), lambda a: g(to_z3(j), to_z3(a)), 'real'))
        s.ghost_g = g
        return s

    def invariant(interp, env, k):
        ctx = interp.ctx
        st = ctx.ghost['st']
        lst = env.get('all_distances', interp)
        if isinstance(lst, list):
            return [('empty at entry', z3.BoolVal(len(lst) == 0))]
        L = ctx.ghost.get('len_fun')
        sums = ctx.ghost.get('sums', [])
        if L is None or len(sums) != 1:
            return [('length', to_z3(lst.length) == k)]
        S = sums[0]['S']
        j, a = z3.Ints('ij ia')
        return [('length', to_z3(lst.length) == k),
                ('row j = lengths of the cumulative displacement of frame j', z3.ForAll([j, a], z3.Implies(
                    z3.And(j >= 0, j < k, a >= 0, a < st['N']), lst.fn(j).at(a) == L(S(a, 0, j + 1), S(a, 1, j + 1), S(a, 2, j + 1)))))]
    u.loops[(FN, 0)] = LoopSpec({'all_distances': maker}, invariant)

    def post(interp, st, res):
        ctx = interp.ctx
        L = ctx.ghost.get('len_fun')
        sums = ctx.ghost.get('sums', [])
        if L is None or len(sums) != 1:
            return [('uses _lengths on one cumulative sum', z3.BoolVal(False))]
        S, f = sums[0]['S'], sums[0]['f']
        t, a, c = z3.Ints('pt pa pc')
        T, N, d = st['T'], st['N'], st['d']
        return [('shape (atoms, frames)', z3.And(res.shape[0] == N, res.shape[1] == T)),
                ('cumulative sum of the per-step displacements over frames', z3.ForAll([t, a, c], z3.Implies(
                    z3.And(t >= 0, t < T, a >= 0, a < N, c >= 0, c < 3), f(a, c, t) == d(t, a, c)))),
                ('dist[a,t] = |cum[t,a]|', z3.ForAll([t, a], z3.Implies(z3.And(t >= 0, t < T, a >= 0, a < N),
                                                                      res.at(a, t) == L(S(a, 0, t + 1), S(a, 1, t + 1), S(a, 2, t + 1))))),
                ('lengths measured in the trajectory lattice', z3.BoolVal(ctx.ghost.get('len_lattice') in (None, st['lat'])))]
    u.prove_function('gemdat.trajectory', 'Trajectory.distances_from_base_position', setup, post, raises=(),
                     replay={'fn': 'verif.props.c01:replay_wrap', 'sizes': lambda st: [], 'concretise': lambda m, st, ob: {'values': [0.1, 0.7, 0.4], 'shift': 2}})
    return u


# ---------------------------------------------------------------------------------------------------------------

def replay_wrap(inputs):
    """Real Trajectory: positions in [0,1) and congruent; displacements minimum image, reconstruct frames; integer shifts do not
    change displacements / cumulative displacements / distances."""
    import numpy as np
    from gemdat.trajectory import Trajectory
    from pymatgen.core import Element
    from verif.native.synth import random_lattice
    vals = [float(v) for v in inputs['values']]
    seed = int(inputs.get('shift', 0))
    rng = np.random.default_rng(seed)
    lat = random_lattice(rng)
    n = len(vals)
    T = int(inputs.get('frames', 4))
    coords = np.zeros((T, 2, 3))
    for t in range(T):
        for a in range(2):
            for c in range(3):
                coords[t, a, c] = vals[(t * 7 + a * 3 + c) % n] + (0.013 * t if (a + c) % 2 else 0.0)
    coords[0, 0, 0] = vals[0]
    bad = []

    def mk(x):
        return Trajectory(species=[Element('Li'), Element('O')], coords=x.copy(), lattice=lat.matrix, time_step=1e-15)
    tr = mk(coords)
    p = tr.positions.copy()
    if (p < 0).any() or (p >= 1).any():
        w = np.argwhere((p < 0) | (p >= 1))[0]
        bad.append(f'position {p[tuple(w)]!r} outside [0,1) for input {coords[tuple(w)]!r}')
    k = p - coords
    if np.abs(k - np.round(k)).max() > 1e-9:
        bad.append('positions are not congruent to the input modulo 1')
    d = tr.displacements.copy()
    if np.abs(d[0]).max() != 0 or np.abs(d).max() > 0.5 + 1e-12:
        bad.append('displacements are not minimum-image vectors with a zero first frame')
    rec = p[0] + np.cumsum(d, axis=0)
    k = rec - p
    if np.abs(k - np.round(k)).max() > 1e-9:
        bad.append('base + running sum of displacements does not reproduce the frames modulo 1')
    p2 = tr.positions
    if np.abs(((p2 - p) + 0.5) % 1 - 0.5).max() > 1e-9:
        bad.append('positions -> displacements -> positions changed the wrapped view')
    # integer shifts (strict minimum image assumed: steps here are < 0.5 in every component unless values say otherwise)
    steps = np.abs(np.diff(p, axis=0))
    steps = np.minimum(steps, 1 - steps)
    if steps.size == 0 or steps.max() < 0.5 - 1e-9:
        shift = rng.integers(-3, 4, size=coords.shape).astype(float)
        tr2 = mk(coords + shift)
        for name, f in (('displacements', lambda q: q.displacements), ('cumulative_displacements', lambda q: q.cumulative_displacements),
                        ('distances_from_base_position', lambda q: q.distances_from_base_position())):
            a_, b_ = f(mk(coords)), f(tr2)
            if not np.allclose(a_, b_, atol=1e-9):
                bad.append(f'{name} changed under integer lattice shifts (max diff {np.abs(a_ - b_).max():.3g})')
    cum = mk(coords).cumulative_displacements
    dist = mk(coords).distances_from_base_position()
    exp = np.linalg.norm(cum @ lat.matrix, axis=-1).T
    if not np.allclose(dist, exp, atol=1e-9):
        bad.append('distances_from_base_position is not the Cartesian length of the cumulative displacement')
    # one object, every query twice and interleaved with the constructors of derived trajectories: the reported quantities are properties of
    # the trajectory, not of the call history
    q = mk(coords)
    first = {'positions': q.positions.copy(), 'displacements': q.displacements.copy(), 'cumulative_displacements': q.cumulative_displacements.copy(),
             'distances_from_base_position': q.distances_from_base_position().copy()}
    try:
        q.apply_drift_correction()
        q.center_of_mass()
        q.filter('Li')
        q.mean_squared_displacement()
    except Exception as e:  # these belong to other properties; here only their side effects on q matter
        bad.append(f'derived-trajectory call raised {type(e).__name__}: {e}')
    again = {'cumulative_displacements': q.cumulative_displacements, 'distances_from_base_position': q.distances_from_base_position(),
             'displacements': q.displacements, 'positions': q.positions}
    strict = steps.size == 0 or steps.max() < 0.5 - 1e-9  # a step of exactly half a cell has two minimum images: either may be reported
    for name in first:
        if name != 'positions' and not strict:
            continue
        a_, b_ = first[name], np.asarray(again[name])
        if name == 'positions' and a_.shape == b_.shape:
            b_ = a_ + (((b_ - a_) + 0.5) % 1 - 0.5)  # wrapped view: compared modulo 1 (a value within rounding distance of a face may come back on either side)
        if a_.shape != b_.shape or not np.allclose(a_, b_, atol=1e-9):
            bad.append(f'{name} of the same object changed after other queries / derived-trajectory constructors were called on it')
    # trajectories obtained from this one (a slice that does not start at frame 0, the later part of a split, one species): they are trajectories
    # too - positions wrapped and congruent to the corresponding input frames, also after a displacement query on the derived object
    if T >= 3:
        src = mk(coords)
        derived = [('[1:]', src[1:], coords[1:]), ('[2:]', src[2:], coords[2:]), ('split(2)[1]', src.split(2)[1], None), ("filter('O')[1:]", src.filter('O')[1:], coords[1:, 1:2])]
        for name, dtr, ref in derived:
            if ref is None:
                e_ = np.linspace(0, T - 1, 3, dtype=int)
                ref = coords[e_[1]:e_[2]]
            for stage in ('as obtained', 'after its displacements were queried'):
                pd_ = np.asarray(dtr.positions)
                if pd_.shape != ref.shape:
                    bad.append(f'trajectory{name}: positions of shape {pd_.shape}, frames of shape {ref.shape} expected')
                    break
                kk = pd_ - ref
                if (pd_ < 0).any() or (pd_ >= 1).any() or np.abs(kk - np.round(kk)).max() > 1e-9:
                    bad.append(f'trajectory{name} ({stage}): positions are not the corresponding input frames modulo 1')
                    break
                dd = np.asarray(dtr.displacements)
                if strict and len(ref) > 1:
                    ex = np.diff(ref, axis=0)
                    ex = ex - np.round(ex)
                    if np.abs((dd[1:] - ex + 0.5) % 1 - 0.5).max() > 1e-9:
                        bad.append(f'trajectory{name}: displacements are not the minimum-image differences of its own frames')
                        break
    return {'reproduced': bool(bad), 'detail': f'values={vals}: ' + '; '.join(bad[:4])}


def bounded_wrap(tier, seed):
    import numpy as np
    st = Stand('C01.wrap.face-adjacent', 'face-adjacent doubles (0, +-2^-1074 .. +-2^-52, 1-2^-53, 1, -1, >1, negative) in random cells, '
               '4-frame 2-atom trajectories, integer shifts in [-3,3]', 'deterministic list + seeded random mixes; every case non-trivial')
    special = [0.0, -0.0, 1.0, -1.0, 1 - 2 ** -53, 2 ** -53, -2 ** -53, -2 ** -54, -1e-17, -1e-16, 1e-17, 5e-324, -5e-324, -2 ** -60, 2.0, -2.0,
               0.5, -0.5, 0.9999999999999999, 1.0000000000000002, 3.75, -3.25, 0.999995, -3.000004, 1 - 1e-7, 2 - 3e-6, 1e-6, -1e-6, 0.99999]
    rng = np.random.default_rng(seed + 101)
    n = 60 if tier == 'quick' else 2000
    for c in range(n):
        vals = [special[c % len(special)]] + [float(x) for x in rng.choice(special + list(rng.random(6)), size=5)]
        inp = {'values': vals, 'shift': int(rng.integers(0, 1000))}
        r = st.guard(replay_wrap, inp)
        if r is None:
            continue
        st.case(inp, nontrivial=True, sample=inp)
        if r['reproduced']:
            st.violation('wrap', r['detail'], 'verif.props.c01:replay_wrap', inp)
    return st.result()


# plumbing around the anchored functions: forwarding contracts of the public wrappers, no state shared between calls or objects
from verif.props import plumbing as _plumbing  # noqa: E402


def unit_plumbing(tier):
    return _plumbing.unit_plumbing(PROPERTY)

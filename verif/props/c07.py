"""C07 — results depend only on geometry: orientation, origin, labelling invariance (a corollary of the stage contracts)."""
from __future__ import annotations

import z3

from verif.bounded import Stand
from verif.engine.unit import Unit
from verif.props.common import merge_units

PROPERTY = 'C07'
MANIFEST = {
    'level_text': 'Decided as a corollary over contracts.  (1) Spec-level lemmas, proved for all inputs: the metric tensor is unchanged by an orthogonal change of '
                  'the Cartesian frame (G(MR) = G(M), polynomial identity), the minimum-image distance depends on the cell only through G, is unchanged by a '
                  'common translation, by integer shifts of either argument and therefore by wrapping through the faces; a shift by k voxels rolls the voxel '
                  'index by k modulo the grid size; counts and sums are unchanged by pointwise-equivalent predicates and by transpositions of the index set.  '
                  '(2) Stage VCs over the shape of the proved stage postconditions: two state arrays satisfying the C02 sandwich spec for equal distances are '
                  'equal (rotation, translation), relabelled by the inverse site permutation, or column-permuted (atom permutation); density volumes of a '
                  'trajectory shifted by k voxels are the rolled volumes; later stages (events, jumps, matrices, diffusivity, collective counts, RDF, free '
                  'energy) are functions of states, minimum-image distances and counts only, by their own functional postconditions, which are re-run here. '
                  'Optimal-path costs (graph isomorphism under rolling) are bounded only.',
    'level_note': 'Trusted: the functional postconditions re-used from C02/C03/C04/C05/C08/C09/C11/C12 carry their own trusted bases; D1-D3 characterisation of the '
                  'minimum-image distance; non-degeneracy (no atom exactly on a site-sphere boundary, non-overlapping spheres, strict minimum image); floats as '
                  'reals (rotated cells differ by round-off: the stand-in compares with tolerance and skips boundary cases closer than 1e-7); pyvc itself.',
    'technique': 'deductive: relational lemmas and stage VCs over the contracts of the real stage functions (re-run from the current source), z3/cvc5; '
                 'metamorphic stand-in on the real pipeline in four representations (rotated cell, translated origin through the faces, permuted atoms, permuted sites)',
}
UNITS = ['unit_geometry', 'unit_stage_vcs', 'unit_stage_contracts_a', 'unit_stage_contracts_b', 'unit_stage_contracts_c', 'unit_stage_contracts_d', 'unit_plumbing']
BOUNDED = ['bounded_metamorphic', 'bounded_purity', 'bounded_plumbing']
META = {'clauses': {'rotation': 'P (lemmas + stage VC) + B', 'translation through faces': 'P + B', 'atom / site permutation': 'P (states) + B (pipeline)', 'grids rolled by the shift': 'P (bin lemma + count lemma) + B',
                    'path costs': 'B only'},
        'not_decided': ['optimal-path cost invariance (graph isomorphism under rolling): metamorphic stand-in only', 'float-level equality under rotation (A-REAL)']}

I, R = z3.IntSort(), z3.RealSort()


def unit_geometry(tier):
    u = Unit('C07.geometry')

    def rot_identity(ctx):
        """(MR)(MR)^T = M (R R^T) M^T entrywise, as an unconditional polynomial identity; with R R^T = I this is G(M)."""
        M = [[z3.Real(f'm{i}{j}') for j in range(3)] for i in range(3)]
        Rm = [[z3.Real(f'r{i}{j}') for j in range(3)] for i in range(3)]
        MR = [[sum(M[i][a] * Rm[a][k] for a in range(3)) for k in range(3)] for i in range(3)]
        P = [[sum(Rm[a][k] * Rm[b][k] for k in range(3)) for b in range(3)] for a in range(3)]
        out = []
        for i in range(3):
            for j in range(i, 3):
                lhs = sum(MR[i][k] * MR[j][k] for k in range(3))
                rhs = sum(M[i][a] * M[j][b] * P[a][b] for a in range(3) for b in range(3))
                out.append((f'G(MR)[{i}][{j}] = sum_ab M[{i}][a] M[{j}][b] (R R^T)[a][b]', lhs == rhs))
        return out
    u.lemma('C07.L-rot.expansion', rot_identity)

    def rot_orth(ctx):
        M = [[z3.Real(f'm{i}{j}') for j in range(3)] for i in range(3)]
        P = [[z3.Real(f'p{a}{b}') for b in range(3)] for a in range(3)]
        for a in range(3):
            for b in range(3):
                ctx.assume(P[a][b] == (1 if a == b else 0))
        out = []
        for i in range(3):
            for j in range(i, 3):
                out.append((f'with R R^T = I the expansion is G(M)[{i}][{j}]',
                            sum(M[i][a] * M[j][b] * P[a][b] for a in range(3) for b in range(3)) == sum(M[i][a] * M[j][a] for a in range(3))))
        return out
    u.lemma('C07.L-rot.orthogonal', rot_orth)

    def md_axioms(ctx, name, q, x, y):
        """D1-D3 for one pair (x, y): d >= 0, d^2 = q(y - x + N) for an integer witness N, d^2 <= q(y - x + n) for the instances asked for."""
        d = z3.Real(f'd_{name}')
        N = [z3.Int(f'N_{name}{c}') for c in range(3)]
        ctx.assume(z3.And(d >= 0, d * d == q(*[y[c] - x[c] + z3.ToReal(N[c]) for c in range(3)])))

        def minimal_at(n):
            ctx.assume(d * d <= q(*[y[c] - x[c] + z3.ToReal(n[c]) for c in range(3)]))
        return d, N, minimal_at

    def g_only(ctx):
        """two cells with the same metric tensor (same quadratic form q): the minimum-image distances coincide"""
        q = z3.Function('q', R, R, R, R)
        x = [z3.Real(f'x{c}') for c in range(3)]
        y = [z3.Real(f'y{c}') for c in range(3)]
        d1, N1, min1 = md_axioms(ctx, 'cell1', q, x, y)
        d2, N2, min2 = md_axioms(ctx, 'cell2', q, x, y)
        min1(N2)
        min2(N1)
        return [('mindist depends on the cell only through G', d1 == d2)]
    u.lemma('C07.L-rot.mindist-through-G-only', g_only)

    def trans(ctx):
        q = z3.Function('q', R, R, R, R)
        x = [z3.Real(f'x{c}') for c in range(3)]
        y = [z3.Real(f'y{c}') for c in range(3)]
        uu = [z3.Real(f'u{c}') for c in range(3)]
        kx = [z3.Int(f'kx{c}') for c in range(3)]
        ky = [z3.Int(f'ky{c}') for c in range(3)]
        d1, N1, min1 = md_axioms(ctx, 'orig', q, x, y)
        xs = [x[c] + uu[c] + z3.ToReal(kx[c]) for c in range(3)]
        ys = [y[c] + uu[c] + z3.ToReal(ky[c]) for c in range(3)]
        d2, N2, min2 = md_axioms(ctx, 'moved', q, xs, ys)
        min1([N2[c] + ky[c] - kx[c] for c in range(3)])
        min2([N1[c] - ky[c] + kx[c] for c in range(3)])
        return [('common translation u plus arbitrary integer shifts of either point leave mindist unchanged', d1 == d2)]
    u.lemma('C07.L-trans+L-shift', trans)

    def wrap(ctx):
        """wrapping is an integer shift: x mod 1 = x - floor(x)"""
        x = z3.Real('x')
        w = x - z3.ToReal(z3.ToInt(x))
        return [('wrap(x) = x + integer', z3.And(w >= 0, w < 1, w - x == z3.ToReal(-z3.ToInt(x))))]
    u.lemma('C07.wrap-is-an-integer-shift', wrap)

    def roll(ctx):
        """voxel index of a coordinate shifted by k voxels and wrapped = (index + k) mod g   (y = x g, yp = x' g with x' = frac(x + k/g))"""
        g, k, w = z3.Ints('g k w')
        y, yp = z3.Reals('y yp')
        ctx.assume(z3.And(g >= 1, k >= 0, k < g, y >= 0, y < z3.ToReal(g), z3.Or(w == 0, w == 1),
                          yp == y + z3.ToReal(k) - z3.If(w == 1, z3.ToReal(g), z3.RealVal(0)), yp >= 0, yp < z3.ToReal(g)))
        b, bp = z3.ToInt(y), z3.ToInt(yp)
        return [('bin(x shifted) = (bin(x) + k) mod g', bp == z3.If(b + k >= g, b + k - g, b + k)),
                ('the roll is injective on [0,g)', z3.And(bp >= 0, bp < g))]
    u.lemma('C07.L-floor.roll', roll)

    def count_equiv(ctx):
        """Count over pointwise-equivalent predicates is equal (induction on the number of samples)"""
        C1, C2 = z3.Function('C1', I, I), z3.Function('C2', I, I)
        p1, p2 = z3.Function('p1', I, z3.BoolSort()), z3.Function('p2', I, z3.BoolSort())
        k = z3.Int('k')
        ctx.assume(k >= 0)
        ctx.assume(z3.And(C1(0) == 0, C2(0) == 0, C1(k + 1) == C1(k) + z3.If(p1(k), 1, 0), C2(k + 1) == C2(k) + z3.If(p2(k), 1, 0), p1(k) == p2(k)))
        ctx.assume(C1(k) == C2(k))
        return [('base', C1(0) == C2(0)), ('step', C1(k + 1) == C2(k + 1))]
    u.lemma('C07.count.pointwise-equivalent(induction)', count_equiv)

    def transposition(ctx):
        """a sum is unchanged by swapping two adjacent terms: prefix sums agree from i+2 on (induction), so any permutation (product of adjacent
        transpositions) leaves sums and counts unchanged"""
        f = z3.Function('f', I, R)
        S, Sp = z3.Function('S', I, R), z3.Function('Sp', I, R)
        i, k = z3.Ints('i k')
        fp = lambda j: z3.If(j == i, f(i + 1), z3.If(j == i + 1, f(i), f(j)))  # noqa: E731
        ctx.assume(z3.And(i >= 0, k >= i + 2))
        ctx.assume(z3.And(S(i + 1) == S(i) + f(i), S(i + 2) == S(i + 1) + f(i + 1), Sp(i + 1) == Sp(i) + fp(i), Sp(i + 2) == Sp(i + 1) + fp(i + 1), S(i) == Sp(i)))
        ctx.assume(z3.And(S(k + 1) == S(k) + f(k), Sp(k + 1) == Sp(k) + fp(k)))
        ctx.assume(S(k) == Sp(k))
        return [('base: after the swapped pair', S(i + 2) == Sp(i + 2)), ('step', S(k + 1) == Sp(k + 1))]
    u.lemma('C07.sum.adjacent-transposition(induction)', transposition)
    return u


def unit_stage_vcs(tier):
    """Relational VCs over the shape of the stage postconditions (C02 sandwich spec, C08 count spec)."""
    u = Unit('C07.stage_vcs')

    def sandwich(ctx, res, d, nS, Rr, T, N, tag):
        t, a, j = z3.Ints(f't{tag} a{tag} j{tag}')
        w = z3.Function(f'witness{tag}', I, I, I)
        rng = z3.And(t >= 0, t < T, a >= 0, a < N)
        ctx.assume(z3.ForAll([t, a], z3.Implies(rng, z3.And(res(t, a) >= -1, res(t, a) < nS)), patterns=[res(t, a)]))
        ctx.assume(z3.ForAll([t, a], z3.Implies(z3.And(rng, res(t, a) != -1), d(t, a, res(t, a)) <= Rr), patterns=[res(t, a)]),
                   tag='C02 postcondition: assigned => within the radius of that site')
        ctx.assume(z3.ForAll([t, a, j], z3.Implies(z3.And(rng, res(t, a) == -1, j >= 0, j < nS), d(t, a, j) >= Rr), patterns=[d(t, a, j)]),
                   tag='C02 postcondition: NOSITE => no site strictly within the radius')

    def nondegenerate(ctx, d, nS, Rr, T, N):
        t, a, j, j2 = z3.Ints('nt na nj nj2')
        ctx.assume(z3.ForAll([t, a, j], d(t, a, j) != Rr, patterns=[d(t, a, j)]), tag='requires: no atom exactly on a sphere boundary')
        ctx.assume(z3.ForAll([t, a, j, j2], z3.Implies(z3.And(j >= 0, j < nS, j2 >= 0, j2 < nS, d(t, a, j) < Rr, d(t, a, j2) < Rr), j == j2),
                             patterns=[z3.MultiPattern(d(t, a, j), d(t, a, j2))]), tag='requires: site spheres do not overlap')

    def same(ctx):
        T, N, nS = z3.Ints('T N nS')
        Rr = z3.Real('radius')
        d = z3.Function('dist', I, I, I, R)
        r1, r2 = z3.Function('states1', I, I, I), z3.Function('states2', I, I, I)
        ctx.assume(z3.And(T >= 1, N >= 1, nS >= 1, Rr > 0))
        nondegenerate(ctx, d, nS, Rr, T, N)
        sandwich(ctx, r1, d, nS, Rr, T, N, '1')
        sandwich(ctx, r2, d, nS, Rr, T, N, '2')  # second representation: the same distances (L-rot / L-trans)
        t0, a0 = z3.Ints('t0 a0')
        ctx.assume(z3.And(t0 >= 0, t0 < T, a0 >= 0, a0 < N))
        ctx.assume(z3.And(d(t0, a0, r1(t0, a0)) == d(t0, a0, r1(t0, a0)), d(t0, a0, r2(t0, a0)) == d(t0, a0, r2(t0, a0))))
        return [('equal distances => equal site states (rotation, translation through the faces)', r1(t0, a0) == r2(t0, a0))]
    u.lemma('C07.states.same-distances', same)

    def site_perm(ctx):
        T, N, nS = z3.Ints('T N nS')
        Rr = z3.Real('radius')
        d = z3.Function('dist', I, I, I, R)
        sg, tau = z3.Function('sigma', I, I), z3.Function('sigma_inverse', I, I)
        j = z3.Int('qj')
        ctx.assume(z3.ForAll([j], z3.Implies(z3.And(j >= 0, j < nS), z3.And(sg(j) >= 0, sg(j) < nS, tau(sg(j)) == j, tau(j) >= 0, tau(j) < nS, sg(tau(j)) == j)),
                             patterns=[sg(j)]), tag='sigma is a permutation of the sites')
        ctx.assume(z3.ForAll([j], z3.Implies(z3.And(j >= 0, j < nS), z3.And(tau(j) >= 0, tau(j) < nS, sg(tau(j)) == j)), patterns=[tau(j)]))
        d2 = lambda t, a, jj: d(t, a, sg(jj))  # noqa: E731   sites'[j] = sites[sigma(j)]
        r1, r2 = z3.Function('states1', I, I, I), z3.Function('states2', I, I, I)
        ctx.assume(z3.And(T >= 1, N >= 1, nS >= 1, Rr > 0))
        nondegenerate(ctx, d, nS, Rr, T, N)
        sandwich(ctx, r1, d, nS, Rr, T, N, '1')
        # second run with permuted sites
        t, a = z3.Ints('t2 a2')
        rng = z3.And(t >= 0, t < T, a >= 0, a < N)
        ctx.assume(z3.ForAll([t, a], z3.Implies(rng, z3.And(r2(t, a) >= -1, r2(t, a) < nS)), patterns=[r2(t, a)]))
        ctx.assume(z3.ForAll([t, a], z3.Implies(z3.And(rng, r2(t, a) != -1), d2(t, a, r2(t, a)) <= Rr), patterns=[r2(t, a)]))
        ctx.assume(z3.ForAll([t, a, j], z3.Implies(z3.And(rng, r2(t, a) == -1, j >= 0, j < nS), d2(t, a, j) >= Rr), patterns=[d(t, a, sg(j))]))
        t0, a0 = z3.Ints('t0 a0')
        ctx.assume(z3.And(t0 >= 0, t0 < T, a0 >= 0, a0 < N))
        s1, s2 = r1(t0, a0), r2(t0, a0)
        ctx.assume(z3.And(sg(tau(s1)) == sg(tau(s1)), d(t0, a0, sg(s2)) == d(t0, a0, sg(s2)), d(t0, a0, sg(tau(s1))) == d(t0, a0, sg(tau(s1)))))
        return [('permuted sites => states relabelled by the inverse permutation', z3.If(s1 == -1, s2 == -1, s2 == tau(s1)))]
    u.lemma('C07.states.site-permutation', site_perm)

    def atom_perm(ctx):
        T, N, nS = z3.Ints('T N nS')
        Rr = z3.Real('radius')
        d = z3.Function('dist', I, I, I, R)
        pi = z3.Function('pi', I, I)
        a = z3.Int('qa')
        ctx.assume(z3.ForAll([a], z3.Implies(z3.And(a >= 0, a < N), z3.And(pi(a) >= 0, pi(a) < N)), patterns=[pi(a)]))
        r1, r2 = z3.Function('states1', I, I, I), z3.Function('states2', I, I, I)
        ctx.assume(z3.And(T >= 1, N >= 1, nS >= 1, Rr > 0))
        nondegenerate(ctx, d, nS, Rr, T, N)
        sandwich(ctx, r1, d, nS, Rr, T, N, '1')
        d2 = lambda t, aa, j: d(t, pi(aa), j)  # noqa: E731   atoms'[a] = atoms[pi(a)]
        sandwich(ctx, r2, d2, nS, Rr, T, N, '2')
        t0, a0 = z3.Ints('t0 a0')
        ctx.assume(z3.And(t0 >= 0, t0 < T, a0 >= 0, a0 < N))
        s1, s2 = r1(t0, pi(a0)), r2(t0, a0)
        ctx.assume(z3.And(d2(t0, a0, s2) == d2(t0, a0, s2), d2(t0, a0, s1) == d2(t0, a0, s1), d(t0, pi(a0), s1) == d(t0, pi(a0), s1)))
        return [('permuted atoms => permuted state columns', s2 == s1)]
    u.lemma('C07.states.atom-permutation', atom_perm)

    def volume_roll(ctx):
        """C08 spec data[i] = Count(samples with bin = i) (one axis; the three axes are independent): shifted trajectory => rolled grid"""
        g, k, n = z3.Ints('g k n')
        binf, binp = z3.Function('bin', I, I), z3.Function('bin_shifted', I, I)
        s, i0 = z3.Ints('qs i0')
        ctx.assume(z3.And(g >= 1, k >= 0, k < g, n >= 0, i0 >= 0, i0 < g))
        roll = lambda b: z3.If(b + k >= g, b + k - g, b + k)  # noqa: E731
        ctx.assume(z3.ForAll([s], z3.And(binf(s) >= 0, binf(s) < g, binp(s) == roll(binf(s))), patterns=[binf(s)]), tag='lemma C07.L-floor.roll applied to every sample')
        sk = z3.Int('sample')
        return [('the predicates "bin\' = roll(i)" and "bin = i" agree on every sample (then C07.count.pointwise-equivalent gives equal counts)',
                 (binp(sk) == roll(i0)) == (binf(sk) == i0))]
    u.lemma('C07.volume.rolled', volume_roll)
    return u


def _stage(name, mods):
    units = []
    for mod, fns in mods:
        m = __import__(f'verif.props.{mod}', fromlist=['x'])
        for fn in fns:
            units.append(getattr(m, fn)('quick'))
    return merge_units(name, units)


def unit_stage_contracts_a(tier):
    """functional postconditions the corollary relies on: site states (C02)"""
    return _stage('C07.stage_contracts.states', [('c02', ['unit_states_single', 'unit_integer_remap'])])


def unit_stage_contracts_b(tier):
    """events, jumps, matrices as functions of the states (C03, C04.E1, C05)"""
    return _stage('C07.stage_contracts.events_jumps', [('c03', ['unit_events']), ('c04', ['unit_default']), ('c05', ['unit_matrix', 'unit_diffusivity'])])


def unit_stage_contracts_c(tier):
    """volumes, free energy, RDF and collective jumps as functions of wrapped positions, distances and counts (C08, C09, C11, C12)"""
    return _stage('C07.stage_contracts.grids_rdf_collective', [('c08', ['unit_volume']), ('c09', ['unit_free_energy']), ('c11', ['unit_between_species']), ('c12', ['unit_compute']),
                                                                ('c10', ['unit_percolate'])])


# ---------------------------------------------------------------------------------------------------------------

def _analyse(traj, sites, res=None):
    """Everything the property names, computed by the real pipeline."""
    import warnings
    import numpy as np
    warnings.filterwarnings('ignore')
    out = {}
    tr = traj.transitions_between_sites(sites, 'Li', site_radius=1.0)
    out['states'] = np.asarray(tr.states)
    ev = tr.events
    out['events'] = sorted(tuple(int(x) for x in r) for r in ev.to_numpy())
    try:
        jumps = tr.jumps()
        jd = jumps.data[['atom index', 'start site', 'destination site', 'start time', 'stop time']].to_numpy()
        out['jumps'] = sorted(tuple(int(x) for x in r) for r in jd)
        out['matrix'] = np.asarray(jumps.matrix())
        out['jump_diffusivity'] = float(jumps.jump_diffusivity(3))
        for md in (2.5, 4.5):
            coll = jumps.collective(max_dist=md)
            out[f'n_solo({md})'] = int(coll.n_solo_jumps)
            out[f'n_coll({md})'] = int(coll.n_coll_jumps)
            out[f'n_pairs({md})'] = len(coll.collective)
    except ValueError:
        out['jumps'] = []
    out['tmatrix'] = np.asarray(tr.matrix())
    # occupancy bookkeeping: per site, and aggregated per site label (label-keyed, so independent of the order of the sites)
    try:
        out['occupancy'] = np.array([float(s_.species.num_atoms) for s_ in tr.occupancy()])
        for nm_, d_ in (('occupancy_by_site_type', tr.occupancy_by_site_type()), ('atom_locations', tr.atom_locations())):
            out[nm_ + ' labels'] = sorted(d_)
            out[nm_] = np.array([float(d_[k_]) for k_ in sorted(d_)])
    except ValueError as e_:
        # a site that holds more than one atom-frame per frame on average cannot be written as a pymatgen occupancy (pymatgen rejects
        # occupancies above one): not part of this property - the occupancy outputs are left out for such a system, in every representation
        if 'occupancies sum to more than 1' not in str(e_):
            raise
        for k_ in [k_ for k_ in out if k_.startswith('occupancy') or k_.startswith('atom_locations')]:
            del out[k_]
    # per-label radii (labels are interleaved in the site list and get permuted with the sites)
    tr_lab = traj.transitions_between_sites(sites, 'Li', site_radius={'A': 1.0, 'B': 0.9, 'C': 1.1})
    out['states(per-label radii)'] = np.asarray(tr_lab.states)
    # the same pipeline with an inner-site fraction below one and a minimal residence (candidate jumps)
    tr_in = traj.transitions_between_sites(sites, 'Li', site_radius=1.0, site_inner_fraction=0.55)
    out['events(inner 0.55)'] = sorted(tuple(int(x) for x in r) for r in tr_in.events.to_numpy())
    for mres in (0, 2):
        try:
            jd = tr_in.jumps(minimal_residence=mres).data[['atom index', 'start site', 'destination site', 'start time', 'stop time']].to_numpy()
            out[f'jumps(inner 0.55, residence {mres})'] = sorted(tuple(int(x) for x in r) for r in jd)
        except ValueError:
            out[f'jumps(inner 0.55, residence {mres})'] = []
    from gemdat.rdf import radial_distribution_between_species
    r = radial_distribution_between_species(trajectory=traj, specie_1='Li', specie_2='O', max_dist=3.0, resolution=0.5)
    out['rdf'] = np.asarray(r.y)
    # per-state radial distributions: keyed by state names built from the site LABELS, so independent of the order of the sites
    rd = tr.radial_distribution(floating_specie='Li', max_dist=3.0, resolution=0.5)
    flat = {f'{k}|{x.label}': np.asarray(x.y) for k, c_ in rd.items() for x in c_ if not k.startswith('~>') and np.asarray(x.y).sum() > 0}
    out['rdf states'] = sorted(flat)
    out['rdf per state'] = np.array([flat[k] for k in sorted(flat)]) if flat else np.zeros((0, 1))
    m = traj.filter('Li').metrics()
    out['tracer'] = float(m.tracer_diffusivity(dimensions=3))
    out['msd'] = np.asarray(traj.filter('Li').mean_squared_displacement())
    return out, tr


def replay_metamorphic(inputs):
    import warnings
    import numpy as np
    from pymatgen.core import Structure
    from gemdat.trajectory import Trajectory
    from verif.native.synth import hopping_system, random_rotation
    warnings.filterwarnings('ignore')
    seed = inputs['seed']
    rng = np.random.default_rng(seed + 7)
    traj, sites, info = hopping_system(seed, n_frames=int(inputs.get('n_frames', 40)), n_diff=3, n_sites=4, n_frame_atoms=2, frame_symbols=('O', 'O'), hop_prob=0.4,
                                       labels=['A', 'B', 'A', 'C'], family=inputs.get('family'))
    lat = info['lattice']
    pos = np.asarray(traj.positions)
    sp = np.asarray(sites.frac_coords)
    # non-degeneracy: skip systems with an atom within 1e-6 of a sphere boundary or of the half-cell minimum-image boundary
    li = [k for k, s in enumerate(traj.species) if s.symbol == 'Li']
    d = np.stack([lat.get_all_distances(pos[t][li], sp) for t in range(len(traj))])
    if np.abs(d - 1.0).min() < 1e-6 or (np.sort(d, axis=-1)[..., 0] < 1.0).sum() != ((d < 1.0).sum()):
        return {'reproduced': False, 'detail': 'degenerate system skipped', 'skipped': True}
    species = list(traj.species)

    def tree_loses_a_pair(frac_atoms, frac_sites):
        # known finding C02-kdtree-degenerate-cell: the periodic KD-tree, asked directly, loses a pair that lies strictly inside a search radius used
        # below (1.0 / 0.55 with cut-off 1.0; per-label 0.9 .. 1.1 with cut-off 1.1).  Such a system is an instance of the recorded finding in one
        # representation and not in another; it is left out, like the degenerate systems above.
        from verif.props.c02 import kdtree_direct_pairs
        flat = np.asarray(frac_atoms).reshape(-1, 3)
        dd = lat.get_all_distances(np.asarray(frac_sites), flat)
        for R_, cut_ in ((1.0, 1.0), (0.55, 1.0), (0.9, 1.1), (1.1, 1.1)):
            pairs_ = kdtree_direct_pairs(lat.matrix, flat, frac_sites, R_, cut_)
            for k_, j_ in np.argwhere(dd < R_ - 1e-4):
                if (int(k_), int(j_)) not in pairs_:
                    return True
        return False
    if tree_loses_a_pair(pos[:, li], sp):
        return {'reproduced': False, 'detail': 'system skipped: instance of the known finding C02-kdtree-degenerate-cell (the periodic KD-tree itself loses a pair)', 'skipped': True}
    base, tr0 = _analyse(traj, sites)
    bad = []

    def mk(coords, matrix, spc=species):
        return Trajectory(species=spc, coords=coords, lattice=matrix, time_step=traj.time_step, metadata=dict(traj.metadata))

    def same(a, b, what, tol=1e-7):
        if isinstance(a, np.ndarray) or isinstance(b, np.ndarray):
            a, b = np.asarray(a), np.asarray(b)
            if a.shape != b.shape or not np.allclose(a, b, rtol=tol, atol=tol * max(1.0, float(np.abs(a).max()) if a.size else 1.0)):
                bad.append(what)
        elif isinstance(a, float):
            if not np.isclose(a, b, rtol=tol, atol=0):
                bad.append(f'{what}: {a} vs {b}')
        elif a != b:
            bad.append(f'{what}: {str(a)[:80]} vs {str(b)[:80]}')

    def compare(o, label, keys=None):
        for k in (keys or base):
            if k in base and k in o:
                same(base[k], o[k], f'{label}: {k} changed')
            elif (k in base) != (k in o):
                bad.append(f'{label}: {k} present in only one representation')
    # (a) rigid rotation of the lattice vectors, same fractional coordinates
    Rm = random_rotation(rng)
    o, _ = _analyse(mk(pos, lat.matrix @ Rm), Structure(lat.matrix @ Rm, [s.specie for s in sites], sp, labels=[s.label for s in sites]))
    compare(o, 'rotation')
    # (b) translation of everything by a fractional vector, wrapping through the faces
    uvec = rng.random(3) * 3 - 1
    if tree_loses_a_pair(np.mod(pos[:, li] + uvec, 1), np.mod(sp + uvec, 1)):
        return {'reproduced': False, 'detail': 'system skipped: the translated representation is an instance of the known finding C02-kdtree-degenerate-cell', 'skipped': True}
    o, _ = _analyse(mk(np.mod(pos + uvec, 1), lat.matrix), Structure(lat, [s.specie for s in sites], np.mod(sp + uvec, 1), labels=[s.label for s in sites]))
    compare(o, f'translation by {np.round(uvec, 3).tolist()}')
    # (c) permutation of the atoms (diffusing atoms among themselves, so that atom indices of the filtered trajectory are relabelled)
    perm = np.arange(len(species))
    perm[li] = rng.permutation(li)
    o, _ = _analyse(mk(pos[:, perm], lat.matrix, [species[k] for k in perm]), sites)
    inv = {int(np.where(np.array(li) == perm[li][k])[0][0]): k for k in range(len(li))}  # old filtered index -> new filtered index
    same(base['states'][:, [int(np.where(np.array(li) == perm[li][k])[0][0]) for k in range(len(li))]], o['states'], 'atom permutation: states are not the permuted columns')
    rel = lambda rows: sorted((inv[r[0]],) + tuple(r[1:]) for r in rows)  # noqa: E731
    for key in [k_ for k_ in base if k_.startswith('events') or k_.startswith('jumps')]:
        same(rel(base[key]), o.get(key), f'atom permutation: {key} are not the relabelled rows')
    same(base['states(per-label radii)'][:, [int(np.where(np.array(li) == perm[li][k])[0][0]) for k in range(len(li))]], o['states(per-label radii)'],
         'atom permutation: states (per-label radii) are not the permuted columns')
    compare(o, 'atom permutation', keys=['matrix', 'tmatrix', 'jump_diffusivity', 'rdf', 'tracer', 'occupancy', 'rdf states', 'rdf per state'] + [k for k in base if k.startswith('n_') or k.startswith('occupancy_by') or k.startswith('atom_loc')])
    # (d) permutation of the sites
    sg = rng.permutation(len(sp))  # sites'[j] = sites[sg[j]]
    tau = np.argsort(sg)
    o, _ = _analyse(traj, Structure(lat, [sites[int(k)].specie for k in sg], sp[sg], labels=[sites[int(k)].label for k in sg]))
    exp_states = np.where(base['states'] == -1, -1, tau[np.clip(base['states'], 0, None)])
    same(exp_states, o['states'], 'site permutation: states are not relabelled by the inverse permutation')
    bl = base['states(per-label radii)']
    same(np.where(bl == -1, -1, tau[np.clip(bl, 0, None)]), o['states(per-label radii)'], 'site permutation: states (per-label radii) are not relabelled by the inverse permutation')
    rs = lambda x: -1 if x == -1 else int(tau[x])  # noqa: E731
    for key in [k_ for k_ in base if k_.startswith('events')]:
        same(sorted((r[0], rs(r[1]), rs(r[2]), rs(r[3]), rs(r[4]), r[5]) for r in base[key]), o.get(key), f'site permutation: {key} are not the relabelled events')
    for key in [k_ for k_ in base if k_.startswith('jumps')]:
        same(sorted((r[0], rs(r[1]), rs(r[2]), r[3], r[4]) for r in base[key]), o.get(key), f'site permutation: {key} are not the relabelled jumps')
    if 'matrix' in base and 'matrix' in o:
        same(base['matrix'][np.ix_(sg, sg)], o['matrix'], 'site permutation: jump matrix is not the permuted matrix')
    if 'occupancy' in base and 'occupancy' in o:
        same(base['occupancy'][sg], o['occupancy'], 'site permutation: site occupancies are not the permuted occupancies')
    elif ('occupancy' in base) != ('occupancy' in o):
        bad.append('site permutation: site occupancies can be computed in only one of the two orderings')
    # transition matrix: outside the row / column of the last site of either ordering (into which Transitions.matrix folds the no-site events -
    # known finding C05-nosite-fold)
    keep_ = [j_ for j_ in range(len(sg)) if j_ != len(sg) - 1 and sg[j_] != len(sg) - 1]
    same(base['tmatrix'][np.ix_(sg[keep_], sg[keep_])], o['tmatrix'][np.ix_(keep_, keep_)], 'site permutation: transition matrix is not the permuted matrix')
    compare(o, 'site permutation', keys=['jump_diffusivity', 'rdf', 'tracer', 'rdf states', 'rdf per state'] + [k for k in base if k.startswith('n_') or k.startswith('occupancy_by') or k.startswith('atom_loc')])
    # (e) grids: a shift by whole voxels rolls the density volume and the free energy; optimal path costs are unchanged
    vol = traj.filter('Li').to_volume(resolution=float(inputs.get('resolution', 0.9)))
    dims = np.array(vol.data.shape)
    kv = rng.integers(0, dims)
    shift = kv / dims
    liT = traj.filter('Li')
    vol2 = mk(np.mod(np.asarray(liT.positions) + shift, 1), lat.matrix, list(liT.species)).to_volume(resolution=float(inputs.get('resolution', 0.9)))
    # samples within 1e-9 of a voxel face may fall on either side after the shift: compare only if there are none
    y = np.asarray(liT.positions) * dims
    if np.abs(y - np.round(y)).min() > 1e-9:
        same(np.roll(np.asarray(vol.data), tuple(int(x) for x in kv), axis=(0, 1, 2)), np.asarray(vol2.data), f'density volume is not rolled by the voxel shift {kv.tolist()}', tol=0)
        try:
            from gemdat.path import free_energy_graph, optimal_path
            F1 = vol.get_free_energy(temperature=600.0)
            F2 = vol2.get_free_energy(temperature=600.0)
            same(np.roll(np.asarray(F1.data), tuple(int(x) for x in kv), axis=(0, 1, 2)), np.asarray(F2.data), 'free energy grid is not rolled by the voxel shift', tol=1e-9)
            visited = np.argwhere(np.asarray(vol.data) > 0)
            if len(visited) >= 2:
                G1 = free_energy_graph(F1, max_energy_threshold=1e7, diagonal=True)
                G2 = free_energy_graph(F2, max_energy_threshold=1e7, diagonal=True)
                a, b = tuple(int(x) for x in visited[0]), tuple(int(x) for x in visited[-1])
                a2, b2 = tuple(int(x) for x in (np.array(a) + kv) % dims), tuple(int(x) for x in (np.array(b) + kv) % dims)
                import networkx as nx

                def cost(G, s_, e_):
                    try:
                        return float(optimal_path(G, start=s_, stop=e_, method='dijkstra').total_energy)
                    except nx.NetworkXNoPath:
                        return 'no path'
                c1, c2 = cost(G1, a, b), cost(G2, a2, b2)
                if isinstance(c1, str) or isinstance(c2, str):
                    if c1 != c2:
                        bad.append(f'optimal path exists in only one representation ({c1} vs {c2})')
                else:
                    same(c1, c2, 'optimal path cost changed under the voxel shift', tol=1e-9)
                # percolating path over the visited voxels as peaks: the shift reorders the peaks (scan order), the optimal cost must not change
                from gemdat.path import optimal_percolating_path
                pk1 = visited[:8]
                pk2 = np.array(sorted(tuple(int(x) for x in (p_ + kv) % dims) for p_ in pk1))
                for direction in ('x', 'yz'):
                    pp1 = optimal_percolating_path(F1, peaks=pk1, percolate=direction)
                    pp2 = optimal_percolating_path(F2, peaks=pk2, percolate=direction)
                    if (pp1 is None) != (pp2 is None):
                        bad.append(f'a percolating path along {direction} exists in only one of the two shifted representations')
                    elif pp1 is not None:
                        same(float(pp1.total_energy), float(pp2.total_energy), f'optimal percolating path cost along {direction} changed under the voxel shift', tol=1e-9)
        except ImportError:
            pass
    # (f) the same with samples exactly on voxel faces and on the cell faces: a dyadic grid (8 voxels per axis, coordinates k/16, shifts j/8) makes
    #     every coordinate, edge and shift exact in binary floating point, so the roll must hold exactly
    from pymatgen.core import Element
    cub = np.eye(3) * 8.0
    xs = rng.integers(0, 16, size=(6, 3, 3)) / 16.0
    xs[0, 0] = [0.0, 0.125, 0.875]
    xs[1, 0] = [0.5, 0.0, 0.0]
    tq = Trajectory(species=[Element('Li')] * 3, coords=xs, lattice=cub, time_step=1e-15, metadata={'temperature': 600.0})
    v1 = np.asarray(tq.to_volume(resolution=1.0).data)
    if v1.shape == (8, 8, 8):
        kq = rng.integers(0, 8, size=3)
        tq2 = Trajectory(species=[Element('Li')] * 3, coords=np.mod(xs + kq / 8.0, 1), lattice=cub, time_step=1e-15, metadata={'temperature': 600.0})
        v2 = np.asarray(tq2.to_volume(resolution=1.0).data)
        if not np.array_equal(np.roll(v1, tuple(int(x) for x in kq), axis=(0, 1, 2)), v2):
            bad.append(f'density volume with samples exactly on voxel / cell faces is not rolled by the voxel shift {kq.tolist()}')
        if v1.sum() != xs.shape[0] * xs.shape[1]:
            bad.append('density volume with face samples does not count every sample once')
    else:
        bad.append(f'8 A cubic cell at resolution 1 A gives grid {v1.shape}, expected (8, 8, 8)')
    # (g) state / inner-state histories fed directly to the event and jump builders: permuting the atoms (columns) relabels the jumps for every
    #     minimal residence (a pending candidate or departure must not leak from one atom to the next)
    from gemdat.jumps import _generic_transitions_to_jumps
    from gemdat.transitions import _calculate_transition_events
    for h in range(25):
        Th, Nh, Sh = 30, 3, 3
        stt = np.empty((Th, Nh), dtype=int)
        cur = rng.integers(-1, Sh, size=Nh)
        lo_ = rng.integers(0, Th - 6, size=Nh)  # every atom is active (changes state) only inside its own time window
        hi_ = lo_ + rng.integers(4, 14, size=Nh)
        for t in range(Th):
            act = (t >= lo_) & (t < hi_)
            cur = np.where(act & (rng.random(Nh) < 0.5), rng.integers(-1, Sh, size=Nh), cur)
            stt[t] = cur
        # inner-site state per visit: never reached / reached on arrival / reached after a while (a visit that ends the atom's activity in the
        # outer shell leaves a pending candidate jump)
        inn = np.full_like(stt, -1)
        for a_ in range(Nh):
            t = 0
            while t < Th:
                u_ = t
                while u_ < Th and stt[u_, a_] == stt[t, a_]:
                    u_ += 1
                if stt[t, a_] != -1:
                    r_ = rng.random()
                    if r_ < 0.3:
                        inn[t:u_, a_] = stt[t, a_]
                    elif r_ < 0.6:
                        inn[t + int(rng.integers(0, max(1, u_ - t))):u_, a_] = stt[t, a_]
                t = u_
        pm = rng.permutation(Nh)

        def jumps_of(s_, i_, m_):
            class _T:
                events = _calculate_transition_events(atom_sites=s_, atom_inner_sites=i_)
            try:
                df = _generic_transitions_to_jumps(_T, minimal_residence=m_)
            except ValueError:
                return []
            return sorted(tuple(int(x) for x in r) for r in df[['atom index', 'start site', 'destination site', 'start time', 'stop time']].to_numpy())
        if not (stt[:-1] != stt[1:]).any():
            continue
        for m_ in (0, 1, 3):
            j0 = jumps_of(stt, inn, m_)
            j1 = jumps_of(stt[:, pm], inn[:, pm], m_)
            back = sorted((int(pm[r[0]]),) + tuple(r[1:]) for r in j1)
            if back != j0:
                bad.append(f'jumps (residence {m_}) of the atom-permuted histories are not the relabelled jumps: states={stt.T.tolist()} inner={inn.T.tolist()} perm={pm.tolist()}')
                break
    # (h) occupancy bookkeeping of histories in which no atom is ever between sites (no NOSITE entry), under every rotation of the site list
    from verif.native.synth import make_transitions
    S_ = 4
    labs_ = ['A', 'B', 'A', 'C']
    hst = np.zeros((20, 2), dtype=int)
    cur_ = [0, 2]
    for t_ in range(20):
        for a_ in range(2):
            if rng.random() < 0.3:
                new_ = int(rng.integers(0, S_))
                if new_ != cur_[1 - a_]:
                    cur_[a_] = new_
            hst[t_, a_] = cur_[a_]
    for shift_ in range(S_):
        sg_ = [(j_ + shift_) % S_ for j_ in range(S_)]  # sites'[j] = sites[sg[j]]
        tau_ = np.argsort(sg_)
        trp = make_transitions(tau_[hst], n_sites=S_, labels=[labs_[k_] for k_ in sg_])
        occ_ = [float(x_.species.num_atoms) for x_ in trp.occupancy()]
        exp_occ = [float((hst == sg_[j_]).sum()) / len(hst) for j_ in range(S_)]
        if not np.allclose(occ_, exp_occ, atol=1e-12):
            bad.append(f'history without NOSITE entries, sites listed from site {shift_} on: occupancies {occ_}, atom-frame counts give {exp_occ}')
        al_ = trp.atom_locations()
        for lab_ in set(labs_):
            e_ = sum(float((hst == k_).sum()) for k_ in range(S_) if labs_[k_] == lab_) / len(hst) / hst.shape[1]
            if abs(al_.get(lab_, 0.0) - e_) > 1e-12:
                bad.append(f'history without NOSITE entries, sites listed from site {shift_} on: atom_locations[{lab_}] = {al_.get(lab_)}, expected {e_}')
    return {'reproduced': bool(bad), 'detail': f'seed={seed} lattice={np.round(lat.parameters, 2).tolist()}: ' + '; '.join(bad[:4])}


def bounded_metamorphic(tier, seed):
    import numpy as np
    n = 10 if tier == 'quick' else 400
    st = Stand('C07.metamorphic', f'{n} synthetic hopping systems (3 Li + 2 O atoms, 4 labelled sites, 40 frames, all lattice families incl. triclinic) each analysed in the original and four '
               'transformed representations (random proper rotation, random fractional translation in [-1,2)^3 wrapped through the faces, random permutation of the diffusing atoms, '
               'random permutation of the sites) plus a whole-voxel shift for the grids', 'seeded random; results compared with relative tolerance 1e-7 (exact for integer-valued results); degenerate systems skipped')
    rng = np.random.default_rng(seed + 707)
    fams = [None, 'cubic', 'hexagonal', 'triclinic', 'monoclinic', 'orthorhombic']
    c = 0
    tries = 0
    while c < n and tries < 4 * n:
        tries += 1
        inp = {'seed': int(rng.integers(1, 10 ** 6)), 'family': fams[tries % len(fams)]}
        r = st.guard(replay_metamorphic, inp)
        if r is None:
            c += 1
            continue
        if r.get('skipped'):
            continue
        c += 1
        st.case(inp, nontrivial=True, sample=inp)
        if r['reproduced']:
            st.violation('metamorphic', r['detail'], 'verif.props.c07:replay_metamorphic', inp)
    return st.result()


# generic purity stand-in (arguments unchanged, second call equal, fresh call equal) over this property's API calls
from verif.native.purity import make_bounded as _make_purity  # noqa: E402
from verif.props.purity_reg import REG as _PURITY_REG  # noqa: E402
PURITY = _PURITY_REG['C07']
bounded_purity = _make_purity('C07', PURITY)


def unit_stage_contracts_d(tier):
    """Order-independence of the label bookkeeping rests on the contracts of Transitions.occupancy (C05: site i gets Count(states == i)/frames,
    whatever the other sites are) and of _uniqify_labels (C11: a site's code depends on its label only): re-discharged here."""
    from verif.props import c05, c11
    from verif.props.common import merge_units
    return merge_units('C07.stage_contracts_d', [c05.unit_occupancy(tier), c11.unit_uniqify(tier)])


# plumbing around the anchored functions: forwarding contracts of the public wrappers, no state shared between calls or objects
from verif.props import plumbing as _plumbing  # noqa: E402


def unit_plumbing(tier):
    return _plumbing.unit_plumbing(PROPERTY)


bounded_plumbing = _plumbing.make_bounded(PROPERTY)

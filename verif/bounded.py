"""Bounded stand-ins: concrete evaluation of a contract clause on the REAL function over a stated, bounded input family.
Never counted as proved; reported under coverage.bounded[]."""
from __future__ import annotations

import hashlib
import json
import time
import traceback


class Stand:
    def __init__(self, name, bound, rule, exhaustive=False):
        self.name, self.bound, self.rule, self.exhaustive = name, bound, rule, exhaustive
        self.evaluations = 0
        self.keys = set()
        self.violations = []
        self.errors = []
        self.sample = None
        self.t0 = time.time()

    def case(self, key, nontrivial=True, sample=None):
        self.evaluations += 1
        if nontrivial:
            self.keys.add(hashlib.sha1(json.dumps(key, sort_keys=True, default=str).encode()).hexdigest())
        if self.sample is None and sample is not None and nontrivial:
            self.sample = sample

    def violation(self, tag, detail, replay_fn=None, inputs=None):
        if len(self.violations) < 5:
            self.violations.append({'tag': tag, 'detail': detail, 'replay_fn': replay_fn, 'inputs': inputs})

    def guard(self, fn, *a, **k):
        """Run harness code; a harness exception is a checker error, not a violation."""
        try:
            return fn(*a, **k)
        except Exception as e:
            tb = traceback.extract_tb(e.__traceback__)
            # innermost frame that belongs either to the code under test or to the harness (frames of numpy / pandas / pymatgen below it are
            # library code called by one of the two): an exception that surfaces from the code under test is a violation, one from the harness
            # itself a checker error
            own = [fr for fr in tb if '/src/gemdat/' in fr.filename or '/verif/verif/' in fr.filename]
            inner = own[-1].filename if own else (tb[-1].filename if tb else '')
            if own:
                tb = tb[:tb.index(own[-1]) + 1]
            if '/src/gemdat/' in inner:
                # the exception was raised by the code under test on an input of the stated family: a violation, with replay
                inp = a[0] if a and isinstance(a[0], dict) else None
                self.evaluations += 1
                self.violation('exception', f'{type(e).__name__}: {e} raised in {inner.split("/src/")[-1]}:{tb[-1].lineno}',
                               f'{fn.__module__}:{fn.__name__}', inp)
                return None
            self.errors.append(traceback.format_exc()[-1500:])
            return None

    def result(self):
        return {'kind': 'bounded', 'name': self.name, 'bound': self.bound, 'rule': self.rule,
                'evaluations': self.evaluations, 'distinct_nontrivial': len(self.keys), 'exhaustive': self.exhaustive,
                'violations': self.violations, 'errors': self.errors, 'sample': self.sample}

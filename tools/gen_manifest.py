#!/usr/bin/env python3
"""Regenerate MANIFEST.json from the property modules present under verif/props (ast-parsed META dicts)."""
import ast
import json
import os

ROOT = os.path.dirname(os.path.dirname(os.path.abspath(__file__)))
props = [json.loads(l) for l in open(os.path.join(ROOT, 'properties.jsonl'))]
NA_REASONS = json.load(open(os.path.join(ROOT, 'tools', 'not_applicable.json'))) if os.path.exists(os.path.join(ROOT, 'tools', 'not_applicable.json')) else {}


def meta_of(pid):
    p = os.path.join(ROOT, 'verif', 'props', pid.lower() + '.py')
    if not os.path.exists(p):
        return None
    tree = ast.parse(open(p).read())
    for n in tree.body:
        if isinstance(n, ast.Assign) and n.targets[0].id == 'MANIFEST':
            return ast.literal_eval(n.value)
    return None


checks, na, served = [], [], []
for p in props:
    pid = p['id']
    m = meta_of(pid)
    if m is None:
        na.append({'property_id': pid, 'reason': NA_REASONS.get(pid, 'check not built yet in this round (planned, see DESIGN.md section 5)')})
        continue
    served.append(pid)
    checks.append({
        'property_id': pid,
        'quick_cmd': f'./check {pid} --tier quick',
        'thorough_cmd': f'./check {pid} --tier thorough',
        'evidence_file': f'evidence/{pid}.json',
        'replay_cmd_template': './check --replay {path}',
        'engine': 'pyvc',
        'level_claimed': {'category': 'proof', 'text': m['level_text'], 'design_ref': m.get('design_ref', f'DESIGN.md section 5 {pid}')},
        'level_note': m['level_note'] + (' Bounded on top of the units (never counted as proved): the stand-ins named in the evidence file, among them the generic '
                                         'purity stand-in (caller\'s objects unchanged, second identical call equal, call on rebuilt inputs equal) over this property\'s API calls.'
                                         if pid not in ('C01', 'C15', 'C16') else '')
                      + ' Plumbing (verif/props/plumbing.py): AST-level forwarding contracts of the public wrappers this property is reached through and shared-state frame conditions '
                        '(no mutable defaults / class-level containers / module-level containers updated in place) are decided on the real source on every run; wrapper-vs-direct-call '
                        'equivalences and the order test of two independent objects are bounded stand-ins.',
        'technique': m.get('technique', 'contract-based deductive verification: VCs generated from the real AST, discharged by z3/cvc5; native replay of counter-models; bounded stand-ins labelled'),
    })
man = {
    'version': 1,
    'setup_cmd': 'bash ./setup.sh',
    'hooks': {'guard': 'GEMDAT_VERIF',
              'enable': 'not used - contracts are sidecars under /verif/verif/props, the verified text is extracted from /repo/src on every run; no instrumentation exists in /repo',
              'baseline_off_cmd': 'cd /repo && /venv/bin/python -m pytest -ra -q -p no:cacheprovider --timeout=900 --continue-on-collection-errors --junitxml=/verif/out/baseline.xml',
              'source_commits': [], 'add_only': True},
    'engines': [{'name': 'pyvc', 'path': 'verif/engine', 'serves_properties': served,
                 'kind_free_text': 'AST->VC symbolic executor over the real GEMDAT sources with sidecar contracts; z3 5.1 (API) with cvc5 1.0.3 / z3 4.8.12 CLI fallback; finite-scope grounding + native replay for counter-models; bounded stand-ins (concrete contract evaluation on the real function) labelled as such and never counted as proved'}],
    'checks': checks,
    'notes': 'See DESIGN.md (section 10 = as built: status, fixes, known findings, what catches what).  Exit codes: 0 held, 1 VIOLATION, 2 undecided (never reported as violation), 3 checker error.  Known findings: known_findings.json.  Seeded property-breaking changes used to test the checks: seeded/.',
    'not_applicable': na,
}
json.dump(man, open(os.path.join(ROOT, 'MANIFEST.json'), 'w'), indent=1)
print('claimed', served, 'not applicable', [x['property_id'] for x in na])

#!/bin/bash
# Re-evaluates every kept seeded change on a scratch worktree: the check of its property must exit 1 with a VIOLATION line.
# usage: tools/seed_sweep.sh [filter] [jobs]   -> out/seed_sweep.log   (jobs: seeds evaluated at the same time, default 4; never two of one property)
cd "$(dirname "$0")/.."
mkdir -p out
: > out/seed_sweep.log
one() {
  d=$1; s=$(basename "$d"); prop=${s%%-*}
  WT=$(mktemp -d /tmp/sweep_XXXX); rmdir "$WT"
  git -C /repo worktree add --detach "$WT" HEAD -q || return
  if git -C "$WT" apply "$PWD/$d/patch.diff" 2>/dev/null; then
    VERIF_REPO=$WT VERIF_EVIDENCE_DIR=out/scratch_evidence timeout 1500 ./check "$prop" > "$WT.log" 2>&1; rc=$?
    nv=$(grep -c "^VIOLATION" "$WT.log")
    echo "$s exit=$rc violations_lines=$nv $(grep -E "^$prop tier" "$WT.log" | cut -c1-150)" >> out/seed_sweep.log
  else
    echo "$s PATCH-DOES-NOT-APPLY" >> out/seed_sweep.log
  fi
  rm -f "$WT.log"
  git -C /repo worktree remove --force "$WT"
}
export -f one
# one lane per seed number, so that the seeds of one property never run at the same time (they share replay/ and scratch evidence files)
for n in $(ls -d seeded/*${1:-}*/ | sed 's#.*-\([0-9]*\)/#\1#' | sort -un); do
  ls -d seeded/*${1:-}*-$n/ | xargs -P "${2:-4}" -I{} bash -c 'one {}'
done
echo "done" >> out/seed_sweep.log

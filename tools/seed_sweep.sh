#!/bin/bash
# Re-evaluates every kept seeded change on a scratch worktree: the check of its property must exit 1 with a VIOLATION line.
# usage: tools/seed_sweep.sh [filter]   -> out/seed_sweep.log
cd "$(dirname "$0")/.."
: > out/seed_sweep.log
for d in seeded/*${1:-}*/; do
  s=$(basename "$d"); prop=${s%%-*}
  WT=$(mktemp -d /tmp/sweep_XXXX); rmdir "$WT"
  git -C /repo worktree add --detach "$WT" HEAD -q || continue
  if git -C "$WT" apply "$PWD/$d/patch.diff" 2>/dev/null; then
    VERIF_REPO=$WT VERIF_EVIDENCE_DIR=out/scratch_evidence timeout 1500 ./check "$prop" > /tmp/_sweep.log 2>&1; rc=$?
    nv=$(grep -c "^VIOLATION" /tmp/_sweep.log)
    echo "$s exit=$rc violations_lines=$nv $(grep -E "^$prop tier" /tmp/_sweep.log | cut -c1-150)" >> out/seed_sweep.log
  else
    echo "$s PATCH-DOES-NOT-APPLY" >> out/seed_sweep.log
  fi
  git -C /repo worktree remove --force "$WT"
done
echo "done" >> out/seed_sweep.log

#!/usr/bin/env python3
"""Kill suite driver: apply deliberate breakages to a scratch copy of /repo/src and run a check against it.

usage: tools/kill.py <property> [name-filter]
Mutants are listed in tools/mutants.json: {property: [{name, file, old, new, expect}]}; expect in {violation, clean}
(clean = semantics-preserving refactoring that must keep exit 0).  The scratch copy lives under $TMPDIR and is removed.
"""
import json
import os
import shutil
import subprocess
import sys
import tempfile

ROOT = os.path.dirname(os.path.dirname(os.path.abspath(__file__)))


def main():
    prop = sys.argv[1]
    flt = sys.argv[2] if len(sys.argv) > 2 else ''
    muts = json.load(open(os.path.join(ROOT, 'tools', 'mutants.json'))).get(prop, [])
    ok = True
    for m in muts:
        if flt and flt not in m['name']:
            continue
        d = tempfile.mkdtemp(prefix='verif_kill_')
        try:
            shutil.copytree('/repo/src', os.path.join(d, 'src'))
            p = os.path.join(d, 'src', 'gemdat', m['file'])
            s = open(p).read()
            if s.count(m['old']) != 1:
                print(f"[{m['name']}] SKIP: pattern occurs {s.count(m['old'])} times")
                ok = False
                continue
            open(p, 'w').write(s.replace(m['old'], m['new']))
            env = dict(os.environ, VERIF_REPO=d, VERIF_EVIDENCE_DIR='out/scratch_evidence')
            r = subprocess.run([os.path.join(ROOT, 'check'), prop] + sys.argv[3:], capture_output=True, text=True, env=env)
            viol = [l for l in r.stdout.splitlines() if l.startswith('VIOLATION')]
            summ = [l for l in r.stdout.splitlines() if l.startswith(prop)]
            exp = m.get('expect', 'violation')
            good = (exp == 'violation' and r.returncode == 1 and viol) or (exp == 'clean' and r.returncode == 0) or (exp == 'undecided-ok' and r.returncode in (0, 2) and not viol)
            ok &= bool(good)
            print(f"[{m['name']}] expect={exp} exit={r.returncode} {'OK' if good else 'MISSED/WRONG'}  {summ[-1] if summ else ''}")
            for v in viol[:3]:
                print('    ', v)
            if not good:
                print(r.stderr[-1500:])
        finally:
            shutil.rmtree(d, ignore_errors=True)
    return 0 if ok else 1


if __name__ == '__main__':
    sys.exit(main())

#!/usr/bin/env python3
"""Regenerates the generated tables of DESIGN.md section 10 (between the GENERATED markers) from
evidence/*.json (per-property status), out/kill_all.log (last complete kill-suite run) and seeded/*/meta.json."""
import glob
import json
import os
import re

ROOT = os.path.dirname(os.path.dirname(os.path.abspath(__file__)))


def status_table():
    rows = ['| id | obligations (all discharged) | functions under contract | bounded stand-ins (evaluations) | known findings shown | quick wall |', '|---|---|---|---|---|---|']
    for f in sorted(glob.glob(os.path.join(ROOT, 'evidence', 'C*.json'))):
        d = json.load(open(f))
        c = d.get('coverage', {})
        fns = c.get('functions_under_contract', [])
        names = sorted({(x.get('function') if isinstance(x, dict) else str(x)).replace('gemdat.', '') for x in fns})
        b = c.get('bounded', [])
        bs = '; '.join(f"{x.get('name')} ({x.get('evaluations')})" for x in b) if isinstance(b, list) else ''
        kf = ', '.join((x.get('id') if isinstance(x, dict) else str(x)) for x in (c.get('known_findings_seen') or [])) or '-'
        rows.append(f"| {d.get('property_id')} | {c.get('obligations')} / {c.get('discharged')} | {len(names)}: {', '.join(names)[:260]} | {bs[:200]} | {kf} | {d.get('wall_s', '?')} s |")
    return '\n'.join(rows)


def kill_table():
    p = os.path.join(ROOT, 'out', 'kill_all.log')
    if not os.path.exists(p):
        return '(kill suite log not present: run the loop in tools/README)'
    muts = json.load(open(os.path.join(ROOT, 'tools', 'mutants.json')))
    rows = ['| property | change (tools/mutants.json) | expected | exit | failed obligations (deductive) | undecided | violations reported | caught by |', '|---|---|---|---|---|---|---|---|']
    prop = None
    for line in open(p):
        m = re.match(r'#### (C\d+)', line)
        if m:
            prop = m.group(1)
            continue
        m = re.match(r'\[(.+?)\] expect=(\S+) exit=(\d+) (OK|MISSED/WRONG)\s+(.*)', line)
        if not m:
            continue
        name, exp, ex, ok, rest = m.groups()
        g = lambda k: (re.search(k + r'=(\d+)', rest) or [None, '?'])[1]  # noqa: E731
        failed, und, viol = g('failed'), g('undecided'), g('violations')
        by = []
        if failed not in ('?', '0'):
            by.append('deductive obligation(s)')
        if viol != '?' and failed != '?' and int(viol) > int(failed):
            by.append('bounded stand-in')
        if exp == 'clean':
            by = ['(must stay quiet)']
        if exp == 'undecided-ok':
            by = ['(behaviour-preserving; undecided allowed, no violation)']
        rows.append(f"| {prop} | {name} | {exp} | {ex} | {failed} | {und} | {viol} | {' + '.join(by) or 'NOT CAUGHT'}{'' if ok == 'OK' else ' **' + ok + '**'} |")
    return '\n'.join(rows)


def seed_table():
    rows = ['| seeded change | needs, to manifest | detected by |', '|---|---|---|']
    for f in sorted(glob.glob(os.path.join(ROOT, 'seeded', '*', 'meta.json'))):
        d = json.load(open(f))
        rows.append(f"| {os.path.basename(os.path.dirname(f))} | {d.get('needs_to_manifest', '')} | {d.get('detected_by', '')} |")
    return '\n'.join(rows)


def main():
    p = os.path.join(ROOT, 'DESIGN.md')
    s = open(p).read()
    for key, fn in (('STATUS', status_table), ('KILL', kill_table), ('SEEDS', seed_table)):
        a, b = f'<!-- BEGIN GENERATED {key} -->', f'<!-- END GENERATED {key} -->'
        if a in s and b in s:
            i, j = s.index(a) + len(a), s.index(b)
            s = s[:i] + '\n' + fn() + '\n' + s[j:]
    open(p, 'w').write(s)
    print('DESIGN.md tables regenerated')


if __name__ == '__main__':
    main()

#!/usr/bin/env python3
"""usage: tools/seed_keep.py <PROP> <n> "<what it needs to manifest>" "<detected by>"  - copies a verified seeded change into /verif/seeded."""
import json, os, shutil, sys
prop, n, needs, detected = sys.argv[1:5]
src = f'/tmp/seed_out/{prop}'
dst = f'/verif/seeded/{prop}-{n}'
os.makedirs(dst, exist_ok=True)
shutil.copy(f'{src}/patch{n}.diff', f'{dst}/patch.diff')
shutil.copy(f'{src}/demo{n}.py', f'{dst}/demo.py')
if os.path.exists(f'{src}/notes.md'):
    shutil.copy(f'{src}/notes.md', f'{dst}/author_notes.md')
json.dump({'property': prop, 'breaks': prop, 'needs_to_manifest': needs,
           'verified_by_me': ['patch applies to /repo HEAD with git apply', 'demo exits 0 on the unmodified tree and non-zero with the change (PYTHONPATH=/repo/src /venv/bin/python demo.py)',
                              'baseline suite unchanged: 66 passed with the change applied', f'./check {prop} with the change applied: exit 1 with VIOLATION line(s)'],
           'detected_by': detected, 'how_to_rerun': f'tools/seed_eval.sh {prop} seeded/{prop}-{n}/patch.diff seeded/{prop}-{n}/demo.py',
           'source': 'independent sub-agent given only the property text and its own scratch worktree'}, open(f'{dst}/meta.json', 'w'), indent=1)
print('kept', dst)

#!/bin/bash
# usage: tools/seed_eval.sh <PROP> <patchfile> [demo.py]
# Applies a seeded change to /repo (never committed), runs the baseline tests that matter + the demo + the check, reverts.
set -u
PROP=$1; PATCH=$2; DEMO=${3:-}
cd /repo || exit 9
if ! git diff --quiet; then echo "repo dirty"; exit 9; fi
if [ -n "$DEMO" ]; then
  cp "$DEMO" /tmp/_demo_run.py
  (cd /repo && PYTHONPATH=/repo/src timeout 300 /venv/bin/python /tmp/_demo_run.py >/tmp/_demo_before.log 2>&1); echo "demo on unmodified tree: exit $?"
fi
git apply "$PATCH" || { echo "patch does not apply"; exit 9; }
if [ -n "$DEMO" ]; then
  (cd /repo && PYTHONPATH=/repo/src timeout 300 /venv/bin/python /tmp/_demo_run.py >/tmp/_demo_after.log 2>&1); echo "demo with change: exit $?"
fi
(cd /repo && timeout 900 /venv/bin/python -m pytest -q -p no:cacheprovider --timeout=900 --continue-on-collection-errors tests 2>&1 | tail -1)
cd /verif
VERIF_EVIDENCE_DIR=out/scratch_evidence timeout 900 ./check "$PROP" > /tmp/_seed_check.log 2>&1; RC=$?
grep -E "^VIOLATION|^$PROP tier" /tmp/_seed_check.log | cut -c1-260 | head -8
echo "check exit: $RC"
git -C /repo checkout -- .
rm -f /tmp/_demo_run.py

#!/bin/bash
# usage: tools/seed_eval_scratch.sh <PROP> <patchfile> [demo.py]   - like seed_eval.sh but on a scratch worktree (VERIF_REPO), leaving /repo untouched
set -u
PROP=$1; PATCH=$(readlink -f "$2"); DEMO=${3:-}
WT=$(mktemp -d /tmp/seedeval_XXXX); rmdir "$WT"
git -C /repo worktree add --detach "$WT" HEAD -q || exit 9
trap 'git -C /repo worktree remove --force "$WT"' EXIT
if [ -n "$DEMO" ]; then
  cp "$DEMO" "$WT/_demo_run.py"
  (cd "$WT" && PYTHONPATH=$WT/src timeout 300 /venv/bin/python _demo_run.py >/dev/null 2>&1); echo "demo on unmodified tree: exit $?"
fi
git -C "$WT" apply "$PATCH" || { echo "patch does not apply"; exit 9; }
if [ -n "$DEMO" ]; then
  (cd "$WT" && PYTHONPATH=$WT/src timeout 300 /venv/bin/python _demo_run.py >/dev/null 2>&1); echo "demo with change: exit $?"
  rm -f "$WT/_demo_run.py"
fi
(cd "$WT" && PYTHONPATH=$WT/src timeout 900 /venv/bin/python -m pytest -q -p no:cacheprovider --timeout=900 --continue-on-collection-errors tests 2>&1 | tail -1)
cd "$(dirname "$0")/.."
VERIF_REPO=$WT VERIF_EVIDENCE_DIR=out/scratch_evidence timeout 1500 ./check "$PROP" > /tmp/_seed_check_$(basename $WT).log 2>&1; RC=$?
grep -E "^VIOLATION|^$PROP tier|^UNDECIDED" /tmp/_seed_check_$(basename $WT).log | cut -c1-260 | head -8
echo "check exit: $RC"

#!/bin/bash
# Runs the whole kill suite (tools/mutants.json), several properties at a time, and assembles out/kill_all.log in property order.
# usage: tools/kill_all.sh [jobs]
cd "$(dirname "$0")/.."
mkdir -p out/kill
props=$(python3 -c "import json; print(' '.join(sorted(json.load(open('tools/mutants.json')))))")
echo $props | tr ' ' '\n' | xargs -P "${1:-4}" -I{} sh -c 'python3 tools/kill.py {} > out/kill/{}.log 2>&1'
: > out/kill_all.log
for p in $props; do echo "#### $p" >> out/kill_all.log; cat out/kill/$p.log >> out/kill_all.log; done
grep -c " OK " out/kill_all.log; grep "MISSED" out/kill_all.log | cut -c1-160

#!/bin/bash
# Regenerate every evidence file from the unchanged tree (quick tier by default):  tools/run_all.sh [quick|thorough]
cd "$(dirname "$0")/.."
TIER=${1:-quick}
if ! git -C /repo diff --quiet; then echo "/repo has uncommitted changes"; exit 9; fi
for id in $(python3 -c "import json; print(' '.join(c['property_id'] for c in json.load(open('MANIFEST.json'))['checks']))"); do
  ./check $id --tier $TIER > out/run_$id.log 2>&1; rc=$?
  echo "$id exit=$rc $(grep -E "^$id tier" out/run_$id.log | cut -c1-160)"
done
